(* C16 growth: the chordless-cycle identity for EVERY n >= 3 (no reflection, no bound).
   Plan:
   1. edge subsets of a list = boolean masks ([bools], [select]); [subseqs l = map (select . l) (bools |l|)];
   2. on the n-cycle 0 - 1 - ... - (n-1) - 0 with mask bs (bs_i = edge (i, i+1 mod n) kept), the component of
      the root 0 is { v | v <= pre bs \/ n - suf bs <= v } where [pre] / [suf] are the lengths of the leading /
      trailing runs of kept edges (paths hanging off the root on both sides);
   3. the number of other vertices in it is [cyc bs] = n-1 if every edge is kept, pre + suf otherwise;
   4. the weighted sums over all masks obey one-step recursions (first edge kept / removed), solved in closed
      form by induction; the closed form for the cycle is the code's formula. *)
From Coq Require Import List ZArith QArith Qpower Bool Arith Lia Qfield.
From GV Require Import Lib.Tree Lib.Graph16 Lib.PolyRefl16 Model.QCount Model.CliqueEq
                       Proofs.QCountP Proofs.CliqueEqP.
Import ListNotations.

(* ================================================================== 1. masks *)
Fixpoint bools (m : nat) : list (list bool) :=
  match m with
  | O => [[]]
  | S m' => map (cons true) (bools m') ++ map (cons false) (bools m')
  end.

Fixpoint select {A} (bs : list bool) (l : list A) : list A :=
  match bs, l with
  | b :: bs', x :: l' => if b then x :: select bs' l' else select bs' l'
  | _, _ => []
  end.

Fixpoint cnt (bs : list bool) : nat :=
  match bs with [] => O | b :: t => (if b then 1 else 0) + cnt t end.

Lemma bools_length m bs : In bs (bools m) -> length bs = m.
Proof.
  revert bs. induction m as [|m IH]; intros bs H; cbn in H.
  - destruct H as [<-|[]]. reflexivity.
  - apply in_app_or in H. destruct H as [H|H]; apply in_map_iff in H; destruct H as [t [<- Ht]];
      cbn; f_equal; apply IH, Ht.
Qed.

Lemma subseqs_bools {A} (l : list A) : subseqs l = map (fun bs => select bs l) (bools (length l)).
Proof.
  induction l as [|x t IH]; [reflexivity|].
  cbn [subseqs length bools]. rewrite map_app, !map_map. cbn [select]. rewrite IH, map_map. reflexivity.
Qed.

Lemma select_length {A} : forall bs (l : list A), length bs = length l -> length (select bs l) = cnt bs.
Proof.
  induction bs as [|b bs IH]; intros l H; destruct l as [|x l]; try discriminate; [reflexivity|].
  cbn in H. cbn [select cnt]. destruct b; cbn; rewrite IH by lia; reflexivity.
Qed.

Lemma cnt_le bs : (cnt bs <= length bs)%nat.
Proof. induction bs as [|[] t IH]; cbn; lia. Qed.

(* membership in a selected sublist of an enumerated list *)
Lemma In_select_map {A} (f : nat -> A) : forall m s bs e, length bs = m ->
  (In e (select bs (map f (seq s m))) <-> exists i, (i < m)%nat /\ nth i bs false = true /\ e = f (s + i)%nat).
Proof.
  induction m as [|m IH]; intros s bs e Hl.
  - destruct bs; [|discriminate]. cbn. split; [intros [] | intros [i [Hi _]]; lia].
  - destruct bs as [|b bs]; [discriminate|]. cbn in Hl. cbn [seq map select].
    assert (Hrec := IH (S s) bs e ltac:(lia)).
    split.
    + intros H. destruct b.
      * destruct H as [<-|H].
        -- exists 0%nat. repeat split; [lia | f_equal; lia].
        -- apply Hrec in H. destruct H as [i [Hi [Hb ->]]]. exists (S i). repeat split; [lia | exact Hb | f_equal; lia].
      * apply Hrec in H. destruct H as [i [Hi [Hb ->]]]. exists (S i). repeat split; [lia | exact Hb | f_equal; lia].
    + intros [i [Hi [Hb ->]]]. destruct i as [|i].
      * cbn in Hb. subst b. left. f_equal. lia.
      * cbn in Hb. assert (Hin : In (f (s + S i)%nat) (select bs (map f (seq (S s) m)))).
        { apply Hrec. exists i. repeat split; [lia | exact Hb | f_equal; lia]. }
        destruct b; [right; exact Hin | exact Hin].
Qed.

(* ================================================================== 2. runs *)
Fixpoint pre (bs : list bool) : nat :=
  match bs with true :: t => S (pre t) | _ => O end.

Fixpoint allt (bs : list bool) : bool := match bs with [] => true | b :: t => b && allt t end.

Fixpoint suf (bs : list bool) : nat :=
  match bs with
  | [] => O
  | b :: t => if allt t then (if b then S (length t) else length t) else suf t
  end.

(* number of vertices other than the root in the root's component of the cycle with mask bs *)
Definition cyc (bs : list bool) : nat :=
  if allt bs then (length bs - 1)%nat else (pre bs + suf bs)%nat.

Lemma allt_nth bs : allt bs = true -> forall i, (i < length bs)%nat -> nth i bs false = true.
Proof.
  induction bs as [|b t IH]; intros H i Hi; cbn in *; [lia|].
  apply andb_true_iff in H. destruct H as [-> H]. destruct i; [reflexivity | apply IH; [exact H | lia]].
Qed.

Lemma allt_pre bs : allt bs = true <-> pre bs = length bs.
Proof.
  induction bs as [|[] t IH]; cbn; [tauto | | split; [discriminate | lia]].
  rewrite IH. lia.
Qed.

Lemma pre_le bs : (pre bs <= length bs)%nat.
Proof. induction bs as [|[] t IH]; cbn; lia. Qed.

Lemma pre_true bs i : (i < pre bs)%nat -> nth i bs false = true.
Proof.
  revert i. induction bs as [|[] t IH]; intros i Hi; cbn in *; try lia.
  destruct i; [reflexivity | apply IH; lia].
Qed.

Lemma pre_false bs : (pre bs < length bs)%nat -> nth (pre bs) bs false = false.
Proof.
  induction bs as [|[] t IH]; intros H; cbn in *; [lia | apply IH; lia | reflexivity].
Qed.

Lemma allt_suf bs : allt bs = true -> suf bs = length bs.
Proof.
  destruct bs as [|b t]; [reflexivity|]. cbn. intros H. apply andb_true_iff in H. destruct H as [-> ->]. reflexivity.
Qed.

Lemma suf_le bs : (suf bs <= length bs)%nat.
Proof.
  induction bs as [|b t IH]; cbn; [lia|]. destruct (allt t); [destruct b; lia | lia].
Qed.

Lemma suf_true bs i : (length bs - suf bs <= i < length bs)%nat -> nth i bs false = true.
Proof.
  revert i. induction bs as [|b t IH]; intros i Hi; cbn [length suf] in *; [lia|].
  destruct (allt t) eqn:Ea.
  - destruct b.
    + apply (allt_nth (true :: t)); [cbn; rewrite Ea; reflexivity | cbn; lia].
    + destruct i; [lia|]. cbn. apply allt_nth; [exact Ea | lia].
  - pose proof (suf_le t). destruct i; [lia|]. cbn. apply IH. lia.
Qed.

Lemma suf_lt_not_allt bs : (suf bs < length bs)%nat -> allt bs = false.
Proof. intros H. destruct (allt bs) eqn:E; [apply allt_suf in E; lia | reflexivity]. Qed.

Lemma suf_false bs : (suf bs < length bs)%nat -> nth (length bs - 1 - suf bs) bs false = false.
Proof.
  induction bs as [|b t IH]; intros H; cbn [length suf] in *; [lia|].
  destruct (allt t) eqn:Ea.
  - destruct b; [lia|]. replace (S (length t) - 1 - length t)%nat with 0%nat by lia. reflexivity.
  - assert (Hs : (suf t < length t)%nat).
    { pose proof (suf_le t). destruct (Nat.eq_dec (suf t) (length t)) as [E|E]; [|lia].
      exfalso. assert (allt t = true); [|congruence].
      clear IH H. apply allt_pre.
      (* suf t = length t with allt t = false is impossible *)
      revert E Ea. clear. induction t as [|b t IH]; cbn [suf length allt]; [discriminate|].
      destruct (allt t) eqn:Et.
      - destruct b; [discriminate | lia].
      - intros E _. pose proof (suf_le t). lia. }
    replace (S (length t) - 1 - suf t)%nat with (S (length t - 1 - suf t)) by lia.
    cbn. apply IH, Hs.
Qed.

Lemma not_allt_pre_suf bs : allt bs = false -> (pre bs + suf bs < length bs)%nat.
Proof.
  induction bs as [|b t IH]; [discriminate|]. cbn [allt pre suf length].
  destruct (allt t) eqn:Et.
  - destruct b; [discriminate|]. intros _. lia.
  - intros _. specialize (IH eq_refl). destruct b; lia.
Qed.

(* ================================================================== 3. the root's component on the cycle *)
Section CycleComponent.
Variable n : nat.
Variable bs : list bool.
Hypothesis Hn : (2 <= n)%nat.
Hypothesis Hl : length bs = n.

Let ES := select bs (cycle_edges n).
Definition incomp (v : nat) : Prop := (v <= pre bs)%nat \/ (n - suf bs <= v)%nat.

Lemma In_cyc_edge a b :
  In (a, b) ES <-> (a < n)%nat /\ nth a bs false = true /\ b = (S a mod n)%nat.
Proof.
  unfold ES, cycle_edges. rewrite (In_select_map (fun i => (i, (S i mod n)%nat)) n 0 bs (a, b) Hl).
  split.
  - intros [i [Hi [Hb E]]]. cbn in E. inversion E; subst. auto.
  - intros [Ha [Hb ->]]. exists a. auto.
Qed.

Lemma cyc_edges_in : edges_in (seq 0 n) ES.
Proof.
  intros [a b] H. apply In_cyc_edge in H. destruct H as [Ha [_ ->]]. cbn. split; apply in_seq.
  - lia.
  - pose proof (Nat.mod_upper_bound (S a) n). lia.
Qed.

Lemma incomp_closed x y : (x < n)%nat -> incomp x -> adj ES x y -> incomp y /\ (y < n)%nat.
Proof.
  intros Hx HC Ha.
  assert (Hy : (y < n)%nat).
  { destruct Ha as [H|H]; apply In_cyc_edge in H; destruct H as [H1 [_ H2]]; [|exact H1].
    subst y. apply Nat.mod_upper_bound. lia. }
  split; [|exact Hy].
  destruct (allt bs) eqn:Ea.
  { left. apply allt_pre in Ea. lia. }
  pose proof (not_allt_pre_suf bs Ea) as Hps. rewrite Hl in Hps.
  assert (Hpf : nth (pre bs) bs false = false) by (apply pre_false; lia).
  assert (Hsf : nth (n - 1 - suf bs) bs false = false) by (rewrite <- Hl; apply suf_false; lia).
  unfold incomp in *.
  destruct Ha as [H|H]; apply In_cyc_edge in H; destruct H as [H1 [H2 H3]].
  - (* edge (x, x+1) *)
    destruct (Nat.eq_dec (S x) n) as [E|E].
    + rewrite E, Nat.mod_same in H3 by lia. left. lia.
    + rewrite Nat.mod_small in H3 by lia. subst y.
      destruct HC as [HC|HC].
      * assert (x <> pre bs) by (intros ->; congruence). left. lia.
      * right. lia.
  - (* edge (y, y+1), x = y+1 *)
    destruct (Nat.eq_dec (S y) n) as [E|E].
    + right. assert (suf bs <> 0%nat); [|lia].
      intros E0. rewrite E0 in Hsf. replace (n - 1 - 0)%nat with y in Hsf by lia. congruence.
    + rewrite Nat.mod_small in H3 by lia. subst x.
      destruct HC as [HC|HC]; [left; lia|].
      assert (y <> (n - 1 - suf bs)%nat) by (intros ->; congruence). right. lia.
Qed.

Lemma conn_incomp v : conn ES 0 v -> incomp v /\ (v < n)%nat.
Proof.
  assert (H0 : incomp 0 /\ (0 < n)%nat) by (split; [left; lia | lia]).
  revert H0. generalize 0%nat as x. intros x H0 H. induction H as [x|x y z Ha _ IH]; [exact H0|].
  apply IH. destruct H0 as [H1 H2]. apply (incomp_closed x y H2 H1 Ha).
Qed.

Lemma conn_right v : (v <= pre bs)%nat -> (v < n)%nat -> conn ES 0 v.
Proof.
  induction v as [|v IH]; intros H1 H2; [constructor|].
  eapply conn_trans; [apply IH; lia|]. apply conn_edge. left. apply In_cyc_edge.
  split; [lia|]. split; [apply pre_true; lia|]. rewrite Nat.mod_small by lia. reflexivity.
Qed.

Lemma conn_left j : (j < suf bs)%nat -> conn ES 0 (n - 1 - j).
Proof.
  pose proof (suf_le bs) as Hs. rewrite Hl in Hs.
  induction j as [|j IH]; intros H.
  - apply conn_edge. right. apply In_cyc_edge. rewrite Nat.sub_0_r.
    split; [lia|]. split; [apply suf_true; lia|].
    replace (S (n - 1)) with n by lia. rewrite Nat.mod_same by lia. reflexivity.
  - eapply conn_trans; [apply IH; lia|]. apply conn_edge. right. apply In_cyc_edge.
    split; [lia|]. split; [apply suf_true; lia|].
    replace (S (n - 1 - S j)) with (n - 1 - j)%nat by lia. rewrite Nat.mod_small by lia. reflexivity.
Qed.

Lemma incomp_conn v : (v < n)%nat -> incomp v -> conn ES 0 v.
Proof.
  intros Hv [H|H]; [apply conn_right; assumption|].
  replace v with (n - 1 - (n - 1 - v))%nat by lia. apply conn_left. lia.
Qed.

(* the boolean the specification computes = the run description *)
Definition incompb (v : nat) : bool :=
  negb (Nat.eqb v 0) && ((v <=? pre bs)%nat || (n - suf bs <=? v)%nat).

Lemma root_comp_bool v : In v (seq 0 n) ->
  negb (Nat.eqb v 0) && same_comp (labels (seq 0 n) ES) 0 v = incompb v.
Proof.
  intros Hv. apply in_seq in Hv. unfold incompb. f_equal.
  assert (H0 : In 0%nat (seq 0 n)) by (apply in_seq; lia).
  assert (Hvv : In v (seq 0 n)) by (apply in_seq; lia).
  pose proof (same_comp_spec (seq 0 n) ES 0 v cyc_edges_in H0 Hvv) as Hs.
  destruct (same_comp (labels (seq 0 n) ES) 0 v) eqn:E.
  - assert (Hc : conn ES 0 v) by (apply Hs; reflexivity).
    apply conn_incomp in Hc. destruct Hc as [[Hc|Hc] _]; symmetry; apply orb_true_iff;
      [left; apply Nat.leb_le | right; apply Nat.leb_le]; exact Hc.
  - symmetry. apply orb_false_iff. split; apply Nat.leb_gt.
    + destruct (Nat.le_gt_cases v (pre bs)) as [Hle|Hgt]; [|exact Hgt].
      assert (conn ES 0 v) by (apply incomp_conn; [lia | left; exact Hle]).
      apply Hs in H. congruence.
    + destruct (Nat.le_gt_cases (n - suf bs) v) as [Hle|Hgt]; [|exact Hgt].
      assert (conn ES 0 v) by (apply incomp_conn; [lia | right; exact Hle]).
      apply Hs in H. congruence.
Qed.

Lemma filter_all {A} (p : A -> bool) l : (forall x, In x l -> p x = true) -> filter p l = l.
Proof.
  induction l as [|x l IH]; intros H; cbn; [reflexivity|].
  rewrite (H x) by (left; reflexivity). f_equal. apply IH. intros y Hy. apply H. right. exact Hy.
Qed.
Lemma filter_none {A} (p : A -> bool) l : (forall x, In x l -> p x = false) -> filter p l = [].
Proof.
  induction l as [|x l IH]; intros H; cbn; [reflexivity|].
  rewrite (H x) by (left; reflexivity). apply IH. intros y Hy. apply H. right. exact Hy.
Qed.

Lemma count_incompb : length (filter incompb (seq 0 n)) = cyc bs.
Proof.
  unfold cyc. rewrite Hl. destruct (allt bs) eqn:Ea.
  - apply allt_pre in Ea. rewrite Hl in Ea.
    replace n with (1 + (n - 1))%nat at 1 by lia. rewrite seq_app, filter_app.
    rewrite filter_none, filter_all; cbn [app]; [apply seq_length | |].
    + intros x Hx. apply in_seq in Hx. unfold incompb.
      destruct (Nat.eqb_spec x 0); [lia|]. cbn. apply orb_true_iff. left. apply Nat.leb_le. lia.
    + intros x Hx. apply in_seq in Hx. unfold incompb. destruct (Nat.eqb_spec x 0); [reflexivity | lia].
  - pose proof (not_allt_pre_suf bs Ea) as Hps. rewrite Hl in Hps.
    set (a := pre bs) in *. set (b := suf bs) in *.
    replace n with (1 + (a + ((n - 1 - a - b) + b)))%nat at 1 by lia.
    rewrite !seq_app, !filter_app.
    rewrite (filter_none _ (seq 0 1)), (filter_all _ (seq (0 + 1) a)),
            (filter_none _ (seq (0 + 1 + a) (n - 1 - a - b))), (filter_all _ (seq (0 + 1 + a + (n - 1 - a - b)) b)).
    + cbn [app]. rewrite app_length, !seq_length. reflexivity.
    + intros x Hx. apply in_seq in Hx. unfold incompb. destruct (Nat.eqb_spec x 0); [lia|]. cbn.
      apply orb_true_iff. right. apply Nat.leb_le. lia.
    + intros x Hx. apply in_seq in Hx. unfold incompb. destruct (Nat.eqb_spec x 0); [lia|]. cbn.
      apply orb_false_iff. split; apply Nat.leb_gt; lia.
    + intros x Hx. apply in_seq in Hx. unfold incompb. destruct (Nat.eqb_spec x 0); [lia|]. cbn.
      apply orb_true_iff. left. apply Nat.leb_le. lia.
    + intros x Hx. apply in_seq in Hx. unfold incompb. destruct (Nat.eqb_spec x 0); [reflexivity | lia].
Qed.

(* the number of vertices other than the root in the root's component *)
Lemma root_comp_size :
  length (filter (fun v => negb (Nat.eqb v 0) && same_comp (labels (seq 0 n) ES) 0 v) (seq 0 n)) = cyc bs.
Proof.
  rewrite (filter_ext_in _ incompb); [apply count_incompb|]. intros v Hv. apply root_comp_bool, Hv.
Qed.

End CycleComponent.

(* ================================================================== 4. weighted sums over masks *)
Local Open Scope Q_scope.

Fixpoint qpn (x : Q) (k : nat) : Q := match k with O => 1 | S k' => x * qpn x k' end.

Lemma qpn_comp x y k : x == y -> qpn x k == qpn y k.
Proof. intros E. induction k as [|k IH]; cbn; [reflexivity|]. rewrite IH, E. reflexivity. Qed.

Lemma qpn_mul x y k : qpn (x * y) k == qpn x k * qpn y k.
Proof. induction k as [|k IH]; cbn; [ring|]. rewrite IH. ring. Qed.

Lemma qpn_add x a b : qpn x (a + b) == qpn x a * qpn x b.
Proof. induction a as [|a IH]; cbn; [ring|]. rewrite IH. ring. Qed.

Lemma Qpower_nat x k : Qpower x (Z.of_nat k) == qpn x k.
Proof.
  induction k as [|k IH]; [reflexivity|].
  rewrite Nat2Z.inj_succ. unfold Z.succ. rewrite Qpower_plus' by lia. rewrite IH.
  change (Qpower x 1) with x. cbn [qpn]. ring.
Qed.

Lemma qpow_nat x k : qpow x (Z.of_nat k) == qpn x k.
Proof. unfold qpow. rewrite <- nat_N_Z, N2Z.id, nat_N_Z. apply Qpower_nat. Qed.

Lemma qprod_const {A} u (l : list A) : qprod (map (fun _ => u) l) == qpn u (length l).
Proof. induction l as [|x l IH]; cbn; [reflexivity|]. unfold qprod in IH. rewrite IH. reflexivity. Qed.

Section MaskSums.
Variables phi u : Q.
Let q := 1 - phi.
Let x := phi * u.

Fixpoint wt (bs : list bool) : Q :=
  match bs with [] => 1 | b :: t => (if b then phi else q) * wt t end.

Lemma wt_counts bs : qpn phi (cnt bs) * qpn q (length bs - cnt bs) == wt bs.
Proof.
  induction bs as [|b t IH]; cbn [cnt length wt]; [cbn; ring|].
  pose proof (cnt_le t). destruct b.
  - cbn [Nat.add Nat.sub qpn]. rewrite <- IH. ring.
  - cbn [Nat.add]. replace (S (length t) - cnt t)%nat with (S (length t - cnt t)) by lia.
    cbn [qpn]. rewrite <- IH. ring.
Qed.

Definition msum (m : nat) (g : list bool -> Q) : Q := qsum (map (fun bs => wt bs * g bs) (bools m)).

Lemma msum_S m g :
  msum (S m) g == phi * msum m (fun t => g (true :: t)) + q * msum m (fun t => g (false :: t)).
Proof.
  unfold msum. cbn [bools]. rewrite map_app, qsum_app, !map_map. cbn [wt].
  assert (H : forall c (f : list bool -> Q) l,
            qsum (map (fun t => c * wt t * f t) l) == c * qsum (map (fun t => wt t * f t) l)).
  { intros c f l. induction l as [|a l IH]; cbn; [ring|]. unfold qsum in IH. rewrite IH. ring. }
  rewrite !H. reflexivity.
Qed.

Lemma msum_ext m g g' : (forall bs, length bs = m -> g bs == g' bs) -> msum m g == msum m g'.
Proof.
  intros H. unfold msum. apply qsum_map_ext. intros bs Hb. rewrite (H bs (bools_length m bs Hb)). reflexivity.
Qed.

Lemma msum_add m f g : msum m (fun bs => f bs + g bs) == msum m f + msum m g.
Proof.
  unfold msum. induction (bools m) as [|a l IH]; cbn; [ring|]. unfold qsum in IH. rewrite IH. ring.
Qed.

Lemma msum_scale m c f : msum m (fun bs => c * f bs) == c * msum m f.
Proof.
  unfold msum. induction (bools m) as [|a l IH]; cbn; [ring|]. unfold qsum in IH. rewrite IH. ring.
Qed.

(* the weights of all masks sum to 1 (edges outside the component are free) *)
Lemma msum_one m : msum m (fun _ => 1) == 1.
Proof.
  induction m as [|m IH]; [unfold msum; cbn; ring|]. rewrite msum_S, IH. unfold q. ring.
Qed.

Definition ind (c : Q) (bs : list bool) : Q := if allt bs then c else 0.

(* only one mask keeps every edge *)
Lemma msum_ind m c : msum m (ind c) == qpn phi m * c.
Proof.
  induction m as [|m IH]; [unfold msum, ind; cbn; ring|].
  rewrite msum_S.
  rewrite (msum_ext m (fun t => ind c (true :: t)) (ind c)) by (intros; reflexivity).
  rewrite (msum_ext m (fun t => ind c (false :: t)) (fun _ => 0 * 1)) by (intros; unfold ind; cbn; ring).
  rewrite IH, msum_scale, msum_one. cbn [qpn]. ring.
Qed.

(* the three families *)
Definition Sf (bs : list bool) : Q := qpn u (suf bs).
Definition Gf (bs : list bool) : Q := qpn u (if allt bs then length bs else (pre bs + suf bs)%nat).
Definition Cf (bs : list bool) : Q := qpn u (cyc bs).

Lemma Sf_true t : Sf (true :: t) == Sf t + ind (qpn u (S (length t)) - qpn u (length t)) t.
Proof.
  unfold Sf, ind. cbn [suf]. destruct (allt t) eqn:E; [|ring].
  rewrite (allt_suf t E). ring.
Qed.
Lemma Sf_false t : Sf (false :: t) == Sf t.
Proof.
  unfold Sf. cbn [suf]. destruct (allt t) eqn:E; [|reflexivity]. rewrite (allt_suf t E). reflexivity.
Qed.
Lemma Gf_true t : Gf (true :: t) == u * Gf t.
Proof.
  unfold Gf. cbn [allt pre suf length andb]. destruct (allt t); cbn [qpn Nat.add]; reflexivity.
Qed.
Lemma Gf_false t : Gf (false :: t) == Sf t.
Proof.
  unfold Gf, Sf. cbn [allt pre suf andb Nat.add]. destruct (allt t) eqn:E; [|reflexivity].
  rewrite (allt_suf t E). reflexivity.
Qed.
Lemma Cf_true t : Cf (true :: t) == u * Gf t + ind (qpn u (length t) - qpn u (S (length t))) t.
Proof.
  unfold Cf, Gf, ind, cyc. cbn [allt pre suf length andb]. destruct (allt t).
  - replace (S (length t) - 1)%nat with (length t) by lia. cbn [qpn]. ring.
  - cbn [Nat.add qpn]. ring.
Qed.
Lemma Cf_false t : Cf (false :: t) == Sf t.
Proof.
  unfold Cf, Sf, cyc. cbn [allt pre suf andb Nat.add]. destruct (allt t) eqn:E; [|reflexivity].
  rewrite (allt_suf t E). reflexivity.
Qed.

(* closed forms *)
Fixpoint geo (m : nat) : Q := match m with O => 0 | S m' => geo m' + qpn x m' end.
Fixpoint ari (m : nat) : Q := match m with O => 0 | S m' => ari m' + inject_Z (Z.of_nat (S m')) * qpn x m' end.

Lemma inject_S k : inject_Z (Z.of_nat (S k)) == inject_Z (Z.of_nat k) + 1.
Proof. rewrite Nat2Z.inj_succ. unfold Z.succ. rewrite inject_Z_plus. reflexivity. Qed.

(* path hanging off the root on one side: expectation of u^(length of the run at the far end) *)
Lemma S_closed m : msum m Sf == q * geo m + qpn x m.
Proof.
  induction m as [|m IH]; [unfold msum, Sf; cbn; ring|].
  rewrite msum_S.
  rewrite (msum_ext m (fun t => Sf (true :: t))
             (fun t => Sf t + ind (qpn u (S m) - qpn u m) t)) by (intros t Ht; rewrite Sf_true, Ht; reflexivity).
  rewrite (msum_ext m (fun t => Sf (false :: t)) Sf) by (intros; apply Sf_false).
  rewrite msum_add, msum_ind, IH. cbn [geo qpn]. unfold x. rewrite !qpn_mul. unfold q. ring.
Qed.

Lemma ari_geo m : ari (S m) == geo (S m) + x * ari m.
Proof.
  induction m as [|m IH]; [cbn; change (inject_Z 1) with 1; ring|].
  change (ari (S (S m))) with (ari (S m) + inject_Z (Z.of_nat (S (S m))) * qpn x (S m)).
  rewrite IH at 1. rewrite (inject_S (S m)).
  change (geo (S (S m))) with (geo (S m) + qpn x (S m)).
  change (ari (S m)) with (ari m + inject_Z (Z.of_nat (S m)) * qpn x m). cbn [qpn]. ring.
Qed.

(* path closed by a kept edge back to the root: both runs count *)
Lemma G_closed m : msum (S m) Gf == qpn x (S m) + inject_Z (Z.of_nat (S m)) * q * qpn x m + q * q * ari m.
Proof.
  induction m as [|m IH].
  - unfold msum, Gf. cbn. change (inject_Z 1) with 1. unfold x, q. ring.
  - rewrite msum_S.
    rewrite (msum_ext (S m) (fun t => Gf (true :: t)) (fun t => u * Gf t)) by (intros; apply Gf_true).
    rewrite (msum_ext (S m) (fun t => Gf (false :: t)) Sf) by (intros; apply Gf_false).
    rewrite msum_scale, IH, S_closed, ari_geo. rewrite (inject_S (S m)). cbn [qpn]. unfold x. ring.
Qed.

(* THE CYCLE: n = m + 2 edges *)
Lemma C_closed m :
  msum (S (S m)) Cf ==
  q * q * ari (S m) + inject_Z (Z.of_nat (S (S m))) * qpn x (S m) * q + phi * qpn x (S m).
Proof.
  rewrite msum_S.
  rewrite (msum_ext (S m) (fun t => Cf (true :: t))
             (fun t => u * Gf t + ind (qpn u (S m) - qpn u (S (S m))) t))
    by (intros t Ht; rewrite Cf_true, Ht; reflexivity).
  rewrite (msum_ext (S m) (fun t => Cf (false :: t)) Sf) by (intros; apply Cf_false).
  rewrite msum_add, msum_scale, msum_ind, G_closed, S_closed, ari_geo.
  rewrite (inject_S (S m)). unfold x. rewrite !qpn_mul. cbn [qpn]. ring.
Qed.

End MaskSums.

(* ================================================================== 5. assembly *)
Lemma cycle_edges_length n : length (cycle_edges n) = n.
Proof. unfold cycle_edges. rewrite map_length, seq_length. reflexivity. Qed.

(* the specification's sum over all edge subsets of the n-cycle, mask by mask *)
Lemma exact_cycle_msum n u phi : (2 <= n)%nat ->
  exact_val (seq 0 n) (cycle_edges n) 0 phi (fun _ => u) == msum phi n (Cf u).
Proof.
  intros Hn. unfold exact_val, msum. rewrite subseqs_bools, map_map, cycle_edges_length.
  apply qsum_map_ext. intros bs Hb. apply bools_length in Hb. cbv zeta.
  rewrite select_length by (rewrite cycle_edges_length; exact Hb).
  rewrite !qpow_nat, qprod_const, (root_comp_size n bs Hn Hb).
  rewrite <- Hb at 1. rewrite wt_counts. reflexivity.
Qed.

Lemma zrange_seq lo k : zrange lo (lo + Z.of_nat k) = map (fun i => (lo + Z.of_nat i)%Z) (seq 0 k).
Proof. unfold zrange. replace (Z.to_nat (lo + Z.of_nat k - lo)) with k by lia. reflexivity. Qed.

Lemma ari_sum phi u m :
  qsum (map (fun i => inject_Z (Z.of_nat (S (S i))) * qpn (phi * u) (S i) * ((1 - phi) * (1 - phi))) (seq 0 m))
  + (1 - phi) * (1 - phi) == (1 - phi) * (1 - phi) * ari phi u (S m).
Proof.
  induction m as [|m IH].
  - cbn. change (inject_Z 1) with 1. ring.
  - rewrite seq_S, map_app, qsum_app. cbn [map qsum fold_right Nat.add].
    change (ari phi u (S (S m))) with (ari phi u (S m) + inject_Z (Z.of_nat (S (S m))) * qpn (phi * u) (S m)).
    set (t := inject_Z (Z.of_nat (S (S m))) * qpn (phi * u) (S m)) in *.
    transitivity ((qsum (map (fun i => inject_Z (Z.of_nat (S (S i))) * qpn (phi * u) (S i) * ((1 - phi) * (1 - phi))) (seq 0 m))
                   + (1 - phi) * (1 - phi)) + t * ((1 - phi) * (1 - phi))); [unfold qsum; ring|].
    rewrite IH. ring.
Qed.

(* the code's formula, n = m + 2, in the closed form of C_closed *)
Lemma cycle_val_closed m u phi :
  cycle_val (S (S m)) u phi ==
  (1 - phi) * (1 - phi) * ari phi u (S m)
  + inject_Z (Z.of_nat (S (S m))) * qpn (phi * u) (S m) * (1 - phi) + phi * qpn (phi * u) (S m).
Proof.
  unfold cycle_val. cbv zeta.
  replace (Z.of_nat (S (S m)) - 1)%Z with (Z.of_nat (S m)) by lia.
  assert (Ez : zrange 1 (Z.of_nat (S m)) = map (fun i => (1 + Z.of_nat i)%Z) (seq 0 m)).
  { rewrite <- zrange_seq. f_equal. lia. }
  rewrite Ez, map_map.
  change 2%Z with (Z.of_nat 2).
  rewrite (qpow_nat (1 - phi) 2), (qpow_nat (u * phi) (S m)), (qpow_nat (phi * u) (S m)).
  rewrite (qpn_comp (u * phi) (phi * u) (S m)) by ring.
  rewrite <- ari_sum.
  assert (E : qsum (map (fun i => inject_Z (1 + Z.of_nat i + 1) * qpow (phi * u) (1 + Z.of_nat i) * qpow (1 - phi) (Z.of_nat 2)) (seq 0 m)) ==
              qsum (map (fun i => inject_Z (Z.of_nat (S (S i))) * qpn (phi * u) (S i) * ((1 - phi) * (1 - phi))) (seq 0 m))).
  { apply qsum_map_ext. intros i _.
    replace (1 + Z.of_nat i + 1)%Z with (Z.of_nat (S (S i))) by lia.
    replace (1 + Z.of_nat i)%Z with (Z.of_nat (S i)) by lia. rewrite !qpow_nat. cbn [qpn]. ring. }
  rewrite E. cbn [qpn]. ring.
Qed.

(* GENERAL: for EVERY n >= 3 (indeed n >= 2), all rational u and phi, the chordless-cycle equation equals the exact
   bond-percolation expectation on the n-cycle seen from vertex 0 *)
Theorem cycle_identity_general : forall n, (3 <= n)%nat ->
  forall (u phi : Q), cycle_val n u phi == exact_val (seq 0 n) (cycle_edges n) 0 phi (fun _ => u).
Proof.
  intros n Hn u phi. rewrite exact_cycle_msum by lia.
  destruct n as [|[|m]]; try lia.
  rewrite cycle_val_closed, C_closed. reflexivity.
Qed.

Theorem cycle_identity_from_2 : forall n, (2 <= n)%nat ->
  forall (u phi : Q), cycle_val n u phi == exact_val (seq 0 n) (cycle_edges n) 0 phi (fun _ => u).
Proof.
  intros n Hn u phi. rewrite exact_cycle_msum by lia.
  destruct n as [|[|m]]; try lia.
  rewrite cycle_val_closed, C_closed. reflexivity.
Qed.
