(* C09: reflection over the small-graph domain (all edge subsets of K5). *)
From Coq Require Import List Arith Bool Lia.
From GV Require Import Lib.Tree Lib.GraphE Model.Eecc Proofs.EeccP.
Import ListNotations.

(* ------------------------------------------------------------------ reflection over a finite domain *)
Definition all_ok (gs : list graph) (m0s : list nat) : bool :=
  forallb (fun g => forallb (fun m0 => forallb (outcome_ok g m0) (eecc_all g m0)) m0s) gs.

Lemma all_ok_spec : forall gs m0s, all_ok gs m0s = true ->
  forall g m0 rs, In g gs -> In m0 m0s -> outcome_ok g m0 (out_triple (eecc_run g m0 rs)) = true.
Proof.
  intros gs m0s H g m0 rs Hg Hm. unfold all_ok in H. rewrite forallb_forall in H.
  specialize (H g Hg). rewrite forallb_forall in H. specialize (H m0 Hm).
  rewrite forallb_forall in H. apply H. apply run_in_all.
Qed.

Lemma outcome_ok_spec : forall g m0 o, outcome_ok g m0 (out_triple o) = true ->
  o_status o = 0 /\ o_graph o = [] /\ exact_cover_b g m0 (o_cover o) = true /\
  isolated_ok_b g m0 (o_cover o) = true.
Proof.
  intros g m0 o H. unfold outcome_ok, out_triple in H. rewrite !andb_true_iff in H.
  destruct H as [[[H1 H2] H3] H4]. apply Nat.eqb_eq in H1.
  split; [exact H1 |]. split; [| split; assumption].
  destruct (o_graph o); [reflexivity | discriminate].
Qed.

Lemma graphs5_ok : all_ok (all_graphs 5) [2; 3; 4; 5; 6] = true.
Proof. vm_compute. reflexivity. Qed.

Theorem exact_cover_upto_5 : forall g m0 rs,
  subseq g (all_pairs 5) -> 2 <= m0 <= 6 ->
  let o := eecc_run g m0 rs in
  o_status o = 0 /\ o_graph o = [] /\ ExactCover g m0 (o_cover o) /\
  IsolatedIntact g m0 (o_cover o).
Proof.
  intros g m0 rs Hg Hm o.
  assert (Hin : In g (all_graphs 5)) by (apply sublists_spec; exact Hg).
  assert (Hm0 : In m0 [2; 3; 4; 5; 6]) by (cbn; lia).
  pose proof (all_ok_spec _ _ graphs5_ok g m0 rs Hin Hm0) as H.
  apply outcome_ok_spec in H. destruct H as [H1 [H2 [H3 H4]]].
  split; [exact H1 |]. split; [exact H2 |]. split; [apply check_cover_sound; exact H3 | apply isolated_ok_sound; exact H4].
Qed.
