(* C13 growth: the verified checker with the tuple length T taken from the ANNOTATIONS
   (T >= number of requested names) instead of from the name list; equivalence with the
   Prop-level specification, agreement with the old checker on the old domain, and the model
   satisfies it on the whole extended domain. *)
From Coq Require Import List ZArith QArith Qabs Bool Arith Lia.
From GV Require Import Lib.Tree Lib.QSumM Model.Mixing Proofs.MixingP.
Import ListNotations.
Local Open Scope Q_scope.

(* the property on an observation, for annotations of T components *)
Definition C13_spec_T (eps : Q) (T : nat) (g : net) (names : list nat)
           (calls : list matrices) (xk : list (nat * list key)) (plain : dict) : Prop :=
  (length names <= T)%nat /\
  valid_net T g /\ NoDup names /\ calls <> [] /\
  Forall (mats_ok eps T g (enum_from 0 names)) calls /\
  Forall (mats_same (hd [] calls)) calls /\
  xkeys_ok g (enum_from 0 names) xk /\
  dict_close eps plain (spec_mix 1 (pexc (edges g)) (edges g)).

Lemma C13_spec_T_old eps g names calls xk plain :
  C13_spec_T eps (length names) g names calls xk plain <-> C13_spec eps g names calls xk plain.
Proof.
  unfold C13_spec_T, C13_spec. split; [intros [_ H]; exact H|intros H; split; [apply le_n|exact H]].
Qed.

Lemma c13_checkb_T_old eps g names calls xk plain :
  c13_checkb_T eps (length names) g names calls xk plain = c13_checkb eps g names calls xk plain.
Proof. unfold c13_checkb_T, c13_checkb. rewrite Nat.leb_refl. reflexivity. Qed.

Theorem c13_checkb_T_iff eps T g names calls xk plain :
  c13_checkb_T eps T g names calls xk plain = true <-> C13_spec_T eps T g names calls xk plain.
Proof.
  unfold c13_checkb_T, C13_spec_T.
  rewrite !andb_true_iff, Nat.leb_le, valid_netb_spec, nnodupb_spec, negb_true_iff, Nat.eqb_neq, !forallb_forall,
    check_xkeys_spec, dict_closeb_spec, !Forall_forall.
  assert (HL : length calls <> 0%nat <-> calls <> []) by (destruct calls; cbn; split; congruence).
  rewrite HL.
  split.
  - intros [[[[[[[Z A] B] C] D] E] F] G].
    split; [exact Z|]. split; [exact A|]. split; [exact B|]. split; [exact C|].
    split; [|split; [|split; [exact F|exact G]]].
    + intros x Hx. apply check_mats_spec, D, Hx.
    + intros x Hx. apply mats_eqb_spec, E, Hx.
  - intros [Z [A [B [C [D [E [F G]]]]]]].
    split; [|exact G]. split; [|exact F].
    split; [split; [split; [split; [split; [exact Z|exact A]|exact B]|exact C]|]|].
    + intros x Hx. apply check_mats_spec, D, Hx.
    + intros x Hx. apply mats_eqb_spec, E, Hx.
Qed.

(* ---------- ann_len is THE common length ---------- *)
Lemma ann_len_valid T g names : valid_net T g -> jds g <> [] -> ann_len g names = T.
Proof.
  intros [H _] Hne. unfold ann_len. destruct (jds g) as [|k ks]; [congruence|].
  inversion H; subst. reflexivity.
Qed.

Lemma ann_len_empty g names : jds g = [] -> ann_len g names = length names.
Proof. intros H. unfold ann_len. rewrite H. reflexivity. Qed.

Lemma ann_len_old g names : valid_net (length names) g -> ann_len g names = length names.
Proof.
  intros HV. destruct (jds g) as [|k ks] eqn:E.
  - apply ann_len_empty. exact E.
  - apply ann_len_valid; [exact HV|congruence].
Qed.

(* on the old domain (annotations of exactly [length names] components) nothing changed *)
Theorem c13_checkb_gen_old_domain eps g names calls xk plain :
  valid_netb (length names) g = true ->
  c13_checkb_gen eps g names calls xk plain = c13_checkb eps g names calls xk plain.
Proof.
  intros HV. unfold c13_checkb_gen. rewrite (ann_len_old g names) by (apply valid_netb_spec; exact HV).
  apply c13_checkb_T_old.
Qed.

(* whatever the old checker accepts, the new one accepts *)
Theorem c13_checkb_gen_extends eps g names calls xk plain :
  c13_checkb eps g names calls xk plain = true -> c13_checkb_gen eps g names calls xk plain = true.
Proof.
  intros H. rewrite c13_checkb_gen_old_domain; [exact H|].
  unfold c13_checkb in H. rewrite !andb_true_iff in H. tauto.
Qed.

Theorem c13_checkb_gen_iff eps g names calls xk plain :
  c13_checkb_gen eps g names calls xk plain = true <->
  C13_spec_T eps (ann_len g names) g names calls xk plain.
Proof. apply c13_checkb_T_iff. Qed.

(* a network without vertices has no edges either, and then T plays no role *)
Lemma Forall2_impl {A B} (R R' : A -> B -> Prop) l l' :
  (forall a b, R a b -> R' a b) -> Forall2 R l l' -> Forall2 R' l l'.
Proof. intros H F. induction F; constructor; auto. Qed.

Lemma no_vertices_no_edges T g : valid_net T g -> jds g = [] -> edges g = [].
Proof.
  intros [_ H] E. destruct (edges g) as [|e es]; [reflexivity|].
  inversion H as [|? ? [A _] _]; subst. rewrite E in A. cbn in A. lia.
Qed.

Lemma spec_T_empty eps T T' g names calls xk plain :
  jds g = [] -> (length names <= T')%nat ->
  C13_spec_T eps T g names calls xk plain -> C13_spec_T eps T' g names calls xk plain.
Proof.
  intros Ej HT' [Z [A [B [C [D [E [F G]]]]]]].
  pose proof (no_vertices_no_edges T g A Ej) as Ee.
  split; [exact HT'|]. split.
  { split; [rewrite Ej; constructor|rewrite Ee; constructor]. }
  split; [exact B|]. split; [exact C|]. split; [|split; [exact E|split; [exact F|exact G]]].
  rewrite Forall_forall in *. intros ms Hms. specialize (D ms Hms). unfold mats_ok in *.
  revert D. apply Forall2_impl. intros it nm [H1 H2]. split; [exact H1|].
  rewrite Ee in *. exact H2.
Qed.

(* the checker accepts exactly the observations that meet the specification for SOME tuple length *)
Theorem c13_checkb_gen_iff_ex eps g names calls xk plain :
  c13_checkb_gen eps g names calls xk plain = true <->
  exists T, C13_spec_T eps T g names calls xk plain.
Proof.
  rewrite c13_checkb_gen_iff. split.
  - intros H. exists (ann_len g names). exact H.
  - intros [T H]. destruct (jds g) as [|k ks] eqn:E.
    + apply (spec_T_empty eps T); [exact E| |exact H]. rewrite (ann_len_empty g names E). apply le_n.
    + destruct H as [Z [A R]]. rewrite (ann_len_valid T g names A) by congruence.
      split; [exact Z|]. split; [exact A|exact R].
Qed.

(* ---------- the model on the extended domain ---------- *)
Lemma short_annotation_false T g names :
  valid_net T g -> (length names <= T)%nat -> short_annotation g names = false.
Proof.
  intros [H _] HT. unfold short_annotation.
  destruct (existsb (fun k => Nat.ltb (length k) (length names)) (jds g)) eqn:E; [|reflexivity].
  apply existsb_exists in E. destruct E as [k [Hk Hlt]]. apply Nat.ltb_lt in Hlt.
  rewrite Forall_forall in H. rewrite (H k Hk) in Hlt. lia.
Qed.

Theorem model_satisfies_C13_T g names c n T :
  valid_net T g -> (length names <= T)%nat -> NoDup names -> (0 < n)%nat ->
  C13_spec_T 0 T g names (run_calls g names c n) (xkeys g names) (plain_ejk (edges g)).
Proof.
  intros HV HT HN Hn. unfold C13_spec_T. rewrite (run_calls_repeat g names n c []).
  split; [exact HT|]. split; [exact HV|]. split; [exact HN|]. split; [destruct n; [lia|discriminate]|].
  rewrite get_ejks_snd. split; [|split; [|split]].
  - apply Forall_forall. intros x Hx. apply repeat_spec in Hx. subst x. apply model_mats_ok. exact HV.
  - apply Forall_forall. intros x Hx. apply repeat_spec in Hx. subst x.
    destruct n; [lia|]. cbn [repeat hd]. apply model_mats_same.
    apply Forall_forall. intros nm Hnm. apply in_map_iff in Hnm. destruct Hnm as [it [<- _]]. cbn [snd].
    apply dacc_NoDup. constructor.
  - apply model_xkeys_ok.
  - rewrite plain_ejk_mix. apply (M_spec (pexc (edges g)) 1 (edges g)); [apply uniform_pexc|right; reflexivity].
Qed.

Corollary model_passes_checker_gen g names c n T :
  valid_net T g -> (length names <= T)%nat -> NoDup names -> (0 < n)%nat ->
  c13_checkb_gen 0 g names (run_calls g names c n) (xkeys g names) (plain_ejk (edges g)) = true.
Proof.
  intros HV HT HN Hn. apply c13_checkb_gen_iff_ex. exists T. apply model_satisfies_C13_T; assumption.
Qed.

(* the wire entry point does not answer IndexError there *)
Corollary c13_run_returns t T :
  let names := t_nats (t_nth 0 t) in
  let g := t_net (t_nth 1 t) (t_nth 2 t) in
  valid_net T g -> (length names <= T)%nat ->
  c13_run t = L [L (map of_mats (run_calls g names [] (t_nat (t_nth 3 t)))); of_keyss (xkeys g names);
                 of_dict (plain_ejk (edges g))].
Proof.
  intros names g HV HT. unfold c13_run. fold names. fold g.
  rewrite (short_annotation_false T g names HV HT). reflexivity.
Qed.
