(* C01 growth (audit-1 finding F2): the network variant as the composition of the fast generator
   (Model/Gen.v) with the conversion (Model/Conv.v); the C01 / C02 statements transported through
   C04's to_network_spec / final_attr_once. *)
From Coq Require Import List ZArith Bool Arith Lia Permutation.
From GV Require Import Lib.Tree Model.Gen Model.Conv Model.GenNet Proofs.GenP Proofs.ConvP Proofs.ConvGenP.
Import ListNotations.

Lemma endpoints_same (es : list (nat * nat)) : Conv.endpoints es = Gen.endpoints es.
Proof. reflexivity. Qed.

(* a row of Gen's zip3 is a row of Conv's rows *)
Lemma zip3_rows (ce : list (nat * nat)) (cn ci : list nat) e n i :
  In (e, n, i) (zip3 ce cn ci) <-> In (e, (n, i)) (combine ce (combine cn ci)).
Proof.
  unfold zip3. revert cn ci. induction ce as [|e0 ce IH]; intros [|n0 cn] [|i0 ci]; cbn; try tauto.
  rewrite IH. split; intros [H|H]; try (right; exact H); left; inversion H; reflexivity.
Qed.

Lemma gen_network_inv build sizes nms jds pis cs g :
  gen_network build sizes nms jds pis = Ok (cs, g) ->
  exists ce cn ci, gen_fast build sizes nms jds pis = Ok (cs, (ce, cn, ci)) /\
                   g = to_network (mk_elist jds ce cn ci).
Proof.
  unfold gen_network. destruct (gen_fast build sizes nms jds pis) as [[cs0 [[ce cn] ci]]|e]; [|discriminate].
  intros H. inversion H; subst. exists ce, cn, ci. split; reflexivity.
Qed.

Lemma gen_network_of_fast build sizes nms jds pis cs ce cn ci :
  gen_fast build sizes nms jds pis = Ok (cs, (ce, cn, ci)) ->
  gen_network build sizes nms jds pis = Ok (cs, to_network (mk_elist jds ce cn ci)).
Proof. intros H. unfold gen_network. rewrite H. reflexivity. Qed.

Lemma gen_network_err build sizes nms jds pis e :
  gen_network build sizes nms jds pis = Err e <-> gen_fast build sizes nms jds pis = Err e.
Proof.
  unfold gen_network. destruct (gen_fast build sizes nms jds pis) as [[cs0 c]|e0]; split; intros H;
    try discriminate; inversion H; reflexivity.
Qed.

(* the dispatch's tag 1 ("network": the columns the conversion is applied to) and gen_network *)
Lemma gen_network_of_main build sizes names mis jds pis cs ce cn ci :
  gen_main 1 build sizes names mis jds pis = Ok (cs, (ce, cn, ci)) ->
  gen_network build sizes (map (hd 0) names) jds pis = Ok (cs, to_network (mk_elist jds ce cn ci)).
Proof. cbn [gen_main]. apply gen_network_of_fast. Qed.

(* the generated list is well-formed for the conversion: parallel columns, vertices below N *)
Lemma generated_wf (jds : list (list nat)) ce cn ci :
  length ce = length cn -> length cn = length ci ->
  Forall (fun v => v < length jds) (Gen.endpoints ce) ->
  wf_el (mk_elist jds ce cn ci) = true.
Proof.
  intros L1 L2 Hv. unfold wf_el. cbn [el_jds el_edges el_names el_ids].
  rewrite !andb_true_iff. repeat split.
  - apply forallb_forall. intros v Hin. apply Nat.ltb_lt. rewrite Forall_forall in Hv. apply Hv. exact Hin.
  - apply Nat.eqb_eq. unfold edge. lia.
  - apply Nat.eqb_eq. unfold edge. lia.
Qed.

Lemma generated_simple (jds : list (list nat)) ce cn ci :
  wf_el (mk_elist jds ce cn ci) = true -> NoDup (map norm ce) -> simple_el (mk_elist jds ce cn ci) = true.
Proof.
  unfold wf_el, simple_el. cbn [el_jds el_edges el_names el_ids]. rewrite !andb_true_iff.
  intros [[H1 H2] H3] Hnd. repeat split; try assumption. apply nodupb_edge_NoDup. exact Hnd.
Qed.

(* ------------------------------------------------------------------ the specification *)
(* what the network variant returns, relative to the callback results of the run *)
Definition Spec_network (names : list (list nat)) (jds : list (list nat))
           (results : list (nat * shape)) (ce : list (nat * nat)) (cn ci : list nat) (g : net) : Prop :=
  (* exactly the vertices 0..N-1, each annotated with its joint degree *)
  NoDup (map fst (n_nodes g)) /\
  (forall v, In v (map fst (n_nodes g)) <-> v < length jds) /\
  (forall v a, In (v, a) (n_nodes g) -> a = Some (nth v jds [])) /\
  (* the edge set is the set of callback edges (as unordered pairs, each once) *)
  NoDup (map fst (n_edges g)) /\
  (forall e, In e (map fst (n_edges g)) <->
     (norm e = e /\ exists d r e0, nth_error results d = Some r /\ In e0 (edges_of (snd r)) /\ norm e0 = e)) /\
  (* an unordered pair produced once carries the name and id of its motif instance; *)
  (forall e a r, In (e, a) (n_edges g) -> occurrences (mk_elist jds ce cn ci) e = [r] -> a = Some r) /\
  (* when no unordered pair is produced twice: one network edge per emitted row, in row order, and every
     edge of motif instance number d (callback j) carries (name of topology j, id d) *)
  (NoDup (map norm ce) ->
     n_edges g = map (fun r => (norm (fst r), Some (snd r))) (rows (mk_elist jds ce cn ci)) /\
     length (n_edges g) = length ce /\
     (forall x, In x (zip3 ce cn ci) -> In (norm (r_edge x), Some (r_name x, r_id x)) (n_edges g)) /\
     (forall d j sh e, nth_error results d = Some (j, sh) -> In e (edges_of sh) ->
        In (norm e, Some (hd 0 (nth j names []), d)) (n_edges g))).

Lemma in_concat_nth {A} (ls : list (list A)) x : In x (concat ls) <-> exists d, In x (nth d ls []).
Proof.
  induction ls as [|l ls IH]; cbn.
  - split; [intros []|intros [[|d] H]; exact H].
  - rewrite in_app_iff, IH. split.
    + intros [H|[d H]]; [exists 0; exact H|exists (S d); exact H].
    + intros [[|d] H]; [left; exact H|right; exists d; exact H].
Qed.

Lemma Forall2_nth_error {A B} (R : A -> B -> Prop) (la : list A) (lb : list B) d a :
  Forall2 R la lb -> nth_error la d = Some a -> exists b, nth_error lb d = Some b /\ R a b.
Proof.
  intros F. revert d. induction F as [|x y la lb Hxy F IH]; intros [|d] H; cbn in *; try discriminate.
  - injection H as <-. exists y. split; [reflexivity|exact Hxy].
  - apply IH. exact H.
Qed.

Lemma in_repeat_eq {A} (x y : A) n : In y (repeat x n) -> y = x.
Proof. intros H. apply repeat_spec in H. exact H. Qed.

Lemma in_concat_map_results (results : list (nat * shape)) e0 :
  In e0 (concat (map (fun r => edges_of (snd r)) results)) <->
  exists d r, nth_error results d = Some r /\ In e0 (edges_of (snd r)).
Proof.
  rewrite in_concat. split.
  - intros [l [Hl He]]. apply in_map_iff in Hl. destruct Hl as [r [<- Hr]].
    apply In_nth_error in Hr. destruct Hr as [d Hd]. exists d, r. split; assumption.
  - intros [d [r [Hd He]]]. exists (edges_of (snd r)). split; [|exact He].
    apply in_map_iff. exists r. split; [reflexivity|]. apply nth_error_In in Hd. exact Hd.
Qed.

(* ------------------------------------------------------------------ the composed theorem *)
Theorem gen_network_C01 : forall build sizes names jds pis cs g,
  Valid sizes (singleton_mis (ncols jds)) jds -> PisOk jds pis -> BuildClosed build ->
  gen_network build sizes (map (hd 0) names) jds pis = Ok (cs, g) ->
  exists ce cn ci results,
    gen_fast build sizes (map (hd 0) names) jds pis = Ok (cs, (ce, cn, ci)) /\
    g = to_network (mk_elist jds ce cn ci) /\
    (* C01 on the calls: motif counts, group sizes, stub slots, vertex range *)
    Spec_C01 sizes (singleton_mis (ncols jds)) jds (map flat_call cs) jds (Gen.endpoints ce) /\
    (* C02 on the columns the conversion consumes *)
    Results build cs results /\
    ce = concat (map (fun r => edges_of (snd r)) results) /\
    Spec_C02 false names results ce cn ci /\
    (* the network *)
    Spec_network names jds results ce cn ci g.
Proof.
  intros build sizes names jds pis cs g V HP BC H.
  destruct (gen_network_inv _ _ _ _ _ _ _ H) as [ce [cn [ci [Hf ->]]]].
  exists ce, cn, ci.
  pose proof (gen_fast_C01 _ _ _ _ _ _ _ _ _ V HP BC Hf) as S1.
  destruct (gen_fast_inv _ _ _ _ _ _ _ Hf) as [_ [_ E]].
  destruct (emit_fast_blocks _ _ _ _ _ _ _ E) as [L1 [L2 [results [blks [R [Ece [Z [F D]]]]]]]].
  exists results. split; [exact Hf|]. split; [reflexivity|]. split; [exact S1|].
  split; [exact R|]. split; [exact Ece|].
  split; [eapply blocks_spec; eauto|].
  destruct S1 as [_ [Hverts _]].
  set (el := mk_elist jds ce cn ci).
  destruct (to_network_spec el) as [N1 [N2 [N3 [N4 [N5 N6]]]]].
  assert (EJ : el_jds el = jds) by reflexivity. assert (EE : el_edges el = ce) by reflexivity.
  assert (Hwf : wf_el el = true) by (apply generated_wf; assumption).
  unfold Spec_network. fold el.
  split; [exact N1|].
  split.
  { intros v. rewrite N2, EJ, EE. split; [|intros Hv; left; exact Hv].
    intros [Hv|Hv]; [exact Hv|]. rewrite Forall_forall in Hverts. apply Hverts. exact Hv. }
  split.
  { intros v a Hin. pose proof (N3 v a Hin) as Ha.
    assert (Hv : v < length jds).
    { assert (Hin' : In v (map fst (n_nodes (to_network el)))).
      { apply in_map_iff. exists (v, a). split; [reflexivity|exact Hin]. }
      apply N2 in Hin'. rewrite EJ, EE in Hin'. destruct Hin' as [Hv|Hv]; [exact Hv|].
      rewrite Forall_forall in Hverts. apply Hverts. exact Hv. }
    assert (Hlt : Nat.ltb v (length (el_jds el)) = true) by (apply Nat.ltb_lt; exact Hv).
    rewrite Hlt in Ha. exact Ha. }
  split; [exact N4|].
  split.
  { intros e. rewrite N5, EE. split.
    - intros [Hn [e0 [Hin He]]]. split; [exact Hn|]. rewrite Ece in Hin.
      apply in_concat_map_results in Hin. destruct Hin as [d [r [Hd Hin]]]. exists d, r, e0. auto.
    - intros [Hn [d [r [e0 [Hd [Hin He]]]]]]. split; [exact Hn|]. exists e0. split; [|exact He].
      rewrite Ece. apply in_concat_map_results. exists d, r. auto. }
  split; [exact N6|].
  intros Hnd.
  assert (Hs : simple_el el = true) by (apply generated_simple; assumption).
  pose proof (simple_edges_rows el Hs) as Hrows.
  assert (Hrow : forall x, In x (zip3 ce cn ci) -> In (norm (r_edge x), Some (r_name x, r_id x)) (n_edges (to_network el))).
  { intros [[e n] i] Hx. unfold r_edge, r_name, r_id. cbn [fst snd]. rewrite Hrows.
    apply in_map_iff. exists (e, (n, i)). split; [reflexivity|]. unfold rows, el. cbn [el_edges el_names el_ids].
    apply zip3_rows. exact Hx. }
  split; [exact Hrows|].
  split.
  { rewrite Hrows, map_length. unfold rows, el. cbn [el_edges el_names el_ids]. rewrite !combine_length. unfold edge in *. lia. }
  split; [exact Hrow|].
  intros d j sh e Hd He.
  destruct (Forall2_nth_error _ _ _ _ _ F Hd) as [blk [Hblk [B1 [B2 _]]]]. cbn [fst snd] in B1, B2.
  rewrite <- B1 in He. apply in_map_iff in He. destruct He as [x [Hxe Hx]].
  assert (Hnth : nth d blks [] = blk) by (apply nth_error_nth; exact Hblk).
  assert (Hxz : In x (zip3 ce cn ci)).
  { rewrite Z. apply in_concat_nth. exists d. rewrite Hnth. exact Hx. }
  assert (Hid : r_id x = d). { rewrite <- Hnth in Hx. apply (D d x Hx). }
  assert (Hnm : r_name x = hd 0 (nth j names [])).
  { assert (Hin : In (r_name x) (map r_name blk)) by (apply in_map; exact Hx).
    rewrite B2 in Hin. unfold expected_names in Hin. apply in_repeat_eq in Hin. exact Hin. }
  specialize (Hrow x Hxz). rewrite Hxe, Hnm, Hid in Hrow. exact Hrow.
Qed.

(* and back: NetworkToEdgeList on the generated network always succeeds, returns jds and one row per
   generated unordered pair (C04's general round trip on the generated list) *)
Theorem gen_network_back : forall build sizes names jds pis cs g,
  Valid sizes (singleton_mis (ncols jds)) jds -> PisOk jds pis -> BuildClosed build ->
  gen_network build sizes (map (hd 0) names) jds pis = Ok (cs, g) ->
  exists ce cn ci el',
    gen_fast build sizes (map (hd 0) names) jds pis = Ok (cs, (ce, cn, ci)) /\
    to_edgelist g = Some el' /\ Spec_back (mk_elist jds ce cn ci) el' /\
    (NoDup (map norm ce) -> el' = mk_elist jds (map norm ce) cn ci).
Proof.
  intros build sizes names jds pis cs g V HP BC H.
  destruct (gen_network_inv _ _ _ _ _ _ _ H) as [ce [cn [ci [Hf ->]]]].
  pose proof (gen_fast_C01 _ _ _ _ _ _ _ _ _ V HP BC Hf) as [_ [Hverts _]].
  destruct (gen_fast_C02 _ _ _ _ _ _ _ _ _ Hf) as [results [_ [_ [L1 [L2 _]]]]].
  assert (Hwf : wf_el (mk_elist jds ce cn ci) = true) by (apply generated_wf; assumption).
  destruct (roundtrip_general_spec _ Hwf) as [el' [Hb Hs]].
  exists ce, cn, ci, el'. split; [exact Hf|]. split; [exact Hb|]. split; [exact Hs|].
  intros Hnd. pose proof (roundtrip_el _ (generated_simple _ _ _ _ Hwf Hnd)) as Hr.
  rewrite Hb in Hr. injection Hr as ->. reflexivity.
Qed.

(* totality: under the hypotheses of C01_fast_total the network variant returns *)
Theorem gen_network_total : forall build sizes nms jds pis,
  Valid sizes (singleton_mis (ncols jds)) jds -> PisOk jds pis ->
  (forall c, In c (fst (plan_fast sizes jds pis)) ->
     (exists es, build (fst c) (concat (snd c)) = Ok (Edges es)) /\ fst c < length nms) ->
  exists out, gen_network build sizes nms jds pis = Ok out.
Proof.
  intros build sizes nms jds pis V HP Hc.
  destruct (gen_fast_total build sizes nms jds pis V HP Hc) as [[cs [[ce cn] ci]] Hf].
  eexists. apply gen_network_of_fast. exact Hf.
Qed.

(* the wire entry point c01_net_run is gen_network on the decoded input *)
Lemma c01_net_run_unfold t :
  c01_net_run t =
  match gen_network (build_of_codes (t_nats (t_nth 3 t))) (t_nats (t_nth 2 t))
                    (map (hd 0) (t_natss (t_nth 4 t))) (t_natss (t_nth 1 t)) (t_natss (t_nth 6 t)) with
  | Err e => t_err e
  | Ok (cs, g) => L [L (map (fun c => enc_call (flat_call c)) cs); enc_net g]
  end.
Proof. reflexivity. Qed.
