(* C19 — the power-law statements restricted to the support k >= 1, and the model theorem with content.

   Why the restriction: Coq's [ln] is totalised ([ln 0 = 0]), so [pl_term s 0 = Rpower 0 (-s) = exp (-s * ln 0) = 1]
   ([pl_term_0]), a junk value - the code evaluates [0 ** -s] there and raises ZeroDivisionError.  Every statement
   about a value [power_law_R .. k] / [cutoff_R .. k] therefore carries [(1 <= k)%nat] (the laws' support starts at
   1); the series statements already range over [S n].

   The model theorem: the truncation loop stops at EXACTLY ONE index ([is_break_unique] + termination), so "the law as
   the code computes it in exact arithmetic" is a function of the parameters; for s >= 2 that function satisfies the
   specification the checker enforces, sums over its support to a number in [1, 1 + 1.002e-3) and is pointwise within
   1.002e-3 (relative) of the named law. *)
From Coq Require Import Reals ZArith List Bool QArith Qreals Lra Lia.
From Coquelicot Require Import Coquelicot.
From Interval Require Import Specific_bigint Specific_ops Float_full Interval Xreal Basic Sig.
From GV Require Import Lib.Tree Model.Dist Proofs.DistP.
Import ListNotations.
Local Open Scope R_scope.

(* ------------------------------------------------------------------ the junk value at k = 0 *)
Lemma pl_term_0 : forall s, pl_term s 0 = 1.
Proof.
  intros s. unfold pl_term, Rpower. change (INR 0%nat) with 0. unfold ln.
  destruct (Rlt_dec 0 0) as [H | H]; [exfalso; exact (Rlt_irrefl 0 H) |]. rewrite Rmult_0_r. apply exp_0.
Qed.

Lemma co_term_0 : forall s z, co_term s z 0 = 1.
Proof. intros s z. unfold co_term. fold (pl_term s 0). rewrite pl_term_0. simpl. lra. Qed.

(* so at k = 0 the totalised formulas give 1 / normaliser, which is not a value of the code (it raises) *)
Lemma power_law_R_0 : forall s K, power_law_R s K 0 = 1 / psum (pl_term s) K.
Proof. intros s K. unfold power_law_R. rewrite pl_term_0. reflexivity. Qed.

(* ------------------------------------------------------------------ statements on the support k >= 1 *)
Lemma power_law_pos_supp : forall s K k, (1 <= K)%nat -> (1 <= k)%nat -> 0 < power_law_R s K k.
Proof. intros s K k HK _. apply power_law_pos. exact HK. Qed.

Lemma cutoff_pos_supp : forall s kappa K k, (1 <= K)%nat -> (1 <= k)%nat -> 0 < cutoff_R s kappa K k.
Proof. intros s kappa K k HK _. apply cutoff_pos. exact HK. Qed.

Lemma power_law_pointwise_supp : forall s K k, 2 <= s -> (1 <= K)%nat -> (1 <= k)%nat ->
  0 <= power_law_R s K k - power_law_exact s k <= Rpower (INR K) (1 - s) * power_law_exact s k.
Proof. intros s K k Hs HK _. apply power_law_pointwise; assumption. Qed.

Lemma cutoff_pointwise_supp : forall s kappa K k, 2 <= s -> 0 < kappa -> (1 <= K)%nat -> (1 <= k)%nat ->
  0 <= cutoff_R s kappa K k - cutoff_exact s kappa k <= Rpower (INR K) (1 - s) * cutoff_exact s kappa k.
Proof. intros s kappa K k Hs Hk HK _. apply cutoff_pointwise; assumption. Qed.

Lemma cutoff_pointwise_sharp_supp : forall s kappa K k, 2 <= s -> 0 < kappa -> (1 <= K)%nat -> (1 <= k)%nat ->
  0 <= cutoff_R s kappa K k - cutoff_exact s kappa k
    <= cutoff_z kappa ^ K * Rpower (INR K) (1 - s) * cutoff_exact s kappa k.
Proof. intros s kappa K k Hs Hk HK _. apply cutoff_pointwise_sharp; assumption. Qed.

Lemma encl_power_law_supp : forall S N s K k, (1 <= k)%nat ->
  cR S s -> cR N (psum (pl_term s) K) -> cR (i_power_law S N k) (power_law_R s K k).
Proof. intros S N s K k _. apply encl_power_law. Qed.

Lemma encl_cutoff_supp : forall S Ka N s kappa K k, (1 <= k)%nat ->
  cR S s -> cR Ka kappa -> cR N (psum (co_term s (cutoff_z kappa)) K) ->
  cR (i_cutoff S Ka N k) (cutoff_R s kappa K k).
Proof. intros S Ka N s kappa K k _. apply encl_cutoff. Qed.

Lemma spec_power_law_exact_supp : forall s k x, 2 <= s -> (1 <= k)%nat -> Spec_power_law s k x ->
  0 <= x /\ exists K, near_break (pl_term s) K /\
    Rabs (x - power_law_exact s k)
      <= (Rpower (INR K) (1 - s) + relR * (1 + Rpower (INR K) (1 - s))) * power_law_exact s k + absR.
Proof. intros s k x Hs _. apply spec_power_law_exact. exact Hs. Qed.

Lemma spec_cutoff_exact_supp : forall s kappa k x, 2 <= s -> 0 < kappa -> (1 <= k)%nat -> Spec_cutoff s kappa k x ->
  0 <= x /\ exists K, near_break (co_term s (cutoff_z kappa)) K /\
    Rabs (x - cutoff_exact s kappa k)
      <= (Rpower (INR K) (1 - s) + relR * (1 + Rpower (INR K) (1 - s))) * cutoff_exact s kappa k + absR.
Proof. intros s kappa k x Hs Hk _. apply spec_cutoff_exact; assumption. Qed.

Lemma spec_power_law_exact_closed_supp : forall s k x, 2 <= s -> (1 <= k)%nat -> Spec_power_law s k x ->
  0 <= x /\ Rabs (x - power_law_exact s k) <= (TRUNC_TOL + relR * (1 + TRUNC_TOL)) * power_law_exact s k + absR.
Proof. intros s k x Hs _. apply spec_power_law_exact_closed. exact Hs. Qed.

Lemma spec_cutoff_exact_closed_supp : forall s kappa k x, 2 <= s -> 0 < kappa -> (1 <= k)%nat -> Spec_cutoff s kappa k x ->
  0 <= x /\ Rabs (x - cutoff_exact s kappa k) <= (TRUNC_TOL + relR * (1 + TRUNC_TOL)) * cutoff_exact s kappa k + absR.
Proof. intros s kappa k x Hs Hk _. apply spec_cutoff_exact_closed; assumption. Qed.

(* the former model theorem, on the support: a sanity statement (the specification is satisfiable by the law itself:
   0 <= law is C19_values_nonneg, near law law is reflexivity, the index is C19_truncation_loops_terminate) *)
Lemma model_power_law_total_supp : forall s k, 0 < s -> (1 <= k)%nat ->
  exists K, is_break (pl_term s) K /\ Spec_power_law s k (power_law_R s K k).
Proof. intros s k Hs _. apply model_power_law_total. exact Hs. Qed.

Lemma model_cutoff_total_supp : forall s kappa k, 0 < s -> 0 < kappa -> (1 <= k)%nat ->
  exists K, is_break (co_term s (cutoff_z kappa)) K /\ Spec_cutoff s kappa k (cutoff_R s kappa K k).
Proof. intros s kappa k Hs Hk _. apply model_cutoff_total; assumption. Qed.

(* ------------------------------------------------------------------ the loop stops at exactly one index *)
Lemma is_break_unique : forall t K K', is_break t K -> is_break t K' -> K' = K.
Proof.
  intros t K K' [H1 [H2 H3]] [H1' [H2' H3']]. destruct (lt_eq_lt_dec K K') as [[L | E] | L].
  - specialize (H3' K ltac:(lia)). lra.
  - symmetry. exact E.
  - specialize (H3 K' ltac:(lia)). lra.
Qed.

Theorem power_law_break_unique : forall s, 0 < s ->
  exists K, is_break (pl_term s) K /\ forall K', is_break (pl_term s) K' -> K' = K.
Proof.
  intros s Hs. destruct (power_law_loop_terminates s Hs) as [K HK]. exists K. split; [exact HK |].
  intros K' HK'. exact (is_break_unique _ K K' HK HK').
Qed.

Theorem cutoff_break_unique : forall s z, 0 < s -> 0 < z <= 1 ->
  exists K, is_break (co_term s z) K /\ forall K', is_break (co_term s z) K' -> K' = K.
Proof.
  intros s z Hs Hz. destruct (cutoff_loop_terminates s z Hs Hz) as [K HK]. exists K. split; [exact HK |].
  intros K' HK'. exact (is_break_unique _ K K' HK HK').
Qed.

(* ------------------------------------------------------------------ the law truncated where the loop stops *)
(* end to end, for the index K at which the exact-arithmetic loop stops: every value on the support satisfies the
   specification enforced on the implementation; the values sum over k = 1, 2, .. to a number in [1, 1 + TRUNC_TOL);
   each value lies within TRUNC_TOL (relative, from above) of the named law *)
Theorem model_power_law_property : forall s K, 2 <= s -> is_break (pl_term s) K ->
  (forall k, (1 <= k)%nat -> Spec_power_law s k (power_law_R s K k)) /\
  is_series (fun n => power_law_R s K (S n)) (zeta s / psum (pl_term s) K) /\
  0 <= zeta s / psum (pl_term s) K - 1 < TRUNC_TOL /\
  (forall k, (1 <= k)%nat ->
     0 <= power_law_R s K k - power_law_exact s k <= TRUNC_TOL * power_law_exact s k).
Proof.
  intros s K Hs Hb. pose proof (is_break_near_break _ _ Hb) as Hnb.
  assert (HK : (1 <= K)%nat) by (destruct Hb as [H _]; exact H).
  pose proof (trunc_tolerance_power_law s K Hs Hnb) as Ht. pose proof trunc_tolerance_numeric as Hnum.
  destruct (power_law_sum s K Hs HK) as [Hser [Hs0 Hs1]].
  split; [intros k _; apply model_power_law_spec; exact Hb |].
  split; [exact Hser |]. split; [unfold TRUNC_TOL; lra |].
  intros k _. destruct (power_law_pointwise s K k Hs HK) as [Hp0 Hp1]. split; [exact Hp0 |].
  destruct (zeta_tail s K Hs HK) as [_ [Hz0 _]]. pose proof (psum_pl_ge_1 s K HK).
  assert (He : 0 < power_law_exact s k).
  { unfold power_law_exact. apply Rdiv_lt_0_compat; [apply pl_term_pos | lra]. }
  eapply Rle_trans; [exact Hp1 |]. apply Rmult_le_compat_r; [lra | unfold TRUNC_TOL; lra].
Qed.

Theorem model_cutoff_property : forall s kappa K, 2 <= s -> 0 < kappa ->
  is_break (co_term s (cutoff_z kappa)) K ->
  (forall k, (1 <= k)%nat -> Spec_cutoff s kappa k (cutoff_R s kappa K k)) /\
  is_series (fun n => cutoff_R s kappa K (S n))
            (polylog s (cutoff_z kappa) / psum (co_term s (cutoff_z kappa)) K) /\
  0 <= polylog s (cutoff_z kappa) / psum (co_term s (cutoff_z kappa)) K - 1 < TRUNC_TOL /\
  (forall k, (1 <= k)%nat ->
     0 <= cutoff_R s kappa K k - cutoff_exact s kappa k <= TRUNC_TOL * cutoff_exact s kappa k).
Proof.
  intros s kappa K Hs Hk Hb. pose proof (is_break_near_break _ _ Hb) as Hnb.
  assert (HK : (1 <= K)%nat) by (destruct Hb as [H _]; exact H).
  pose proof (cutoff_z_range kappa Hk) as Hz.
  pose proof (trunc_tolerance_cutoff s (cutoff_z kappa) K Hs ltac:(lra) Hnb) as Ht.
  pose proof trunc_tolerance_numeric as Hnum.
  pose proof (cutoff_sum s kappa K Hs Hk HK) as Hsum. cbv zeta in Hsum. destruct Hsum as [Hser _].
  pose proof (cutoff_sum_sharp s kappa K Hs Hk HK) as Hsh. cbv zeta in Hsh. destruct Hsh as [Hs0 Hs1].
  split; [intros k _; apply model_cutoff_spec; exact Hb |].
  split; [exact Hser |]. split; [unfold TRUNC_TOL; lra |].
  intros k _. destruct (cutoff_pointwise_sharp s kappa K k Hs Hk HK) as [Hp0 Hp1]. split; [exact Hp0 |].
  destruct (polylog_tail s (cutoff_z kappa) K Hs ltac:(lra) HK) as [_ [Hz0 _]].
  pose proof (psum_co_ge_z s (cutoff_z kappa) K ltac:(lra) HK).
  assert (He : 0 < cutoff_exact s kappa k).
  { rewrite cutoff_exact_co_term. apply Rdiv_lt_0_compat; [apply co_term_pos; lra | lra]. }
  eapply Rle_trans; [exact Hp1 |]. apply Rmult_le_compat_r; [lra | unfold TRUNC_TOL; lra].
Qed.
