(* Proofs about the DrawSet model: invariant, refinement to a plain set. *)
From Coq Require Import List ZArith Bool Arith Lia Permutation.
From GV Require Import Lib.Tree Model.DrawSet.
Import ListNotations.

(* ---------- association list facts ---------- *)
Lemma lookup_mremove_eq m k : lookup (mremove m k) k = None.
Proof.
  induction m as [|[k' v] m IH]; cbn; [reflexivity|].
  destruct (Z.eqb k k') eqn:E; [exact IH|]. cbn. rewrite E. exact IH.
Qed.

Lemma lookup_mremove_neq m k k' : k' <> k -> lookup (mremove m k) k' = lookup m k'.
Proof.
  intros Hne. induction m as [|[k2 v] m IH]; cbn; [reflexivity|].
  destruct (Z.eqb k k2) eqn:E.
  - apply Z.eqb_eq in E. subst k2.
    destruct (Z.eqb k' k) eqn:E2; [apply Z.eqb_eq in E2; contradiction|exact IH].
  - cbn. destruct (Z.eqb k' k2); [reflexivity|exact IH].
Qed.

Lemma lookup_mset m k v k' :
  lookup (mset m k v) k' = if Z.eqb k' k then Some v else lookup m k'.
Proof.
  unfold mset. cbn. destruct (Z.eqb k' k) eqn:E; [reflexivity|].
  apply lookup_mremove_neq. intros ->. rewrite Z.eqb_refl in E. discriminate.
Qed.

(* ---------- list facts ---------- *)
Lemma nth_error_set_nth {A} (l : list A) p x i :
  p < length l ->
  nth_error (set_nth p x l) i = if Nat.eqb i p then Some x else nth_error l i.
Proof.
  revert p i. induction l as [|h t IH]; intros p i Hp; cbn in Hp; [lia|].
  destruct p as [|p]; destruct i as [|i]; cbn; try reflexivity.
  apply IH. lia.
Qed.

Lemma length_set_nth {A} (l : list A) p x : length (set_nth p x l) = length l.
Proof. revert p. induction l as [|h t IH]; intros [|p]; cbn; auto. Qed.

Lemma nth_error_In_iff {A} (l : list A) x : In x l <-> exists i, nth_error l i = Some x.
Proof.
  split; [apply In_nth_error|]. intros [i Hi]. eapply nth_error_In; eauto.
Qed.

Lemma NoDup_nth_error_inj {A} (l : list A) i j x :
  NoDup l -> nth_error l i = Some x -> nth_error l j = Some x -> i = j.
Proof.
  intros Hnd Hi Hj. rewrite NoDup_nth_error in Hnd. apply Hnd.
  - apply nth_error_Some. congruence.
  - congruence.
Qed.

Lemma nth_error_snoc {A} (l : list A) x i :
  nth_error (l ++ [x]) i =
  if Nat.ltb i (length l) then nth_error l i
  else if Nat.eqb i (length l) then Some x else None.
Proof.
  destruct (Nat.ltb_spec i (length l)) as [H|H].
  - apply nth_error_app1; exact H.
  - rewrite nth_error_app2 by exact H.
    destruct (Nat.eqb_spec i (length l)) as [->|Hne].
    + rewrite Nat.sub_diag. reflexivity.
    + destruct (i - length l) as [|[|k]] eqn:E; cbn; try reflexivity. lia.
Qed.

Lemma NoDup_app_snoc_aux {A} (l : list A) x : NoDup l -> ~ In x l -> NoDup (l ++ [x]).
Proof.
  intros Hnd Hnin. apply NoDup_rev in Hnd. rewrite <- (rev_involutive (l ++ [x])).
  apply NoDup_rev. rewrite rev_app_distr. cbn. constructor; [|exact Hnd].
  rewrite <- in_rev. exact Hnin.
Qed.

(* ---------- the invariant ---------- *)
Definition Inv (s : ds) : Prop :=
  NoDup (edges s) /\
  forall e i, lookup (hm s) e = Some i <-> nth_error (edges s) i = Some e.

Lemma Inv_empty : Inv ds_empty.
Proof.
  split; [constructor|]. intros e i. cbn. split; [discriminate|].
  destruct i; discriminate.
Qed.

Lemma contains_In s e : Inv s -> (ds_contains s e = true <-> In e (edges s)).
Proof.
  intros [_ H]. unfold ds_contains. rewrite nth_error_In_iff.
  destruct (lookup (hm s) e) as [p|] eqn:E.
  - split; [intros _|reflexivity]. exists p. apply H. exact E.
  - split; [discriminate|]. intros [i Hi]. apply H in Hi. congruence.
Qed.

Lemma add_Inv s e : Inv s -> Inv (ds_add s e).
Proof.
  intros HI. unfold ds_add. destruct (ds_contains s e) eqn:C; [exact HI|].
  assert (Hnin : ~ In e (edges s)).
  { intros Hin. apply (contains_In s e HI) in Hin. congruence. }
  destruct HI as [Hnd H]. split; cbn [edges hm].
  - apply NoDup_app_snoc_aux; assumption.
  - intros e' i. rewrite lookup_mset, nth_error_snoc.
    destruct (Z.eqb_spec e' e) as [->|Hne].
    + split.
      * intros [= <-]. rewrite Nat.ltb_irrefl, Nat.eqb_refl. reflexivity.
      * destruct (Nat.ltb_spec i (length (edges s))) as [Hlt|Hge].
        -- intros Hi. exfalso. apply Hnin. eapply nth_error_In; eauto.
        -- destruct (Nat.eqb_spec i (length (edges s))); [congruence|discriminate].
    + rewrite H. destruct (Nat.ltb_spec i (length (edges s))) as [Hlt|Hge]; [tauto|].
      split.
      * intros Hi. assert (i < length (edges s)) by (apply nth_error_Some; congruence). lia.
      * destruct (Nat.eqb_spec i (length (edges s))); [congruence|discriminate].
Qed.

Lemma NoDup_snoc_inv {A} (l : list A) x : NoDup (l ++ [x]) -> NoDup l /\ ~ In x l.
Proof.
  intros H. split.
  - apply NoDup_remove_1 in H. rewrite app_nil_r in H. exact H.
  - apply NoDup_remove_2 in H. rewrite app_nil_r in H. exact H.
Qed.

Lemma NoDup_set_nth {A} (l : list A) p x :
  NoDup l -> ~ In x l -> p < length l -> NoDup (set_nth p x l).
Proof.
  intros Hnd Hnin Hp. apply NoDup_nth_error. intros i j Hi Hij.
  rewrite length_set_nth in Hi.
  rewrite !nth_error_set_nth in Hij by exact Hp.
  destruct (Nat.eqb_spec i p) as [->|Hip]; destruct (Nat.eqb_spec j p) as [->|Hjp]; try reflexivity.
  - exfalso. apply Hnin. eapply nth_error_In. symmetry. exact Hij.
  - exfalso. apply Hnin. eapply nth_error_In. exact Hij.
  - rewrite NoDup_nth_error in Hnd. apply Hnd; assumption.
Qed.

Lemma remove_core es1 lst m e p :
  NoDup (es1 ++ [lst]) ->
  (forall e i, lookup m e = Some i <-> nth_error (es1 ++ [lst]) i = Some e) ->
  lookup m e = Some p ->
  Inv (if Nat.eqb p (length es1) then mk_ds es1 (mremove m e)
       else mk_ds (set_nth p lst es1) (mset (mremove m e) lst p)).
Proof.
  intros Hnd H Hl.
  destruct (NoDup_snoc_inv _ _ Hnd) as [Hnd1 Hnin].
  pose proof (proj1 (H e p) Hl) as Hp. rewrite nth_error_snoc in Hp.
  assert (Hnone : forall i x, nth_error es1 i = Some x -> i < length es1).
  { intros i x Hi. apply nth_error_Some. congruence. }
  destruct (Nat.eqb_spec p (length es1)) as [->|Hpn].
  - (* removing the last element *)
    rewrite Nat.ltb_irrefl in Hp. injection Hp as <-.
    split; cbn [edges hm]; [exact Hnd1|]. intros e' i.
    destruct (Z.eq_dec e' lst) as [->|Hne].
    + rewrite lookup_mremove_eq. split; [discriminate|].
      intros Hi. exfalso. apply Hnin. eapply nth_error_In; eauto.
    + rewrite lookup_mremove_neq by exact Hne. rewrite H, nth_error_snoc.
      destruct (Nat.ltb_spec i (length es1)) as [Hlt|Hge]; [tauto|].
      split.
      * destruct (Nat.eqb_spec i (length es1)); [congruence|discriminate].
      * intros Hi. apply Hnone in Hi. lia.
  - (* removing an inner element: the last one takes its place *)
    destruct (Nat.ltb_spec p (length es1)) as [Hlt|Hge].
    2:{ destruct (Nat.eqb_spec p (length es1)); [contradiction|discriminate]. }
    assert (Hne_lst : e <> lst).
    { intros ->. apply Hnin. eapply nth_error_In; eauto. }
    split; cbn [edges hm]; [apply NoDup_set_nth; assumption|].
    intros e' i. rewrite lookup_mset, nth_error_set_nth by exact Hlt.
    destruct (Z.eqb_spec e' lst) as [->|Hne1].
    + destruct (Nat.eqb_spec i p) as [->|Hip].
      * tauto.
      * split; [congruence|]. intros Hi. exfalso. apply Hnin. eapply nth_error_In; eauto.
    + destruct (Z.eq_dec e' e) as [->|Hne2].
      * rewrite lookup_mremove_eq. split; [discriminate|].
        destruct (Nat.eqb_spec i p) as [->|Hip]; [congruence|].
        intros Hi. exfalso. apply Hip. eapply NoDup_nth_error_inj; eauto.
      * rewrite lookup_mremove_neq by exact Hne2. rewrite H, nth_error_snoc.
        destruct (Nat.eqb_spec i p) as [->|Hip].
        -- rewrite (proj2 (Nat.ltb_lt _ _) Hlt). split; congruence.
        -- destruct (Nat.ltb_spec i (length es1)) as [Hlt'|Hge']; [tauto|].
           split.
           ++ destruct (Nat.eqb_spec i (length es1)); [congruence|discriminate].
           ++ intros Hi. apply Hnone in Hi. lia.
Qed.

Lemma rev_cons_split {A} (l : list A) x r : rev l = x :: r -> l = rev r ++ [x].
Proof. intros H. rewrite <- (rev_involutive l), H. reflexivity. Qed.

Lemma remove_Inv s e s' : Inv s -> ds_remove s e = Some s' -> Inv s'.
Proof.
  intros [Hnd H]. unfold ds_remove.
  destruct (lookup (hm s) e) as [p|] eqn:El; [|discriminate].
  destruct (rev (edges s)) as [|lst r] eqn:Er; [discriminate|].
  apply rev_cons_split in Er. rewrite Er in Hnd, H.
  pose proof (remove_core (rev r) lst (hm s) e p Hnd H El) as HI.
  destruct (Nat.eqb p (length (rev r))); intros [= <-]; exact HI.
Qed.

(* removing a present element never raises; an absent one raises and leaves the state *)
Lemma remove_present s e : Inv s -> In e (edges s) -> exists s', ds_remove s e = Some s'.
Proof.
  intros HI Hin. pose proof (proj2 (contains_In s e HI) Hin) as C.
  unfold ds_contains in C. unfold ds_remove.
  destruct (lookup (hm s) e) as [p|]; [|discriminate].
  destruct (rev (edges s)) as [|lst r] eqn:Er.
  - exfalso. rewrite <- (rev_involutive (edges s)), Er in Hin. exact Hin.
  - destruct (Nat.eqb p (length (rev r))); eauto.
Qed.

Lemma remove_absent s e : Inv s -> ~ In e (edges s) -> ds_remove s e = None.
Proof.
  intros HI Hnin. unfold ds_remove.
  destruct (lookup (hm s) e) as [p|] eqn:El; [|reflexivity].
  exfalso. apply Hnin. apply (contains_In s e HI). unfold ds_contains. rewrite El. reflexivity.
Qed.

(* what remove does to the member list *)
Lemma remove_members s e s' :
  Inv s -> ds_remove s e = Some s' ->
  forall x, In x (edges s') <-> (In x (edges s) /\ x <> e).
Proof.
  intros HI Hr. pose proof (remove_Inv _ _ _ HI Hr) as HI'.
  destruct HI as [Hnd H]. revert Hr HI'. unfold ds_remove.
  destruct (lookup (hm s) e) as [p|] eqn:El; [|discriminate].
  destruct (rev (edges s)) as [|lst r] eqn:Er; [discriminate|].
  apply rev_cons_split in Er. rewrite Er in *.
  destruct (NoDup_snoc_inv _ _ Hnd) as [Hnd1 Hnin].
  pose proof (proj1 (H e p) El) as Hp. rewrite nth_error_snoc in Hp.
  destruct (Nat.eqb_spec p (length (rev r))) as [->|Hpn]; intros [= <-] HI' x; cbn [edges].
  - rewrite Nat.ltb_irrefl in Hp. injection Hp as <-.
    rewrite in_app_iff. cbn. split.
    + intros Hx. split; [tauto|]. intros ->. contradiction.
    + intros [[Hx|[Hx|[]]] Hne]; [exact Hx|congruence].
  - destruct (Nat.ltb_spec p (length (rev r))) as [Hlt|Hge].
    2:{ destruct (Nat.eqb_spec p (length (rev r))); [contradiction|discriminate]. }
    rewrite !nth_error_In_iff. split.
    + intros [i Hi]. rewrite nth_error_set_nth in Hi by exact Hlt.
      destruct (Nat.eqb_spec i p) as [Heq|Hip].
      * subst i. injection Hi as <-. split.
        -- exists (length (rev r)). rewrite nth_error_snoc, Nat.ltb_irrefl, Nat.eqb_refl. reflexivity.
        -- intros ->. apply Hnin. eapply nth_error_In; eauto.
      * split.
        -- exists i. rewrite nth_error_snoc.
           assert (i < length (rev r)) by (apply nth_error_Some; congruence).
           rewrite (proj2 (Nat.ltb_lt _ _) H0). exact Hi.
        -- intros ->. apply Hip. eapply NoDup_nth_error_inj; eauto.
    + intros [[i Hi] Hne]. rewrite nth_error_snoc in Hi.
      destruct (Nat.ltb_spec i (length (rev r))) as [Hlt'|Hge'].
      * exists i. rewrite nth_error_set_nth by exact Hlt.
        destruct (Nat.eqb_spec i p) as [->|Hip]; [congruence|exact Hi].
      * destruct (Nat.eqb_spec i (length (rev r))); [|discriminate].
        injection Hi as <-. exists p. rewrite nth_error_set_nth by exact Hlt.
        rewrite Nat.eqb_refl. reflexivity.
Qed.

Lemma add_members s e x : In x (edges (ds_add s e)) <-> (In x (edges s) \/ (x = e /\ ds_contains s e = false)).
Proof.
  unfold ds_add. destruct (ds_contains s e) eqn:C.
  - split; [tauto|]. intros [H|[_ H]]; [exact H|discriminate].
  - cbn [edges]. rewrite in_app_iff. cbn. split.
    + intros [H|[H|[]]]; [tauto|right; split; [symmetry; exact H|reflexivity]].
    + intros [H|[H _]]; [tauto|right; left; symmetry; exact H].
Qed.

(* ---------- refinement to the plain set ---------- *)
Lemma a_mem_In l e : a_mem l e = true <-> In e l.
Proof.
  unfold a_mem. rewrite existsb_exists. split.
  - intros [x [Hx E]]. apply Z.eqb_eq in E. subst. exact Hx.
  - intros H. exists e. split; [exact H|apply Z.eqb_refl].
Qed.

Lemma a_mem_false l e : a_mem l e = false <-> ~ In e l.
Proof. rewrite <- a_mem_In. destruct (a_mem l e); split; congruence. Qed.

Lemma nodupb_NoDup l : nodupb l = true <-> NoDup l.
Proof.
  induction l as [|x t IH]; cbn.
  - split; [constructor|reflexivity].
  - rewrite andb_true_iff, negb_true_iff, IH. fold (a_mem t x). rewrite a_mem_false.
    split; [intros [H1 H2]; constructor; assumption|intros H; inversion H; tauto].
Qed.

Lemma same_set_iff l1 l2 : same_set l1 l2 = true <-> (forall x, In x l1 <-> In x l2).
Proof.
  unfold same_set. rewrite andb_true_iff, !forallb_forall. split.
  - intros [H1 H2] x. split; intros Hx; apply a_mem_In; auto.
  - intros H. split; intros x Hx; apply a_mem_In; apply H; exact Hx.
Qed.

Lemma a_add_In l e x : In x (a_add l e) <-> In x l \/ x = e.
Proof.
  unfold a_add. destruct (a_mem l e) eqn:M.
  - apply a_mem_In in M. split; [tauto|]. intros [H| ->]; assumption.
  - cbn. split; [intros [H|H]; [right; symmetry; exact H|left; exact H]|intros [H|H]; [right; exact H|left; symmetry; exact H]].
Qed.

Lemma a_remove_In l e x : In x (a_remove l e) <-> In x l /\ x <> e.
Proof.
  unfold a_remove. rewrite filter_In, negb_true_iff. 
  destruct (Z.eqb_spec e x) as [->|Hne]; split; intros [H1 H2]; split; auto; try congruence.
Qed.

Lemma a_add_NoDup l e : NoDup l -> NoDup (a_add l e).
Proof.
  intros H. unfold a_add. destruct (a_mem l e) eqn:M; [exact H|].
  constructor; [apply a_mem_false; exact M|exact H].
Qed.

Lemma a_remove_NoDup l e : NoDup l -> NoDup (a_remove l e).
Proof. intros H. apply NoDup_filter. exact H. Qed.

(* R: the concrete state represents the plain set l *)
Definition R (s : ds) (l : aset) : Prop :=
  Inv s /\ NoDup l /\ forall x, In x (edges s) <-> In x l.

Lemma R_empty : R ds_empty [].
Proof. split; [apply Inv_empty|]. split; [constructor|]. intros x. cbn. tauto. Qed.

Lemma R_length s l : R s l -> length (edges s) = length l.
Proof.
  intros [[Hnd _] [Hndl H]].
  apply Nat.le_antisymm; apply NoDup_incl_length; auto; intros x Hx; apply H; exact Hx.
Qed.

Lemma step_refines s l o :
  R s l -> R (fst (step s o)) (a_step l o) /\ out_ok l o (snd (step s o)) = true.
Proof.
  intros HR. pose proof HR as [HI [Hndl H]].
  destruct o as [e|e|i|e| |]; cbn [step a_step fst snd].
  - (* add *)
    split; [|reflexivity]. split; [apply add_Inv; exact HI|]. split; [apply a_add_NoDup; exact Hndl|].
    intros x. rewrite add_members, a_add_In, H.
    split; [intros [Hx|[Hx _]]; tauto|].
    intros [Hx| ->]; [tauto|].
    destruct (ds_contains s e) eqn:C; [|tauto].
    left. apply H. apply (contains_In s e HI). exact C.
  - (* remove *)
    destruct (ds_remove s e) as [s'|] eqn:Er; cbn [fst snd out_ok].
    + assert (Hin : In e (edges s)).
      { destruct (in_dec Z.eq_dec e (edges s)) as [Hin|Hnin]; [exact Hin|].
        rewrite (remove_absent s e HI Hnin) in Er. discriminate. }
      split; [|apply a_mem_In; apply H; exact Hin].
      split; [eapply remove_Inv; eauto|]. split; [apply a_remove_NoDup; exact Hndl|].
      intros x. rewrite (remove_members s e s' HI Er), a_remove_In, H. tauto.
    + assert (Hnin : ~ In e (edges s)).
      { intros Hin. destruct (remove_present s e HI Hin) as [s' Hs']. congruence. }
      assert (Hnl : ~ In e l) by (rewrite <- H; exact Hnin).
      split; [|rewrite negb_true_iff; apply a_mem_false; exact Hnl].
      split; [exact HI|]. split; [apply a_remove_NoDup; exact Hndl|].
      intros x. rewrite a_remove_In, H. split; [|tauto]. intros Hx. split; [exact Hx|congruence].
  - (* draw *)
    split; [exact HR|]. unfold ds_draw.
    destruct (nth_error (edges s) i) as [e|] eqn:E; cbn [out_ok]; rewrite <- (R_length s l HR).
    + rewrite andb_true_iff. split.
      * apply Nat.ltb_lt. apply nth_error_Some. congruence.
      * apply a_mem_In, H. eapply nth_error_In; eauto.
    + apply Nat.leb_le. apply nth_error_None. exact E.
  - (* contains *)
    split; [exact HR|]. cbn [out_ok]. apply Bool.eqb_true_iff.
    destruct (ds_contains s e) eqn:C.
    + symmetry. apply a_mem_In, H, (contains_In s e HI). exact C.
    + symmetry. apply a_mem_false. rewrite <- H. intros Hin.
      apply (contains_In s e HI) in Hin. congruence.
  - (* len *)
    split; [exact HR|]. cbn [out_ok]. apply Nat.eqb_eq. apply R_length. exact HR.
  - (* iter *)
    split; [exact HR|]. cbn [out_ok]. unfold ds_iter. rewrite andb_true_iff. split.
    + apply nodupb_NoDup. apply HI.
    + apply same_set_iff. exact H.
Qed.

(* every reachable state: induction over the history *)
Fixpoint history (s : ds) (ops : list op) : list (op * out * list Z) :=
  match ops with
  | [] => []
  | o :: ops' => let s1 := fst (step s o) in (o, snd (step s o), edges s1) :: history s1 ops'
  end.

Lemma run_refines ops : forall s l, R s l ->
  check_hist l (history s ops) = true /\
  R (fst (run s ops)) (fold_left a_step ops l).
Proof.
  induction ops as [|o ops IH]; intros s l HR; cbn [history check_hist run fold_left].
  - split; [reflexivity|exact HR].
  - destruct (step_refines s l o HR) as [HR1 Hout].
    destruct (IH _ _ HR1) as [Hc HR2].
    destruct (step s o) as [s1 r] eqn:Es. cbn [fst snd] in *.
    destruct (run s1 ops) as [s2 rs] eqn:Er. cbn [fst] in *.
    split; [|exact HR2].
    rewrite Hout, Hc. destruct HR1 as [[Hnd _] [_ Hm]].
    rewrite (proj2 (nodupb_NoDup _) Hnd), (proj2 (same_set_iff _ _) Hm). reflexivity.
Qed.

Lemma reachable_Inv ops : Inv (fst (run ds_empty ops)).
Proof. destruct (run_refines ops ds_empty [] R_empty) as [_ [H _]]. exact H. Qed.

(* every member can be drawn, every draw below len is a member *)
Lemma draw_complete s l : R s l ->
  (forall e, In e l -> exists i, i < ds_len s /\ ds_draw s i = Some e) /\
  (forall i, i < ds_len s -> exists e, ds_draw s i = Some e /\ In e l).
Proof.
  intros [HI [Hndl H]]. unfold ds_len, ds_draw. split.
  - intros e He. apply H in He. apply In_nth_error in He. destruct He as [i Hi].
    exists i. split; [apply nth_error_Some; congruence|exact Hi].
  - intros i Hi. destruct (nth_error (edges s) i) as [e|] eqn:E.
    + exists e. split; [reflexivity|]. apply H. eapply nth_error_In; eauto.
    + apply nth_error_None in E. lia.
Qed.

Lemma iter_permutation s l : R s l -> Permutation (ds_iter s) l.
Proof.
  intros [[Hnd _] [Hndl H]]. apply NoDup_Permutation; assumption.
Qed.

Lemma add_present_noop s e : ds_contains s e = true -> ds_add s e = s.
Proof. intros C. unfold ds_add. rewrite C. reflexivity. Qed.

Lemma remove_absent_state s e : ds_contains s e = false -> step s (ORemove e) = (s, RErr).
Proof.
  unfold ds_contains, step, ds_remove. destruct (lookup (hm s) e); [discriminate|reflexivity].
Qed.

(* the draw is a BIJECTION between the indices below len and the members: every member is returned
   by exactly one index (so a uniform index, random.choice, is a uniform member), that index is the
   one the hashmap stores, and len is the cardinality of the plain set *)
Lemma draw_bijection s l : R s l ->
  ds_len s = length l /\
  (forall e, In e l -> exists i, i < ds_len s /\ ds_draw s i = Some e /\ lookup (hm s) e = Some i /\
     forall j, ds_draw s j = Some e -> j = i) /\
  (forall i j e, ds_draw s i = Some e -> ds_draw s j = Some e -> i = j).
Proof.
  intros HR. pose proof (R_length s l HR) as Hlen. destruct HR as [[Hnd Hhm] [Hndl H]].
  unfold ds_len, ds_draw. split; [exact Hlen|]. split.
  - intros e He. apply H in He. apply In_nth_error in He. destruct He as [i Hi].
    exists i. split; [apply nth_error_Some; congruence|]. split; [exact Hi|].
    split; [apply Hhm; exact Hi|]. intros j Hj. exact (NoDup_nth_error_inj (edges s) j i e Hnd Hj Hi).
  - intros i j e Hi Hj. exact (NoDup_nth_error_inj (edges s) i j e Hnd Hi Hj).
Qed.
