(* Proofs about the conversion model (C04). *)
From Coq Require Import List ZArith Bool Arith Lia Permutation.
From GV Require Import Lib.Tree Model.Conv.
Import ListNotations.

(* ---------- boolean equalities ---------- *)
Lemma edge_eqb_spec a b : reflect (a = b) (edge_eqb a b).
Proof.
  destruct a as [a1 a2], b as [b1 b2]. unfold edge_eqb. cbn.
  destruct (Nat.eqb_spec a1 b1), (Nat.eqb_spec a2 b2); cbn; constructor; congruence.
Qed.

Lemma edge_eqb_refl a : edge_eqb a a = true.
Proof. destruct (edge_eqb_spec a a); congruence. Qed.

Lemma edge_eqb_sym a b : edge_eqb a b = edge_eqb b a.
Proof. destruct (edge_eqb_spec a b), (edge_eqb_spec b a); congruence. Qed.

Lemma mem_nat_In x l : mem_nat x l = true <-> In x l.
Proof.
  unfold mem_nat. rewrite existsb_exists. split.
  - intros [y [Hy E]]. apply Nat.eqb_eq in E. subst. exact Hy.
  - intros H. exists x. split; [exact H|apply Nat.eqb_refl].
Qed.

Lemma mem_edge_In x l : mem_edge x l = true <-> In x l.
Proof.
  unfold mem_edge. rewrite existsb_exists. split.
  - intros [y [Hy E]]. destruct (edge_eqb_spec x y); [subst; exact Hy|discriminate].
  - intros H. exists x. split; [exact H|apply edge_eqb_refl].
Qed.

Lemma norm_idem e : norm (norm e) = norm e.
Proof.
  destruct e as [a b]. unfold norm. cbn.
  destruct (Nat.leb_spec a b) as [H|H]; cbn.
  - rewrite (proj2 (Nat.leb_le a b) H). reflexivity.
  - assert (Hle : b <= a) by lia. rewrite (proj2 (Nat.leb_le b a) Hle). reflexivity.
Qed.

Lemma list_nat_eqb_refl l : list_nat_eqb l l = true.
Proof. induction l; cbn; [reflexivity|]. rewrite Nat.eqb_refl. exact IHl. Qed.

Lemma list_nat_eqb_eq a b : list_nat_eqb a b = true -> a = b.
Proof.
  revert b. induction a as [|x a IH]; intros [|y b]; cbn; try discriminate; [reflexivity|].
  rewrite andb_true_iff. intros [H1 H2]. apply Nat.eqb_eq in H1. f_equal; auto.
Qed.

Lemma list_jd_eqb_refl l : list_jd_eqb l l = true.
Proof. induction l; cbn; [reflexivity|]. rewrite list_nat_eqb_refl. exact IHl. Qed.

Lemma list_jd_eqb_eq a b : list_jd_eqb a b = true -> a = b.
Proof.
  revert b. induction a as [|x a IH]; intros [|y b]; cbn; try discriminate; [reflexivity|].
  rewrite andb_true_iff. intros [H1 H2]. apply list_nat_eqb_eq in H1. f_equal; auto.
Qed.

(* ---------- nodup ---------- *)
Lemma nodup_nat_In l x : In x (nodup_nat l) <-> In x l.
Proof.
  induction l as [|y t IH]; cbn; [tauto|].
  destruct (existsb (Nat.eqb y) t) eqn:E.
  - rewrite IH. split; [tauto|]. intros [->|H]; [|exact H].
    apply (mem_nat_In x t). exact E.
  - cbn. rewrite IH. tauto.
Qed.

Lemma nodup_nat_NoDup l : NoDup (nodup_nat l).
Proof.
  induction l as [|y t IH]; cbn; [constructor|].
  destruct (existsb (Nat.eqb y) t) eqn:E; [exact IH|].
  constructor; [|exact IH]. rewrite nodup_nat_In. intros H.
  apply (mem_nat_In y t) in H. unfold mem_nat in H. congruence.
Qed.

Lemma nodup_edges_In l x : In x (nodup_edges l) <-> In x l.
Proof.
  induction l as [|y t IH]; cbn; [tauto|].
  destruct (existsb (edge_eqb y) t) eqn:E.
  - rewrite IH. split; [tauto|]. intros [->|H]; [|exact H].
    apply (mem_edge_In x t). exact E.
  - cbn. rewrite IH. tauto.
Qed.

Lemma nodup_edges_NoDup l : NoDup (nodup_edges l).
Proof.
  induction l as [|y t IH]; cbn; [constructor|].
  destruct (existsb (edge_eqb y) t) eqn:E; [exact IH|].
  constructor; [|exact IH]. rewrite nodup_edges_In. intros H.
  apply (mem_edge_In y t) in H. unfold mem_edge in H. congruence.
Qed.

Lemma nodup_edges_id l : NoDup l -> nodup_edges l = l.
Proof.
  induction 1 as [|x t Hx Hnd IH]; cbn; [reflexivity|].
  destruct (existsb (edge_eqb x) t) eqn:E.
  - exfalso. apply Hx. apply (mem_edge_In x t). exact E.
  - rewrite IH. reflexivity.
Qed.

Lemma nodupb_nat_NoDup l : nodupb_nat l = true <-> NoDup l.
Proof.
  induction l as [|x t IH]; cbn.
  - split; [constructor|reflexivity].
  - rewrite andb_true_iff, negb_true_iff, IH. split.
    + intros [H1 H2]. constructor; [|exact H2]. intros Hin. apply mem_nat_In in Hin. congruence.
    + intros H. inversion H as [|? ? Hx Hnd]; subst. split; [|exact Hnd].
      destruct (mem_nat x t) eqn:E; [apply mem_nat_In in E; contradiction|reflexivity].
Qed.

Lemma nodupb_edge_NoDup l : nodupb_edge l = true <-> NoDup l.
Proof.
  induction l as [|x t IH]; cbn.
  - split; [constructor|reflexivity].
  - rewrite andb_true_iff, negb_true_iff, IH. split.
    + intros [H1 H2]. constructor; [|exact H2]. intros Hin. apply mem_edge_In in Hin. congruence.
    + intros H. inversion H as [|? ? Hx Hnd]; subst. split; [|exact Hnd].
      destruct (mem_edge x t) eqn:E; [apply mem_edge_In in E; contradiction|reflexivity].
Qed.

(* ---------- dictionaries ---------- *)
Section Dict.
Context {V : Type}.

(* value of the last pair whose key satisfies p *)
Definition lastmatch (p : edge -> bool) (l : list (edge * V)) (acc : option V) : option V :=
  fold_left (fun a kv => if p (fst kv) then Some (snd kv) else a) l acc.

Lemma dict_get_set (d : list (edge * V)) k v k' :
  dict_get (dict_set d k v) k' = if edge_eqb k' k then Some v else dict_get d k'.
Proof.
  induction d as [|[k2 v2] d IH]; cbn.
  - reflexivity.
  - destruct (edge_eqb_spec k k2) as [->|Hne]; cbn.
    + destruct (edge_eqb k' k2); reflexivity.
    + rewrite IH. destruct (edge_eqb_spec k' k2) as [->|Hne2].
      * destruct (edge_eqb_spec k2 k); [congruence|reflexivity].
      * reflexivity.
Qed.

Lemma dict_get_fold (f : edge -> edge) (rs : list (edge * V)) d k :
  dict_get (fold_left (fun m kv => dict_set m (f (fst kv)) (snd kv)) rs d) k =
  lastmatch (fun x => edge_eqb k (f x)) rs (dict_get d k).
Proof.
  revert d. induction rs as [|[k1 v1] rs IH]; intros d; cbn; [reflexivity|].
  rewrite IH, dict_get_set. reflexivity.
Qed.

Lemma keys_dict_set (d : list (edge * V)) k v x :
  In x (map fst (dict_set d k v)) <-> x = k \/ In x (map fst d).
Proof.
  induction d as [|[k2 v2] d IH]; cbn.
  - split; [intros [H|[]]; left; symmetry; exact H|intros [H|[]]; left; symmetry; exact H].
  - destruct (edge_eqb_spec k k2) as [->|Hne]; cbn.
    + split; [tauto|]. intros [->|H]; tauto.
    + rewrite IH. tauto.
Qed.

Lemma keys_fold (f : edge -> edge) (rs : list (edge * V)) d x :
  In x (map fst (fold_left (fun m kv => dict_set m (f (fst kv)) (snd kv)) rs d)) <->
  In x (map f (map fst rs)) \/ In x (map fst d).
Proof.
  revert d. induction rs as [|[k1 v1] rs IH]; intros d; cbn; [tauto|].
  rewrite IH, keys_dict_set. cbn. intuition.
Qed.

Lemma NoDup_keys_dict_set (d : list (edge * V)) k v :
  NoDup (map fst d) -> NoDup (map fst (dict_set d k v)).
Proof.
  induction d as [|[k2 v2] d IH]; cbn; intros H.
  - constructor; [intros []|constructor].
  - inversion H as [|? ? Hx Hnd]; subst.
    destruct (edge_eqb_spec k k2) as [->|Hne]; cbn.
    + constructor; assumption.
    + constructor; [|apply IH; exact Hnd]. rewrite keys_dict_set. intros [->|Hin]; [congruence|contradiction].
Qed.

Lemma NoDup_keys_fold (f : edge -> edge) (rs : list (edge * V)) d :
  NoDup (map fst d) -> NoDup (map fst (fold_left (fun m kv => dict_set m (f (fst kv)) (snd kv)) rs d)).
Proof.
  revert d. induction rs as [|[k1 v1] rs IH]; intros d H; cbn; [exact H|].
  apply IH. apply NoDup_keys_dict_set. exact H.
Qed.

Lemma In_dict_get (d : list (edge * V)) k v :
  NoDup (map fst d) -> In (k, v) d -> dict_get d k = Some v.
Proof.
  induction d as [|[k2 v2] d IH]; cbn; intros Hnd Hin; [contradiction|].
  inversion Hnd as [|? ? Hx Hnd']; subst.
  destruct Hin as [[= -> ->]|Hin].
  - rewrite edge_eqb_refl. reflexivity.
  - destruct (edge_eqb_spec k k2) as [->|Hne].
    + exfalso. apply Hx. apply in_map_iff. exists (k2, v). split; [reflexivity|exact Hin].
    + apply IH; assumption.
Qed.

(* lastmatch: when every matching pair carries value a and one exists, the result is a *)
Lemma lastmatch_all (p : edge -> bool) (l : list (edge * V)) a acc :
  (forall k v, In (k, v) l -> p k = true -> v = a) ->
  (acc = None \/ acc = Some a) ->
  (acc = Some a \/ exists k v, In (k, v) l /\ p k = true) ->
  lastmatch p l acc = Some a.
Proof.
  revert acc. induction l as [|[k1 v1] l IH]; intros acc Hall Hacc Hex; cbn.
  - destruct Hex as [H|[k [v [[] _]]]]. exact H.
  - apply IH.
    + intros k v Hin. apply Hall. right. exact Hin.
    + cbn. destruct (p k1) eqn:E; [|exact Hacc].
      right. f_equal. apply (Hall k1 v1); [left; reflexivity|exact E].
    + cbn. destruct (p k1) eqn:E.
      * left. f_equal. apply (Hall k1 v1); [left; reflexivity|exact E].
      * destruct Hex as [H|[k [v [[[= -> ->]|Hin] Hp]]]]; [left; exact H|congruence|].
        right. exists k, v. split; assumption.
Qed.

Lemma lastmatch_none (p : edge -> bool) (l : list (edge * V)) :
  (forall k v, In (k, v) l -> p k = false) -> lastmatch p l None = None.
Proof.
  induction l as [|[k1 v1] l IH]; intros H; cbn; [reflexivity|].
  rewrite (H k1 v1) by (left; reflexivity). apply IH. intros k v Hin. apply (H k v). right. exact Hin.
Qed.

End Dict.

(* the attribute finally carried by the undirected edge ne *)
Definition final_attr (el : elist) (ne : edge) : option (nat * nat) :=
  dict_get (apply_dict (build_dict (rows el))) ne.

Lemma in_dict_set {V} (d : list (edge * V)) k v k' v' :
  In (k', v') (dict_set d k v) -> (k', v') = (k, v) \/ In (k', v') d.
Proof.
  induction d as [|[k2 v2] d IH]; cbn.
  - intros [H|[]]. left. symmetry. exact H.
  - destruct (edge_eqb_spec k k2) as [->|Hne]; cbn.
    + intros [[= <- <-]|H]; [left; reflexivity|right; right; exact H].
    + intros [H|H]; [right; left; exact H|]. destruct (IH H) as [H'|H']; [left; exact H'|right; right; exact H'].
Qed.

Lemma in_fold_dict {V} (f : edge -> edge) (rs : list (edge * V)) d k v :
  In (k, v) (fold_left (fun m kv => dict_set m (f (fst kv)) (snd kv)) rs d) ->
  (exists k0, In (k0, v) rs /\ f k0 = k) \/ In (k, v) d.
Proof.
  revert d. induction rs as [|[k1 v1] rs IH]; intros d; cbn; [tauto|].
  intros H. destruct (IH _ H) as [[k0 [Hin Hf]]|Hd].
  - left. exists k0. split; [right; exact Hin|exact Hf].
  - cbn in Hd. destruct (in_dict_set _ _ _ _ _ Hd) as [[= -> ->]|Hd'].
    + left. exists k1. split; [left; reflexivity|reflexivity].
    + right. exact Hd'.
Qed.

Lemma final_attr_once el ne a : occurrences el ne = [a] -> final_attr el ne = Some a.
Proof.
  intros Hocc. unfold final_attr, apply_dict.
  rewrite (dict_get_fold norm). cbn [dict_get].
  assert (Hall : forall k v, In (k, v) (rows el) -> edge_eqb (norm k) ne = true -> v = a).
  { intros k v Hin Hp.
    assert (Hv : In v (occurrences el ne)).
    { unfold occurrences. apply in_map_iff. exists (k, v). split; [reflexivity|].
      apply filter_In. split; [exact Hin|exact Hp]. }
    rewrite Hocc in Hv. destruct Hv as [Hv|[]]. symmetry. exact Hv. }
  apply lastmatch_all.
  - intros k v Hin Hp. unfold build_dict in Hin.
    destruct (in_fold_dict (fun x => x) _ _ _ _ Hin) as [[k0 [Hin0 ->]]|[]].
    apply (Hall k v Hin0). rewrite edge_eqb_sym. exact Hp.
  - left. reflexivity.
  - right.
    assert (Ha : In a (occurrences el ne)) by (rewrite Hocc; left; reflexivity).
    unfold occurrences in Ha. apply in_map_iff in Ha. destruct Ha as [[k v] [Hv Hin]]. cbn in Hv. subst v.
    apply filter_In in Hin. destruct Hin as [Hin Hp]. cbn in Hp.
    assert (Hk : In k (map fst (build_dict (rows el)))).
    { unfold build_dict. apply (keys_fold (fun x => x)). left. rewrite map_id.
      apply in_map_iff. exists (k, a). split; [reflexivity|exact Hin]. }
    apply in_map_iff in Hk. destruct Hk as [[k' v'] [Hk' Hin']]. cbn in Hk'. subst k'.
    exists k, v'. split; [exact Hin'|]. rewrite edge_eqb_sym. exact Hp.
Qed.

(* an edge that never occurs carries no attribute *)
Lemma final_attr_absent el ne : occurrences el ne = [] -> final_attr el ne = None.
Proof.
  intros Hocc. unfold final_attr, apply_dict. rewrite (dict_get_fold norm). cbn [dict_get].
  apply lastmatch_none. intros k v Hin. unfold build_dict in Hin.
  destruct (in_fold_dict (fun x => x) _ _ _ _ Hin) as [[k0 [Hin0 ->]]|[]].
  destruct (edge_eqb ne (norm k)) eqn:E; [|reflexivity]. exfalso.
  assert (Hv : In v (occurrences el ne)).
  { unfold occurrences. apply in_map_iff. exists (k, v). split; [reflexivity|].
    apply filter_In. split; [exact Hin0|]. cbn. rewrite edge_eqb_sym. exact E. }
  rewrite Hocc in Hv. exact Hv.
Qed.

(* ---------- the model satisfies the specification, for EVERY edge list ---------- *)
Lemma forallb_map_fst {A B} (p : A -> bool) (l : list (A * B)) :
  forallb (fun x => p (fst x)) l = forallb p (map fst l).
Proof. induction l as [|x l IH]; cbn; [reflexivity|]. rewrite IH. reflexivity. Qed.

Lemma to_network_nodes el :
  map fst (n_nodes (to_network el)) = nodup_nat (seq 0 (length (el_jds el)) ++ endpoints (el_edges el)).
Proof. unfold to_network. cbn [n_nodes]. rewrite map_map. cbn. apply map_id. Qed.

Lemma to_network_edges el :
  map fst (n_edges (to_network el)) = nodup_edges (map norm (el_edges el)).
Proof. unfold to_network. cbn [n_edges]. rewrite map_map. cbn. apply map_id. Qed.

Theorem to_network_check el : check_net el (to_network el) = true.
Proof.
  unfold check_net. rewrite to_network_nodes, to_network_edges.
  repeat (apply andb_true_iff; split).
  - apply nodupb_nat_NoDup. apply nodup_nat_NoDup.
  - apply forallb_forall. intros v Hv. apply mem_nat_In. apply nodup_nat_In. apply in_or_app. left. exact Hv.
  - apply forallb_forall. intros v Hv. apply mem_nat_In. apply nodup_nat_In. apply in_or_app. right. exact Hv.
  - apply forallb_forall. intros v Hv. apply (proj1 (nodup_nat_In _ _)) in Hv. apply in_app_or in Hv.
    apply orb_true_iff. destruct Hv as [Hv|Hv].
    + left. apply Nat.ltb_lt. apply in_seq in Hv. lia.
    + right. apply mem_nat_In. exact Hv.
  - apply forallb_forall. intros [v a] Hin. unfold to_network in Hin. cbn [n_nodes] in Hin.
    apply in_map_iff in Hin. destruct Hin as [v' [[= <- <-] _]]. cbn [fst snd].
    destruct (Nat.ltb v' (length (el_jds el))); cbn; [apply list_nat_eqb_refl|reflexivity].
  - apply nodupb_edge_NoDup. apply nodup_edges_NoDup.
  - apply forallb_forall. intros e He. apply (proj1 (nodup_edges_In _ _)) in He.
    apply andb_true_iff. split.
    + apply in_map_iff in He. destruct He as [e0 [<- _]]. rewrite norm_idem. apply edge_eqb_refl.
    + apply mem_edge_In. exact He.
  - apply forallb_forall. intros e He. apply mem_edge_In. apply nodup_edges_In. exact He.
  - apply forallb_forall. intros [e a] Hin. unfold to_network in Hin. cbn [n_edges] in Hin.
    apply in_map_iff in Hin. destruct Hin as [e' [[= <- <-] _]]. cbn [fst snd].
    destruct (occurrences el e') as [|r [|r2 t]] eqn:Hocc; try reflexivity.
    fold (final_attr el e'). rewrite (final_attr_once el e' r Hocc).
    destruct r as [x y]. cbn. rewrite !Nat.eqb_refl. reflexivity.
Qed.

(* ---------- what the checker means (soundness: checker true => the Prop-level spec) ---------- *)
Definition Spec_net (el : elist) (g : net) : Prop :=
  let N := length (el_jds el) in
  NoDup (map fst (n_nodes g)) /\
  (forall v, In v (map fst (n_nodes g)) <-> (v < N \/ In v (endpoints (el_edges el)))) /\
  (forall v a, In (v, a) (n_nodes g) -> a = if Nat.ltb v N then Some (nth v (el_jds el) []) else None) /\
  NoDup (map fst (n_edges g)) /\
  (forall e, In e (map fst (n_edges g)) <-> (norm e = e /\ exists e0, In e0 (el_edges el) /\ norm e0 = e)) /\
  (forall e a r, In (e, a) (n_edges g) -> occurrences el e = [r] -> a = Some r).

Lemma opt_jd_eqb_eq a b : opt_jd_eqb a b = true -> a = b.
Proof.
  destruct a, b; cbn; try discriminate; [|reflexivity]. intros H. f_equal. apply list_nat_eqb_eq. exact H.
Qed.

Lemma opt_attr_eqb_eq a b : opt_attr_eqb a b = true -> a = b.
Proof.
  destruct a as [[x y]|], b as [[x' y']|]; cbn; try discriminate; [|reflexivity].
  rewrite andb_true_iff. intros [H1 H2]. apply Nat.eqb_eq in H1, H2. subst. reflexivity.
Qed.

Theorem check_net_sound el g : check_net el g = true -> Spec_net el g.
Proof.
  unfold check_net, Spec_net. rewrite !andb_true_iff.
  intros [[[[[[[[H1 H2] H3] H4] H5] H6] H7] H8] H9].
  rewrite forallb_forall in H2, H3, H4, H5, H7, H8, H9.
  split; [apply nodupb_nat_NoDup; exact H1|].
  split.
  { intros v. split.
    - intros Hv. apply H4 in Hv. apply orb_true_iff in Hv. destruct Hv as [Hv|Hv].
      + left. apply Nat.ltb_lt. exact Hv.
      + right. apply mem_nat_In. exact Hv.
    - intros [Hv|Hv]; apply mem_nat_In.
      + apply H2. apply in_seq. lia.
      + apply H3. exact Hv. }
  split.
  { intros v a Hin. specialize (H5 _ Hin). cbn [fst snd] in H5.
    destruct (Nat.ltb v (length (el_jds el))); apply opt_jd_eqb_eq; exact H5. }
  split; [apply nodupb_edge_NoDup; exact H6|].
  split.
  { intros e. split.
    - intros He. specialize (H7 _ He). apply andb_true_iff in H7. destruct H7 as [Hn Hm].
      destruct (edge_eqb_spec (norm e) e) as [Hn'|]; [|discriminate]. split; [exact Hn'|].
      apply mem_edge_In in Hm. apply in_map_iff in Hm. destruct Hm as [e0 [He0 Hin0]].
      exists e0. split; assumption.
    - intros [_ [e0 [Hin0 He0]]]. apply mem_edge_In. apply H8. apply in_map_iff. exists e0. split; assumption. }
  intros e a r Hin Hocc. specialize (H9 _ Hin). cbn [fst snd] in H9. rewrite Hocc in H9.
  apply opt_attr_eqb_eq. exact H9.
Qed.

Corollary to_network_spec el : Spec_net el (to_network el).
Proof. apply check_net_sound. apply to_network_check. Qed.

(* ---------- round trip ---------- *)
Lemma find_unique_key (nodes : list (nat * option jd)) k a :
  NoDup (map fst nodes) -> In (k, a) nodes ->
  find (fun p => Nat.eqb (fst p) k) nodes = Some (k, a).
Proof.
  induction nodes as [|[k1 a1] nodes IH]; cbn; intros Hnd Hin; [contradiction|].
  inversion Hnd as [|? ? Hx Hnd']; subst.
  destruct Hin as [[= -> ->]|Hin].
  - rewrite Nat.eqb_refl. reflexivity.
  - destruct (Nat.eqb_spec k1 k) as [->|Hne].
    + exfalso. apply Hx. apply in_map_iff. exists (k, a). split; [reflexivity|exact Hin].
    + apply IH; assumption.
Qed.

Lemma node_jds_ok (nodes : list (nat * option jd)) (jds : list jd) n k :
  NoDup (map fst nodes) ->
  (forall i, k <= i < k + n -> In (i, Some (nth i jds [])) nodes) ->
  node_jds nodes n k = Some (map (fun i => nth i jds []) (seq k n)).
Proof.
  intros Hnd. revert k. induction n as [|n IH]; intros k H; cbn; [reflexivity|].
  rewrite (find_unique_key nodes k (Some (nth k jds [])) Hnd) by (apply H; lia).
  rewrite IH; [reflexivity|]. intros i Hi. apply H. lia.
Qed.

Lemma map_nth_seq {A} (l : list A) d : map (fun i => nth i l d) (seq 0 (length l)) = l.
Proof.
  apply nth_ext with (d := d) (d' := d).
  - rewrite map_length, seq_length. reflexivity.
  - intros n Hn. rewrite map_length, seq_length in Hn.
    rewrite (nth_indep _ d (nth 0 l d)) by (rewrite map_length, seq_length; exact Hn).
    rewrite (map_nth (fun i => nth i l d) (seq 0 (length l)) 0 n).
    rewrite seq_nth by exact Hn. reflexivity.
Qed.

Lemma filter_nil {A} (p : A -> bool) l : (forall x, In x l -> p x = false) -> filter p l = [].
Proof.
  induction l as [|x l IH]; cbn; intros H; [reflexivity|].
  rewrite (H x) by (left; reflexivity). apply IH. intros y Hy. apply H. right. exact Hy.
Qed.

Lemma occurrences_unique (rs : list (edge * (nat * nat))) k a :
  NoDup (map (fun r => norm (fst r)) rs) -> In (k, a) rs ->
  map snd (filter (fun r => edge_eqb (norm (fst r)) (norm k)) rs) = [a].
Proof.
  induction rs as [|[k1 a1] rs IH]; cbn; intros Hnd Hin; [contradiction|].
  inversion Hnd as [|? ? Hx Hnd']; subst.
  destruct Hin as [[= -> ->]|Hin].
  - rewrite edge_eqb_refl. cbn. f_equal.
    assert (Hf : filter (fun r => edge_eqb (norm (fst r)) (norm k)) rs = []).
    { apply filter_nil. intros [k2 a2] Hin2. cbn.
      destruct (edge_eqb_spec (norm k2) (norm k)) as [He|]; [|reflexivity].
      exfalso. apply Hx. rewrite <- He. apply in_map_iff. exists (k2, a2). split; [reflexivity|exact Hin2]. }
    rewrite Hf. reflexivity.
  - destruct (edge_eqb_spec (norm k1) (norm k)) as [He|Hne].
    + exfalso. apply Hx. rewrite He. apply in_map_iff. exists (k, a). split; [reflexivity|exact Hin].
    + apply IH; assumption.
Qed.

Lemma map_fst_combine {A B} (l : list A) (l' : list B) :
  length l = length l' -> map fst (combine l l') = l.
Proof.
  revert l'. induction l as [|x l IH]; intros [|y l'] H; cbn in *; try discriminate; [reflexivity|].
  f_equal. apply IH. lia.
Qed.

Lemma map_snd_combine {A B} (l : list A) (l' : list B) :
  length l = length l' -> map snd (combine l l') = l'.
Proof.
  revert l'. induction l as [|x l IH]; intros [|y l'] H; cbn in *; try discriminate; [reflexivity|].
  f_equal. apply IH. lia.
Qed.

Lemma edge_cols_some {A} (f : A -> edge) (g : A -> nat * nat) (l : list A) :
  edge_cols (map (fun r => (f r, Some (g r))) l) = Some (map (fun r => (f r, g r)) l).
Proof. induction l as [|x l IH]; cbn; [reflexivity|]. rewrite IH. reflexivity. Qed.

Definition normalised (el : elist) : elist :=
  mk_elist (el_jds el) (map norm (el_edges el)) (el_names el) (el_ids el).

Lemma simple_el_unpack el : simple_el el = true ->
  NoDup (map norm (el_edges el)) /\
  (forall v, In v (endpoints (el_edges el)) -> v < length (el_jds el)) /\
  length (el_names el) = length (el_edges el) /\ length (el_ids el) = length (el_edges el).
Proof.
  unfold simple_el. rewrite !andb_true_iff. intros [[[H1 H2] H3] H4].
  split; [apply nodupb_edge_NoDup; exact H1|]. split.
  - intros v Hv. rewrite forallb_forall in H2. apply Nat.ltb_lt. apply H2. exact Hv.
  - split; apply Nat.eqb_eq; assumption.
Qed.

Lemma rows_fst el :
  length (el_names el) = length (el_edges el) -> length (el_ids el) = length (el_edges el) ->
  map fst (rows el) = el_edges el.
Proof.
  intros H1 H2. unfold rows. apply map_fst_combine. rewrite combine_length. lia.
Qed.

Lemma rows_snd el :
  length (el_names el) = length (el_edges el) -> length (el_ids el) = length (el_edges el) ->
  map snd (rows el) = combine (el_names el) (el_ids el).
Proof.
  intros H1 H2. unfold rows. apply map_snd_combine. rewrite combine_length. lia.
Qed.

Lemma simple_edges_rows el : simple_el el = true ->
  n_edges (to_network el) = map (fun r => (norm (fst r), Some (snd r))) (rows el).
Proof.
  intros Hs. destruct (simple_el_unpack el Hs) as [Hnd [_ [Hl1 Hl2]]].
  unfold to_network. cbn [n_edges]. rewrite (nodup_edges_id _ Hnd).
  rewrite <- (rows_fst el Hl1 Hl2) at 1. rewrite !map_map.
  apply map_ext_in. intros [k a] Hin. cbn [fst snd]. f_equal.
  fold (final_attr el (norm k)). apply final_attr_once. unfold occurrences.
  apply occurrences_unique; [|exact Hin].
  rewrite <- (rows_fst el Hl1 Hl2) in Hnd. rewrite map_map in Hnd. exact Hnd.
Qed.

Lemma simple_nodes el : simple_el el = true ->
  node_jds (n_nodes (to_network el)) (length (n_nodes (to_network el))) 0 = Some (el_jds el).
Proof.
  intros Hs. destruct (simple_el_unpack el Hs) as [_ [Hv _]].
  set (N := length (el_jds el)).
  set (l := nodup_nat (seq 0 N ++ endpoints (el_edges el))).
  assert (Hmem : forall v, In v l <-> v < N).
  { intros v. unfold l. rewrite nodup_nat_In, in_app_iff, in_seq. split.
    - intros [H|H]; [lia|apply Hv; exact H].
    - intros H. left. lia. }
  assert (Hndl : NoDup l) by apply nodup_nat_NoDup.
  assert (Hlen : length l = N).
  { rewrite <- (seq_length N 0). apply Permutation_length. apply NoDup_Permutation.
    - exact Hndl.
    - apply seq_NoDup.
    - intros v. rewrite Hmem, in_seq. lia. }
  assert (Hfst : map fst (n_nodes (to_network el)) = l) by apply to_network_nodes.
  assert (Hlen' : length (n_nodes (to_network el)) = N).
  { rewrite <- Hlen, <- Hfst, map_length. reflexivity. }
  rewrite Hlen'. rewrite (node_jds_ok _ (el_jds el) N 0).
  - unfold N. rewrite map_nth_seq. reflexivity.
  - rewrite Hfst. exact Hndl.
  - intros i Hi. unfold to_network. cbn [n_nodes]. apply in_map_iff. exists i. split.
    + fold N. rewrite (proj2 (Nat.ltb_lt i N)) by lia. reflexivity.
    + apply Hmem. lia.
Qed.

Theorem roundtrip_el el : simple_el el = true -> to_edgelist (to_network el) = Some (normalised el).
Proof.
  intros Hs. destruct (simple_el_unpack el Hs) as [_ [_ [Hl1 Hl2]]].
  unfold to_edgelist. rewrite (simple_nodes el Hs), (simple_edges_rows el Hs), edge_cols_some.
  unfold normalised.
  assert (E1 : map fst (map (fun r : edge * (nat * nat) => (norm (fst r), snd r)) (rows el)) = map norm (el_edges el)).
  { rewrite map_map. cbn [fst]. rewrite <- (map_map fst norm), (rows_fst el Hl1 Hl2). reflexivity. }
  assert (E2 : map (fun r : edge * (nat * nat) => fst (snd r)) (map (fun r : edge * (nat * nat) => (norm (fst r), snd r)) (rows el)) = el_names el).
  { rewrite map_map. cbn [fst snd]. rewrite <- (map_map snd fst), (rows_snd el Hl1 Hl2).
    apply map_fst_combine. lia. }
  assert (E3 : map (fun r : edge * (nat * nat) => snd (snd r)) (map (fun r : edge * (nat * nat) => (norm (fst r), snd r)) (rows el)) = el_ids el).
  { rewrite map_map. cbn [fst snd]. rewrite <- (map_map snd snd), (rows_snd el Hl1 Hl2).
    apply map_snd_combine. lia. }
  rewrite E1, E2, E3. reflexivity.
Qed.

(* the round-trip checker accepts the normalised list *)
Lemma row_eqb_refl r : row_eqb r r = true.
Proof. unfold row_eqb. rewrite edge_eqb_refl, !Nat.eqb_refl. reflexivity. Qed.

Lemma nrows_normalised el : nrows (normalised el) = nrows el.
Proof.
  unfold nrows, rows, normalised. cbn [el_edges el_names el_ids].
  generalize (combine (el_names el) (el_ids el)) as l. generalize (el_edges el) as es.
  induction es as [|e es IH]; intros [|x l]; cbn; try reflexivity.
  rewrite norm_idem, IH. reflexivity.
Qed.

Theorem roundtrip_check el : check_roundtrip el (normalised el) = true.
Proof.
  unfold check_roundtrip. rewrite nrows_normalised. cbn [normalised el_jds].
  rewrite list_jd_eqb_refl, Nat.eqb_refl. cbn.
  assert (H : forallb (fun r => existsb (row_eqb r) (nrows el)) (nrows el) = true).
  { apply forallb_forall. intros r Hr. apply existsb_exists. exists r. split; [exact Hr|apply row_eqb_refl]. }
  rewrite H. reflexivity.
Qed.

(* converting the back-converted list again gives the same network (nodes up to order) *)
Definition net_equiv (g g' : net) : Prop :=
  Permutation (n_nodes g) (n_nodes g') /\ n_edges g = n_edges g'.

Lemma endpoints_norm_In es v : In v (endpoints (map norm es)) <-> In v (endpoints es).
Proof.
  unfold endpoints. rewrite !in_flat_map. split.
  - intros [e [He Hv]]. apply in_map_iff in He. destruct He as [e0 [<- He0]]. exists e0. split; [exact He0|].
    destruct e0 as [a b]. unfold norm in Hv. cbn in *. destruct (Nat.leb a b); cbn in *; tauto.
  - intros [e [He Hv]]. exists (norm e). split; [apply in_map; exact He|].
    destruct e as [a b]. unfold norm. cbn in *. destruct (Nat.leb a b); cbn in *; tauto.
Qed.

Lemma simple_normalised el : simple_el el = true -> simple_el (normalised el) = true.
Proof.
  intros Hs. destruct (simple_el_unpack el Hs) as [Hnd [Hv [Hl1 Hl2]]].
  unfold simple_el, normalised. cbn [el_jds el_edges el_names el_ids].
  repeat (apply andb_true_iff; split).
  - rewrite map_map. rewrite (map_ext (fun x => norm (norm x)) norm norm_idem).
    apply nodupb_edge_NoDup. exact Hnd.
  - apply forallb_forall. intros v Hin. apply Nat.ltb_lt. apply Hv. apply endpoints_norm_In. exact Hin.
  - rewrite map_length. apply Nat.eqb_eq. exact Hl1.
  - rewrite map_length. apply Nat.eqb_eq. exact Hl2.
Qed.

Lemma rows_normalised el : rows (normalised el) = map (fun r => (norm (fst r), snd r)) (rows el).
Proof.
  unfold rows, normalised. cbn [el_edges el_names el_ids].
  generalize (combine (el_names el) (el_ids el)) as l. generalize (el_edges el) as es.
  induction es as [|e es IH]; intros [|x l]; cbn; try reflexivity.
  rewrite IH. reflexivity.
Qed.

Theorem roundtrip_net el : simple_el el = true -> net_equiv (to_network (normalised el)) (to_network el).
Proof.
  intros Hs. split.
  - unfold to_network, normalised. cbn [n_nodes el_jds el_edges].
    apply Permutation_map. apply NoDup_Permutation; try apply nodup_nat_NoDup.
    intros v. rewrite !nodup_nat_In, !in_app_iff, endpoints_norm_In. tauto.
  - rewrite (simple_edges_rows _ (simple_normalised el Hs)), (simple_edges_rows el Hs).
    rewrite rows_normalised, map_map. cbn [fst snd].
    apply map_ext. intros r. rewrite norm_idem. reflexivity.
Qed.
