(* Proofs about Model/Cover.v (C08): the cover loader counts cliques per vertex and size. *)
From Coq Require Import List ZArith QArith Bool Arith Lia ZifyBool Sorted Permutation.
From GV Require Import Lib.Tree Lib.QSumL Lib.ReflL Model.Loaders Model.Sample Model.Cover
     Proofs.SampleP Proofs.LoadersP.
Import ListNotations.
Local Open Scope nat_scope.

(* ====================================================================== *)
(* motif sizes = ascending duplicate-free list of the occurring clique lengths *)
Lemma le_fold_max x l : In x l -> x <= fold_right Nat.max 0 l.
Proof.
  induction l as [|y l IH]; intros H; [contradiction|]. cbn. destruct H as [->|H]; [lia|].
  specialize (IH H). lia.
Qed.

Lemma sorted_set_In lens s : In s (sorted_set lens) <-> In s lens.
Proof.
  unfold sorted_set. rewrite filter_In, in_seq, existsb_exists. split.
  - intros [_ (x & Hx & E)]. apply Nat.eqb_eq in E. subst. exact Hx.
  - intros H. split.
    + pose proof (le_fold_max s lens H). lia.
    + exists s. split; [exact H|apply Nat.eqb_refl].
Qed.

Lemma seq_sorted a n : StronglySorted lt (seq a n).
Proof.
  revert a. induction n as [|n IH]; intros a; cbn; constructor; [apply IH|].
  apply Forall_forall. intros x Hx. apply in_seq in Hx. lia.
Qed.

Lemma filter_sorted {A} (R : A -> A -> Prop) f l : StronglySorted R l -> StronglySorted R (filter f l).
Proof.
  induction 1 as [|x l Hs IH Hx]; cbn; [constructor|]. destruct (f x); [|exact IH].
  constructor; [exact IH|]. rewrite Forall_forall in *. intros y Hy. apply filter_In in Hy. apply Hx, Hy.
Qed.

Lemma sorted_set_sorted lens : StronglySorted lt (sorted_set lens).
Proof. unfold sorted_set. apply filter_sorted, seq_sorted. Qed.

Lemma sorted_nat_iff l : sorted_nat l = true <-> StronglySorted lt l.
Proof.
  induction l as [|x t IH]; [split; [constructor|reflexivity]|].
  destruct t as [|y t'].
  - split; [intros _; repeat constructor|reflexivity].
  - change (sorted_nat (x :: y :: t')) with ((x <? y) && sorted_nat (y :: t')).
    rewrite andb_true_iff, Nat.ltb_lt, IH. split.
    + intros [Hxy Hs]. constructor; [exact Hs|]. constructor; [exact Hxy|].
      inversion Hs as [|? ? _ Hy]; subst. eapply Forall_impl; [|exact Hy]. intros z Hz. cbn in Hz. lia.
    + intros Hs. inversion Hs as [|? ? Hs' Hx]; subst. inversion Hx; subst. split; assumption.
Qed.

Definition SizesSpec (c : cover) (sizes : list nat) : Prop :=
  StronglySorted lt sizes /\ forall s, In s sizes <-> In s (map (@length Z) c).

Lemma existsb_eqb_In s l : existsb (Nat.eqb s) l = true <-> In s l.
Proof.
  rewrite existsb_exists. split.
  - intros (x & Hx & E). apply Nat.eqb_eq in E. subst. exact Hx.
  - intros H. exists s. split; [exact H|apply Nat.eqb_refl].
Qed.

Lemma sizes_check_iff c sizes : sizes_check c sizes = true <-> SizesSpec c sizes.
Proof.
  unfold sizes_check, SizesSpec. rewrite !andb_true_iff, sorted_nat_iff, !forallb_Forall, !Forall_forall.
  split.
  - intros [[H1 H2] H3]. split; [exact H1|]. intros s. split; intros H.
    + apply existsb_eqb_In. apply H2. exact H.
    + apply existsb_eqb_In. apply H3. exact H.
  - intros [H1 H2]. repeat split; auto; intros s Hs; apply existsb_eqb_In; apply H2; exact Hs.
Qed.

Lemma motif_sizes_spec c : SizesSpec c (motif_sizes c).
Proof. split; [apply sorted_set_sorted|]. intros s. apply sorted_set_In. Qed.

(* a strictly ascending list is determined by its elements: the reported sizes are unique *)
Lemma sorted_unique (a b : list nat) :
  StronglySorted lt a -> StronglySorted lt b -> (forall x, In x a <-> In x b) -> a = b.
Proof.
  intros Ha. revert b. induction Ha as [|x a Ha IH Hx]; intros b Hb E.
  - destruct b as [|y b]; [reflexivity|]. exfalso. apply (E y). left. reflexivity.
  - destruct b as [|y b]; [exfalso; apply (E x); left; reflexivity|].
    inversion Hb as [|? ? Hb' Hy]; subst. rewrite Forall_forall in Hx, Hy.
    assert (x = y).
    { destruct (proj1 (E x) (or_introl eq_refl)) as [->|H1]; [reflexivity|].
      destruct (proj2 (E y) (or_introl eq_refl)) as [->|H2]; [reflexivity|].
      pose proof (Hy x H1). pose proof (Hx y H2). lia. }
    subst y. f_equal. apply IH; [exact Hb'|]. intros z. split; intros Hz.
    + destruct (proj1 (E z) (or_intror Hz)) as [->|H]; [|exact H]. pose proof (Hx z Hz). lia.
    + destruct (proj2 (E z) (or_intror Hz)) as [->|H]; [|exact H]. pose proof (Hy z Hz). lia.
Qed.

(* ====================================================================== *)
(* the counting loop is a log of bumps *)
Definition cover_log (zero : Z) (c : cover) : list (nat * nat) :=
  flat_map (fun cl => map (fun v => (length cl - 1, Z.to_nat (v - zero))) cl) c.

Lemma pyidx_in n i : (0 <= i < Z.of_nat n)%Z -> pyidx n i = Some (Z.to_nat i).
Proof.
  intros H. unfold pyidx. destruct (Z.leb_spec 0 i); [|lia]. destruct (Z.ltb_spec i (Z.of_nat n)); [|lia].
  reflexivity.
Qed.

Definition in_rows (zero : Z) (n : nat) (vs : list Z) : Prop :=
  Forall (fun v => (0 <= v - zero < Z.of_nat n)%Z) vs.

Lemma count_clique_ok zero size vs t :
  in_rows zero (length t) vs ->
  count_clique zero size vs t = Some (apply_log (map (fun v => (size - 1, Z.to_nat (v - zero))) vs) t).
Proof.
  revert t. induction vs as [|v vs IH]; intros t H; [reflexivity|].
  inversion H as [|? ? Hv Hvs]; subst. cbn [count_clique map]. rewrite pyidx_in by exact Hv.
  rewrite IH by (rewrite bump_length; exact Hvs). reflexivity.
Qed.

Lemma count_cover_ok zero c t :
  Forall (in_rows zero (length t)) c -> count_cover zero c t = Some (apply_log (cover_log zero c) t).
Proof.
  revert t. induction c as [|cl c IH]; intros t H; [reflexivity|].
  inversion H as [|? ? Hcl Hc]; subst. cbn [count_cover cover_log flat_map].
  rewrite count_clique_ok by exact Hcl. rewrite IH by (rewrite apply_log_length; exact Hc).
  rewrite apply_log_app. reflexivity.
Qed.

(* a vertex outside the table raises IndexError (the malformed stream: gaps in the ids) *)
Lemma count_clique_out zero size v vs t :
  pyidx (length t) (v - zero) = None -> count_clique zero size (v :: vs) t = None.
Proof. intros H. cbn [count_clique]. rewrite H. reflexivity. Qed.

(* ====================================================================== *)
(* vertex ids *)
Lemma znodup_In l x : In x (znodup l) <-> In x l.
Proof.
  induction l as [|a l IH]; cbn [znodup In]; [tauto|]. split.
  - intros [->|H]; [left; reflexivity|]. apply filter_In in H. right. apply IH. tauto.
  - intros [->|H]; [left; reflexivity|]. destruct (Z.eqb_spec a x) as [->|Hne]; [left; reflexivity|].
    right. apply filter_In. split; [apply IH; exact H|]. apply negb_true_iff. apply Z.eqb_neq. exact Hne.
Qed.

Lemma znodup_NoDup l : NoDup (znodup l).
Proof.
  induction l as [|a l IH]; cbn [znodup]; constructor.
  - intros H. apply filter_In in H. destruct H as [_ H]. rewrite Z.eqb_refl in H. discriminate.
  - apply NoDup_filter. exact IH.
Qed.

Lemma zmem_In x l : zmem x l = true <-> In x l.
Proof.
  unfold zmem. rewrite existsb_exists. split.
  - intros (y & Hy & E). apply Z.eqb_eq in E. subst. exact Hy.
  - intros H. exists x. split; [exact H|apply Z.eqb_refl].
Qed.

Lemma fold_min_spec l x : let m := fold_left Z.min l x in
  (m = x \/ In m l) /\ (m <= x)%Z /\ forall y, In y l -> (m <= y)%Z.
Proof.
  revert x. induction l as [|a l IH]; intros x; cbn [fold_left].
  - repeat split; [left; reflexivity|lia|contradiction].
  - destruct (IH (Z.min x a)) as (H1 & H2 & H3). repeat split.
    + destruct H1 as [H1|H1]; [|right; right; exact H1].
      destruct (Z.min_spec x a) as [[_ E]|[_ E]]; [left; rewrite H1; exact E|right; left; rewrite H1; symmetry; exact E].
    + lia.
    + intros y [->|Hy]; [lia|apply H3; exact Hy].
Qed.

Lemma zmin_list_spec l m : zmin_list l = Some m -> In m l /\ forall y, In y l -> (m <= y)%Z.
Proof.
  destruct l as [|x l]; [discriminate|]. cbn [zmin_list]. intros E. injection E as <-.
  destruct (fold_min_spec l x) as (H1 & H2 & H3). split.
  - destruct H1 as [->|H1]; [left; reflexivity|right; exact H1].
  - intros y [->|Hy]; [exact H2|apply H3; exact Hy].
Qed.

(* the covers the property speaks about: ids contiguous from 0 or 1, cliques non-empty and duplicate-free *)
Record ValidCover (c : cover) (zero : Z) : Prop := {
  vc_zero : zero = 0%Z \/ zero = 1%Z;
  vc_some : c <> [];
  vc_nonempty : Forall (fun cl => cl <> []) c;
  vc_nodup : Forall (fun cl => NoDup cl) c;
  vc_contig : forall x, In x (concat c) <-> (zero <= x < zero + Z.of_nat (length (vertex_ids c)))%Z
}.

Lemma valid_ids_nonempty c zero : ValidCover c zero -> 0 < length (vertex_ids c).
Proof.
  intros V. destruct c as [|cl c]; [destruct (vc_some _ _ V); reflexivity|].
  pose proof (vc_nonempty _ _ V) as H. inversion H as [|? ? Hcl _]; subst.
  destruct cl as [|v cl]; [contradiction|]. unfold vertex_ids. cbn. lia.
Qed.

Lemma valid_zmin c zero : ValidCover c zero -> zmin_list (vertex_ids c) = Some zero.
Proof.
  intros V. pose proof (valid_ids_nonempty c zero V) as Hn.
  destruct (zmin_list (vertex_ids c)) as [m|] eqn:E.
  - destruct (zmin_list_spec _ _ E) as [Hin Hmin]. f_equal.
    assert (Hz : In zero (vertex_ids c)) by (apply znodup_In, (vc_contig _ _ V); lia).
    apply znodup_In, (vc_contig _ _ V) in Hin. specialize (Hmin zero Hz). lia.
  - destruct (vertex_ids c); [cbn in Hn; lia|discriminate].
Qed.

Lemma valid_in_rows c zero : ValidCover c zero -> Forall (in_rows zero (length (vertex_ids c))) c.
Proof.
  intros V. apply Forall_forall. intros cl Hcl. apply Forall_forall. intros v Hv.
  assert (H : In v (concat c)) by (apply in_concat; exists cl; split; assumption).
  apply (vc_contig _ _ V) in H. lia.
Qed.

(* ====================================================================== *)
(* entries of the counted table *)
Lemma count_cl_cons cl c s x :
  count_cl (cl :: c) s x = (if (length cl =? s) && zmem x cl then 1 else 0) + count_cl c s x.
Proof. unfold count_cl. cbn [filter]. destruct ((length cl =? s) && zmem x cl); reflexivity. Qed.

Lemma filter_map_length {A B} (f : B -> bool) (h : A -> B) l :
  length (filter f (map h l)) = length (filter (fun v => f (h v)) l).
Proof. induction l as [|x l IH]; [reflexivity|]. cbn [map filter]. destruct (f (h x)); cbn [length]; rewrite IH; reflexivity. Qed.

Lemma count_nodup x l : NoDup l -> length (filter (Z.eqb x) l) = if zmem x l then 1 else 0.
Proof.
  induction 1 as [|y l Hy _ IH]; [reflexivity|]. unfold zmem. cbn [filter existsb]. fold (zmem x l).
  destruct (Z.eqb_spec x y) as [->|Hne]; cbn [orb length].
  - rewrite IH. destruct (zmem y l) eqn:E; [apply zmem_In in E; contradiction|reflexivity].
  - exact IH.
Qed.

Lemma filter_all_false {A} (f : A -> bool) l : (forall x, In x l -> f x = false) -> filter f l = [].
Proof.
  intros H. induction l as [|x l IH]; [reflexivity|]. cbn. rewrite (H x (or_introl eq_refl)).
  apply IH. intros y Hy. apply H. right. exact Hy.
Qed.

Lemma cnt_app c v a b : cnt c v (a ++ b) = (cnt c v a + cnt c v b)%Z.
Proof. unfold cnt. rewrite filter_app, app_length. lia. Qed.

Lemma cnt_cover_log zero c r j :
  Forall (fun cl => NoDup cl) c -> Forall (Forall (fun v => (zero <= v)%Z)) c ->
  cnt j r (cover_log zero c) = Z.of_nat (count_cl c (S j) (zero + Z.of_nat r)).
Proof.
  intros Hnd Hge. induction c as [|cl c IH]; [reflexivity|].
  inversion Hnd as [|? ? Hcl Hnd']; subst. inversion Hge as [|? ? Hclge Hge']; subst.
  cbn [cover_log flat_map]. fold (cover_log zero c). rewrite cnt_app, (IH Hnd' Hge'), count_cl_cons.
  rewrite Nat2Z.inj_add. f_equal. unfold cnt. rewrite filter_map_length. cbn [fst snd]. f_equal.
  destruct (Nat.eqb_spec (length cl - 1) j) as [Ej|Ej]; cbn [andb].
  - rewrite (filter_ext_in _ (Z.eqb (zero + Z.of_nat r))).
    + rewrite (count_nodup _ _ Hcl). destruct cl as [|v0 cl']; [reflexivity|].
      cbn [length] in Ej. replace (length (v0 :: cl') =? S j) with true by (cbn [length]; symmetry; apply Nat.eqb_eq; lia).
      reflexivity.
    + intros v Hv. rewrite Forall_forall in Hclge. specialize (Hclge v Hv).
      destruct (Z.eqb_spec (zero + Z.of_nat r) v) as [<-|Hne]; [apply Nat.eqb_eq; lia|apply Nat.eqb_neq; lia].
  - rewrite filter_all_false by reflexivity. destruct (Nat.eqb_spec (length cl) (S j)); [lia|reflexivity].
Qed.

Lemma nth_repeat_z n j : nth j (repeat 0%Z n) 0%Z = 0%Z.
Proof. revert j. induction n as [|n IH]; intros [|j]; cbn; auto. Qed.

Lemma nth_const_rows {A} (l : list A) w r : r < length l -> nth r (map (fun _ => repeat 0%Z w) l) [] = repeat 0%Z w.
Proof.
  revert r. induction l as [|x l IH]; intros r H; [cbn in H; lia|]. destruct r; [reflexivity|].
  cbn. apply IH. cbn in H. lia.
Qed.

Theorem cover_table c zero :
  ValidCover c zero ->
  let n := length (vertex_ids c) in let w := largest c in
  exists t, count_cover zero c (map (fun _ => repeat 0%Z w) (vertex_ids c)) = Some t /\
            length t = n /\ rect w t /\
            forall r j, r < n -> j < w -> get t r j = Z.of_nat (count_cl c (S j) (zero + Z.of_nat r)).
Proof.
  intros V n w. set (t0 := map (fun _ => repeat 0%Z w) (vertex_ids c)).
  assert (Hlen0 : length t0 = n) by (unfold t0; apply map_length).
  assert (Hrect0 : rect w t0).
  { unfold rect, t0. apply Forall_map. apply Forall_forall. intros x _. apply repeat_length. }
  exists (apply_log (cover_log zero c) t0). split; [|split; [|split]].
  - apply count_cover_ok. rewrite Hlen0. apply valid_in_rows. exact V.
  - rewrite apply_log_length. exact Hlen0.
  - apply apply_log_rect. exact Hrect0.
  - intros r j Hr Hj.
    assert (LV : log_valid (cover_log zero c) t0).
    { eapply (rect_log_valid w n); [exact Hrect0|exact Hlen0|].
      unfold cover_log. apply Forall_forall. intros p Hp. apply in_flat_map in Hp.
      destruct Hp as (cl & Hcl & Hp). apply in_map_iff in Hp. destruct Hp as (v & <- & Hv). cbn [fst snd].
      pose proof (valid_in_rows c zero V) as IR. rewrite Forall_forall in IR. specialize (IR cl Hcl).
      unfold in_rows in IR. rewrite Forall_forall in IR. specialize (IR v Hv). split; [|fold n in IR; lia].
      assert (length cl <= w) by (unfold w, largest; apply le_fold_max; apply in_map; exact Hcl).
      destruct cl; [contradiction|cbn [length] in *; lia]. }
    rewrite get_apply_log by exact LV. unfold get, t0. rewrite nth_const_rows by exact Hr.
    rewrite nth_repeat_z. rewrite cnt_cover_log; [lia|exact (vc_nodup _ _ V)|].
    apply Forall_forall. intros cl Hcl. apply Forall_forall. intros v Hv.
    assert (H : In v (concat c)) by (apply in_concat; exists cl; split; assumption).
    apply (vc_contig _ _ V) in H. lia.
Qed.

(* ====================================================================== *)
(* all-zero columns = clique sizes that do not occur *)
Definition has_size (c : cover) (s : nat) : bool := existsb (fun cl => length cl =? s) c.

Lemma has_size_false c s cl : has_size c s = false -> In cl c -> (length cl =? s) = false.
Proof.
  intros H Hcl. destruct (length cl =? s) eqn:E; [|reflexivity].
  assert (T : has_size c s = true) by (apply existsb_exists; exists cl; split; assumption). congruence.
Qed.

Lemma count_cl_none c s x : has_size c s = false -> count_cl c s x = 0.
Proof.
  intros H. unfold count_cl. rewrite filter_all_false; [reflexivity|].
  intros cl Hcl. rewrite (has_size_false c s cl H Hcl). reflexivity.
Qed.

Lemma count_cl_pos c s x cl : In cl c -> length cl = s -> In x cl -> 0 < count_cl c s x.
Proof.
  intros Hcl Hs Hx. unfold count_cl.
  assert (H : In cl (filter (fun cl0 => (length cl0 =? s) && zmem x cl0) c)).
  { apply filter_In. split; [exact Hcl|]. apply andb_true_iff. split; [apply Nat.eqb_eq; exact Hs|apply zmem_In; exact Hx]. }
  destruct (filter _ c); [contradiction|cbn; lia].
Qed.

Lemma forallb_nth {A} (f : A -> bool) l d :
  forallb f l = true <-> forall r, r < length l -> f (nth r l d) = true.
Proof.
  rewrite forallb_forall. split.
  - intros H r Hr. apply H. apply nth_In. exact Hr.
  - intros H x Hx. destruct (In_nth l x d Hx) as (r & Hr & <-). apply H. exact Hr.
Qed.

Lemma zero_col_iff c zero t j :
  ValidCover c zero -> length t = length (vertex_ids c) ->
  (forall r j, r < length (vertex_ids c) -> j < largest c ->
     get t r j = Z.of_nat (count_cl c (S j) (zero + Z.of_nat r))) ->
  j < largest c ->
  forallb (fun row => Z.eqb (nth j row 0%Z) 0) t = negb (has_size c (S j)).
Proof.
  intros V Hlen G Hj. destruct (has_size c (S j)) eqn:E; cbn [negb].
  - apply existsb_exists in E. destruct E as (cl & Hcl & Hs). apply Nat.eqb_eq in Hs.
    destruct cl as [|v cl']; [discriminate|].
    assert (Hv : In v (concat c)) by (apply in_concat; exists (v :: cl'); split; [exact Hcl|left; reflexivity]).
    apply (vc_contig _ _ V) in Hv. set (r := Z.to_nat (v - zero)).
    assert (Hr : r < length (vertex_ids c)) by (unfold r; lia).
    destruct (forallb _ t) eqn:F; [|reflexivity]. exfalso.
    rewrite (forallb_nth _ t []) in F. specialize (F r ltac:(lia)). apply Z.eqb_eq in F.
    fold (get t r j) in F. rewrite (G r j Hr Hj) in F.
    replace (zero + Z.of_nat r)%Z with v in F by (unfold r; lia).
    pose proof (count_cl_pos c (S j) v (v :: cl') Hcl Hs (or_introl eq_refl)). lia.
  - apply (forallb_nth _ t []). intros r Hr. fold (get t r j). rewrite G by (try lia; exact Hj).
    rewrite count_cl_none by exact E. reflexivity.
Qed.

(* ====================================================================== *)
(* deleting a set of columns from the right *)
Fixpoint DescBelow (ds : list nat) (m : nat) : Prop :=
  match ds with [] => True | d :: ds' => d < m /\ DescBelow ds' d end.

Lemma DescBelow_mono ds m m' : DescBelow ds m -> m <= m' -> DescBelow ds m'.
Proof. destruct ds; cbn; [auto|]. intros [H1 H2] H. split; [lia|exact H2]. Qed.

Lemma rev_filter_desc p w : DescBelow (rev (filter p (seq 0 w))) w.
Proof.
  induction w as [|w IH]; [exact Logic.I|]. rewrite seq_S, filter_app, rev_app_distr. cbn [filter Nat.add].
  destruct (p w); cbn [rev app].
  - split; [lia|exact IH].
  - eapply DescBelow_mono; [exact IH|lia].
Qed.

Lemma del_nth_app {A} i (a : list A) x : i < length a -> del_nth i (a ++ [x]) = del_nth i a ++ [x].
Proof.
  revert i. induction a as [|y a IH]; intros i H; cbn in H; [lia|]. destruct i; cbn; [reflexivity|].
  f_equal. apply IH. lia.
Qed.

Lemma del_nth_length {A} i (a : list A) : i < length a -> length (del_nth i a) = length a - 1.
Proof.
  revert i. induction a as [|y a IH]; intros i H; cbn in H; [lia|]. destruct i; cbn; [lia|].
  rewrite IH by lia. lia.
Qed.

Lemma del_nth_last {A} (a : list A) x : del_nth (length a) (a ++ [x]) = a.
Proof. induction a as [|y a IH]; cbn; [reflexivity|]. f_equal. exact IH. Qed.

Definition del_all (ds : list nat) (row : list Z) : list Z := fold_left (fun r i => del_nth i r) ds row.

Lemma del_all_app_last ds a x : DescBelow ds (length a) -> del_all ds (a ++ [x]) = del_all ds a ++ [x].
Proof.
  revert a. induction ds as [|d ds IH]; intros a H; [reflexivity|]. destruct H as [H1 H2].
  cbn [del_all fold_left]. rewrite del_nth_app by exact H1. apply IH.
  rewrite del_nth_length by exact H1. eapply DescBelow_mono; [exact H2|lia].
Qed.

Lemma del_all_filter p w : forall row, length row = w ->
  del_all (rev (filter p (seq 0 w))) row = map (fun j => nth j row 0%Z) (filter (fun j => negb (p j)) (seq 0 w)).
Proof.
  induction w as [|w IH]; intros row Hlen.
  - destruct row; [reflexivity|discriminate].
  - destruct (exists_last (l := row)) as (a & x & ->); [intros ->; discriminate|].
    rewrite app_length in Hlen. cbn in Hlen. assert (Ha : w = length a) by lia. subst w.
    rewrite seq_S, !filter_app, rev_app_distr. cbn [filter Nat.add].
    destruct (p (length a)) eqn:E; cbn [rev app negb].
    + unfold del_all. cbn [fold_left]. rewrite del_nth_last. fold (del_all (rev (filter p (seq 0 (length a)))) a).
      rewrite IH by reflexivity. rewrite app_nil_r. apply map_ext_in. intros j Hj. apply filter_In in Hj.
      destruct Hj as [Hj _]. apply in_seq in Hj. rewrite app_nth1 by lia. reflexivity.
    + rewrite del_all_app_last by apply rev_filter_desc. rewrite IH by reflexivity.
      rewrite map_app. cbn [map]. rewrite app_nth2 by lia. replace (length a - length a) with 0 by lia. cbn [nth].
      f_equal. apply map_ext_in. intros j Hj. apply filter_In in Hj.
      destruct Hj as [Hj _]. apply in_seq in Hj. rewrite app_nth1 by lia. reflexivity.
Qed.

Lemma delete_cols_rows idx t : delete_cols idx t = map (del_all (rev idx)) t.
Proof.
  unfold delete_cols. generalize (rev idx) as ds. intros ds. revert t.
  induction ds as [|d ds IH]; intros t; cbn [fold_left].
  - symmetry. apply map_id.
  - rewrite IH, map_map. reflexivity.
Qed.

(* ====================================================================== *)
(* the rows the loader tabulates *)
Definition kept_cols (c : cover) : list nat := filter (fun j => has_size c (S j)) (seq 0 (largest c)).

Lemma filter_map_comm {A B} (q : B -> bool) (h : A -> B) l : filter q (map h l) = map h (filter (fun x => q (h x)) l).
Proof. induction l as [|x l IH]; [reflexivity|]. cbn [map filter]. destruct (q (h x)); cbn [map]; rewrite IH; reflexivity. Qed.

Lemma existsb_len_has_size c s : existsb (Nat.eqb s) (map (@length Z) c) = has_size c s.
Proof.
  unfold has_size. induction c as [|cl c IH]; [reflexivity|]. cbn [map existsb]. rewrite IH, (Nat.eqb_sym s). reflexivity.
Qed.

Lemma motif_sizes_kept c : Forall (fun cl => cl <> []) c -> motif_sizes c = map S (kept_cols c).
Proof.
  intros Hne. unfold motif_sizes, sorted_set, kept_cols, largest.
  set (w := fold_right Nat.max 0 (map (@length Z) c)). cbn [seq filter].
  rewrite existsb_len_has_size.
  assert (H0 : has_size c 0 = false).
  { unfold has_size. destruct (existsb _ c) eqn:E; [|reflexivity]. apply existsb_exists in E.
    destruct E as (cl & Hcl & E). apply Nat.eqb_eq in E. rewrite Forall_forall in Hne.
    specialize (Hne cl Hcl). destruct cl; [contradiction|discriminate]. }
  rewrite H0. rewrite <- seq_shift, filter_map_comm. f_equal. apply filter_ext. intros j.
  apply existsb_len_has_size.
Qed.

Lemma map_via_seq {A B} (F : A -> B) (l : list A) d :
  map F l = map (fun r => F (nth r l d)) (seq 0 (length l)).
Proof. rewrite (map_nth_seq l d) at 1. rewrite map_map. reflexivity. Qed.

Theorem cover_rows_spec c zero :
  ValidCover c zero ->
  cover_rows c = Ok (map (fun r => spec_row c (motif_sizes c) (zero + Z.of_nat r))
                         (seq 0 (length (vertex_ids c)))).
Proof.
  intros V. unfold cover_rows. rewrite (valid_zmin c zero V).
  assert (Ez : (if Z.eqb zero 0 then 0%Z else 1%Z) = zero) by (destruct (vc_zero _ _ V) as [->| ->]; reflexivity).
  rewrite Ez. destruct (cover_table c zero V) as (t & Ht & Hlen & Hrect & G). rewrite Ht. f_equal.
  rewrite delete_cols_rows. rewrite (motif_sizes_kept c (vc_nonempty _ _ V)).
  rewrite (map_via_seq _ t []). rewrite Hlen. apply map_ext_in. intros r Hr. apply in_seq in Hr.
  unfold zero_cols. rewrite del_all_filter by (apply (rect_nth (largest c)); [exact Hrect|lia]).
  unfold spec_row, kept_cols. rewrite map_map.
  rewrite (filter_ext_in (fun j => negb (forallb (fun row => Z.eqb (nth j row 0%Z) 0) t)) (fun j => has_size c (S j))).
  - apply map_ext_in. intros j Hj. apply filter_In in Hj. destruct Hj as [Hj _]. apply in_seq in Hj.
    fold (get t r j). apply G; lia.
  - intros j Hj. apply in_seq in Hj. rewrite (zero_col_iff c zero t j V Hlen G) by lia. apply negb_involutive.
Qed.

(* number of columns = number of reported sizes *)
Corollary cover_rows_width c zero rows :
  ValidCover c zero -> cover_rows c = Ok rows -> Forall (fun row => length row = length (motif_sizes c)) rows.
Proof.
  intros V E. rewrite (cover_rows_spec c zero V) in E. injection E as <-. apply Forall_map.
  apply Forall_forall. intros r _. unfold spec_row. apply map_length.
Qed.

(* ====================================================================== *)
(* specification, checker equivalence, and the model satisfies it *)
Definition CoverSpec (c : cover) (sizes : list nat) (obs : dist) : Prop :=
  SizesSpec c sizes /\
  (let rows := map (spec_row c sizes) (vertex_ids c) in
   LawSpec tol (fun k => In k rows) (fun k => qfrac (count_key k rows) (length (vertex_ids c))) obs) /\
  NonNeg obs.

Theorem cover_check_iff c sizes obs : cover_check c sizes obs = true <-> CoverSpec c sizes obs.
Proof.
  unfold cover_check, CoverSpec. rewrite !andb_true_iff, sizes_check_iff, nonneg_vals_iff.
  rewrite (law_check_iff tol _ (fun k => In k (map (spec_row c sizes) (vertex_ids c))))
    by (intros k; apply first_occ_In).
  tauto.
Qed.

Lemma count_key_perm k l1 l2 : Permutation l1 l2 -> count_key k l1 = count_key k l2.
Proof. induction 1; cbn [count_key]; lia. Qed.

Lemma valid_ids_perm c zero :
  ValidCover c zero ->
  Permutation (vertex_ids c) (map (fun r => (zero + Z.of_nat r)%Z) (seq 0 (length (vertex_ids c)))).
Proof.
  intros V. apply NoDup_Permutation.
  - apply znodup_NoDup.
  - apply FinFun.Injective_map_NoDup; [intros a b H; lia|apply seq_NoDup].
  - intros x. unfold vertex_ids at 1. rewrite znodup_In, (vc_contig _ _ V), in_map_iff. split.
    + intros H. exists (Z.to_nat (x - zero)). split; [lia|apply in_seq; lia].
    + intros (r & <- & Hr). apply in_seq in Hr. lia.
Qed.

Theorem cover_loader_satisfies_spec c zero :
  ValidCover c zero ->
  exists rows d, cover_loader c = Ok (motif_sizes c, rows, d) /\ d = empirical rows /\
                 CoverSpec c (motif_sizes c) d.
Proof.
  intros V. unfold cover_loader. rewrite (cover_rows_spec c zero V).
  set (n := length (vertex_ids c)). set (sizes := motif_sizes c).
  set (rows := map (fun r => spec_row c sizes (zero + Z.of_nat r)) (seq 0 n)).
  exists rows, (empirical rows). split; [reflexivity|]. split; [reflexivity|].
  assert (P : Permutation (map (spec_row c sizes) (vertex_ids c)) rows).
  { unfold rows. rewrite <- (map_map (fun r => (zero + Z.of_nat r)%Z) (spec_row c sizes)).
    apply Permutation_map. apply valid_ids_perm. exact V. }
  assert (Hlen : length rows = n) by (unfold rows; rewrite map_length, seq_length; reflexivity).
  split; [apply motif_sizes_spec|]. split; [|apply empirical_nonneg].
  cbv zeta. destruct (empirical_spec tol rows tol_nonneg) as (H1 & H2 & H3). split; [exact H1|]. split.
  - intros k. rewrite H2. split; intros H.
    + eapply Permutation_in; [apply Permutation_sym; exact P|exact H].
    + eapply Permutation_in; [exact P|exact H].
  - eapply Forall_impl; [|exact H3]. intros [k v] H. cbn [fst snd] in *.
    rewrite (count_key_perm k _ _ P). rewrite Hlen in H. exact H.
Qed.

(* the clique-size profile: column j of the tabulated rows totals size_j * #cliques of that size *)
Lemma count_cl_sum c s (vs : list Z) :
  NoDup vs -> Forall (fun cl => NoDup cl) c -> (forall cl x, In cl c -> In x cl -> In x vs) ->
  list_sum (map (count_cl c s) vs) = s * length (filter (fun cl => length cl =? s) c).
Proof.
  intros Hvs Hnd Hin. induction c as [|cl c IH].
  - assert (Z0 : forall l : list Z, list_sum (map (count_cl [] s) l) = 0) by (induction l; cbn; auto).
    rewrite Z0. cbn. lia.
  - inversion Hnd as [|? ? Hcl Hnd']; subst.
    rewrite (map_ext _ (fun v => (if (length cl =? s) && zmem v cl then 1 else 0) + count_cl c s v))
      by (intros v; apply count_cl_cons).
    assert (Split : forall (f g : Z -> nat) l, list_sum (map (fun v => f v + g v) l) = list_sum (map f l) + list_sum (map g l)).
    { intros f g l. induction l as [|y l IHl]; [reflexivity|]. cbn [map]. rewrite !list_sum_cons, IHl. lia. }
    rewrite Split, IH; [|exact Hnd'|intros cl0 x H1 H2; apply (Hin cl0 x); [right; exact H1|exact H2]].
    cbn [filter]. destruct (Nat.eqb_spec (length cl) s) as [Es|Es]; cbn [andb length].
    + assert (Hc : list_sum (map (fun v => if zmem v cl then 1 else 0) vs) = length cl).
      { assert (Hsub : forall x, In x cl -> In x vs) by (intros x Hx; apply (Hin cl x); [left; reflexivity|exact Hx]).
        clear - Hvs Hcl Hsub. revert cl Hcl Hsub. induction vs as [|v vs IHv]; intros cl Hcl Hsub.
        - destruct cl as [|x cl]; [reflexivity|]. destruct (Hsub x (or_introl eq_refl)).
        - inversion Hvs as [|? ? Hv Hvs']; subst. cbn [map]. rewrite list_sum_cons.
          destruct (zmem v cl) eqn:M.
          + apply zmem_In in M. destruct (in_split _ _ M) as (l1 & l2 & ->).
            assert (Hcl' : NoDup (l1 ++ l2)) by (apply NoDup_remove_1 in Hcl; exact Hcl).
            assert (Hv' : ~ In v (l1 ++ l2)) by (apply NoDup_remove_2 in Hcl; exact Hcl).
            rewrite (map_ext_in _ (fun y => if zmem y (l1 ++ l2) then 1 else 0)).
            * rewrite (IHv Hvs' (l1 ++ l2) Hcl').
              -- rewrite !app_length. cbn [length]. lia.
              -- intros x Hx. assert (Hx' : In x (l1 ++ v :: l2)) by (apply in_app_iff in Hx; apply in_app_iff; cbn; tauto).
                 destruct (Hsub x Hx') as [->|H]; [contradiction|exact H].
            * intros y Hy. assert (y <> v) by (intros ->; contradiction).
              destruct (zmem y (l1 ++ v :: l2)) eqn:A, (zmem y (l1 ++ l2)) eqn:B; try reflexivity.
              -- apply zmem_In in A. apply in_app_iff in A. cbn in A.
                 assert (In y (l1 ++ l2)) by (apply in_app_iff; destruct A as [A|[A|A]]; [tauto|congruence|tauto]).
                 apply zmem_In in H0. congruence.
              -- apply zmem_In in B. assert (In y (l1 ++ v :: l2)) by (apply in_app_iff in B; apply in_app_iff; cbn; tauto).
                 apply zmem_In in H0. congruence.
          + rewrite (IHv Hvs' cl Hcl); [lia|]. intros x Hx. destruct (Hsub x Hx) as [->|H]; [|exact H].
            apply zmem_In in Hx. congruence. }
      rewrite Hc. lia.
    + assert (Z0 : list_sum (map (fun _ : Z => 0) vs) = 0) by (clear; induction vs; cbn; auto). rewrite Z0. lia.
Qed.

Lemma zsum_of_nat (l : list nat) : zsum (map Z.of_nat l) = Z.of_nat (list_sum l).
Proof. induction l as [|x l IH]; [reflexivity|]. cbn [map]. rewrite zsum_cons, list_sum_cons, IH. lia. Qed.

(* "reproduces the clique-size profile": the j-th column of the tabulated rows totals
   motif_sizes[j] * (number of cover cliques of that size) -- the stub count C01 divides by the size *)
Theorem cover_profile c zero rows :
  ValidCover c zero -> cover_rows c = Ok rows ->
  forall j, j < length (motif_sizes c) ->
    let s := nth j (motif_sizes c) 0 in
    zsum (col j rows) = Z.of_nat (s * length (filter (fun cl => length cl =? s) c)).
Proof.
  intros V E j Hj s. rewrite (cover_rows_spec c zero V) in E. injection E as <-.
  set (n := length (vertex_ids c)). set (vs := map (fun r => (zero + Z.of_nat r)%Z) (seq 0 n)).
  assert (Hcol : col j (map (fun r => spec_row c (motif_sizes c) (zero + Z.of_nat r)) (seq 0 n))
                 = map Z.of_nat (map (count_cl c s) vs)).
  { unfold col, vs. rewrite !map_map. apply map_ext. intros r. unfold spec_row.
    rewrite (nth_indep _ 0%Z (Z.of_nat (count_cl c 0 (zero + Z.of_nat r)))) by (rewrite map_length; exact Hj).
    rewrite (map_nth (fun s0 => Z.of_nat (count_cl c s0 (zero + Z.of_nat r)))). reflexivity. }
  rewrite Hcol, zsum_of_nat. f_equal. apply count_cl_sum.
  - unfold vs. apply FinFun.Injective_map_NoDup; [intros a b H; lia|apply seq_NoDup].
  - exact (vc_nodup _ _ V).
  - intros cl x Hcl Hx. assert (H : In x (concat c)) by (apply in_concat; exists cl; split; assumption).
    apply (vc_contig _ _ V) in H. unfold vs. apply in_map_iff. exists (Z.to_nat (x - zero)).
    split; [lia|apply in_seq; fold n in H; lia].
Qed.

(* malformed covers *)
Lemma cover_rows_empty : cover_rows [] = Err E_Value.
Proof. reflexivity. Qed.
