(* C11, growth 2 (audit finding F7): a run of the rewiring model on a well-formed network never fails in
   the APPLY step, and the error statuses that remain possible are classified exactly.

   [step] halts with [Failed c] at these sites of the code:
     draw_edge        E_PROTOCOL (oracle index out of range)      E_KEY (drawn code is not an edge)
     corner answers   E_PROTOCOL (not a permutation of the real corner)
     attrs            E_KEY      (G.edges[e] on a corner edge)
     swap_pre         E_MCMC / E_KEY (hashmap_e1s[topology] exhausted / missing), E_INDEX (jd[index]),
                      E_MCMC (denominator 0)
     apply_swap       E_MCMC (edge already present, edge-count mismatch), E_NX (remove_edge), E_KEY (draw set)
     enter_outer      E_INDEX (random.choice([]))
     wrong event kind E_PROTOCOL
   Proved here: under the run invariant (every well-formed start network) only
     E_PROTOCOL  -- exactly when the oracle answer is invalid ([ev_ok] = false),
     E_INDEX     -- only from jd[index] in the swap condition, and then an edge of the CURRENT graph (hence of
                    the start graph) has an end point whose annotation is too short for its topology index;
                    or the start network has no edge (random.choice([]) at once),
     E_MCMC      -- only the zero denominator of the swap condition (a stored target weight that is not > 0)
   can occur; E_KEY, E_NX and the two E_MCMC of apply can not. *)
From Coq Require Import List ZArith QArith Bool Arith Lia Permutation.
From GV Require Import Lib.Tree Model.DrawSet Proofs.DrawSetP Model.Mcmc Proofs.McmcP Proofs.McmcCheckP.
Import ListNotations.
Local Open Scope Z_scope.

(* ================================================================== the two optional hypotheses *)
(* every edge's topology index is a position of the annotation (joint degree tuple) of both end points *)
Definition annot_ok (nodes : list (list Z)) (e : edge) : bool :=
  Nat.ltb (et e) (length (jd_of nodes (ea e))) && Nat.ltb (et e) (length (jd_of nodes (eb e))).
Definition annotb (nodes : list (list Z)) (es : list edge) : bool := forallb (annot_ok nodes) es.
(* every stored target weight is positive *)
Definition posb (tg : target) : bool := forallb (forallb (fun kq : list Z * Q => qpos (snd kq))) tg.
Definition PosT (tg : target) : Prop := forall t k q, tlookup tg t k = Some q -> (0 < q)%Q.

Lemma klookup_in m k q : klookup m k = Some q -> exists k', In (k', q) m.
Proof.
  induction m as [|[k' q'] m IH]; cbn; [discriminate|]. destruct (zs_eqb k k').
  - intros [= <-]. exists k'. left. reflexivity.
  - intros H. destruct (IH H) as [k2 H2]. exists k2. right. exact H2.
Qed.

Lemma posb_PosT tg : posb tg = true -> PosT tg.
Proof.
  unfold posb, PosT, tlookup. rewrite forallb_forall. intros H t k q Hl.
  apply klookup_in in Hl. destruct Hl as [k' Hin].
  destruct (nth_in_or_default t tg []) as [Hn|Hn].
  - apply H in Hn. rewrite forallb_forall in Hn. apply Hn in Hin. cbn in Hin. apply qpos_spec. exact Hin.
  - rewrite Hn in Hin. destruct Hin.
Qed.

(* ------------------------------------------------------------------ jd[index] *)
Lemma dec_nth_some t : forall l, (t < length l)%nat -> exists r, dec_nth t l = Some r.
Proof.
  induction t as [|t IH]; intros [|x l] H; cbn in *; try lia.
  - eexists; reflexivity.
  - destruct (IH l) as [r Hr]; [lia|]. rewrite Hr. eexists; reflexivity.
Qed.

Lemma exk_ends nodes e : annot_ok nodes e = true ->
  (exists k, exk nodes (et e) (ea e) = Some k) /\ (exists k, exk nodes (et e) (eb e) = Some k).
Proof.
  unfold annot_ok, exk. rewrite andb_true_iff, !Nat.ltb_lt. intros [A B].
  split; apply dec_nth_some; assumption.
Qed.

Lemma exk_touch nodes u e : annot_ok nodes e = true -> touches u e = true -> exists k, exk nodes (et e) u = Some k.
Proof.
  intros A T. destruct (exk_ends nodes e A) as [X Y]. apply touches_iff in T. destruct T as [<-|<-]; assumption.
Qed.

Lemma exk_other nodes u e : annot_ok nodes e = true -> exists k, exk nodes (et e) (other u e) = Some k.
Proof.
  intros A. destruct (exk_ends nodes e A) as [X Y]. unfold other. destruct (ea e =? u); assumption.
Qed.

(* ------------------------------------------------------------------ hashmap_e1s[topology].pop() *)
Lemma countn_cons t x l : countn t (x :: l) = ((if Nat.eqb t x then 1 else 0) + countn t l)%nat.
Proof. unfold countn. cbn. destruct (Nat.eqb t x); reflexivity. Qed.

Lemma countn_perm t l1 l2 : Permutation l1 l2 -> countn t l1 = countn t l2.
Proof.
  induction 1 as [|x l l' _ IH|x y l|l l' l'' _ IH1 _ IH2]; rewrite ?countn_cons; try lia; reflexivity.
Qed.

Lemma pop_topo_none t rem : pop_topo t rem = None -> countn t (map et rem) = O.
Proof.
  induction rem as [|x r IH]; cbn [pop_topo map]; [reflexivity|].
  destruct (Nat.eqb_spec (et x) t) as [E|E]; [discriminate|].
  destruct (pop_topo t r) as [[y r']|]; [discriminate|]. intros _.
  rewrite countn_cons. destruct (Nat.eqb_spec t (et x)); [congruence|]. rewrite IH; reflexivity.
Qed.

(* the numerator loop: with as many e1 of every topology as e0 (the topo_eq clause of [suitable]) the pop never
   fails; the only error is jd[index] on a vertex whose annotation is too short *)
Lemma num_loop_err fixed nodes tg u0 v0 all1 : forall a0 rem props top c,
  (forall t, (countn t (map et a0) <= countn t (map et rem))%nat) ->
  (forall e, In e a0 -> touches u0 e = true) -> (forall e, In e rem -> touches v0 e = true) ->
  num_loop fixed nodes tg u0 v0 all1 a0 rem props top = NumErr c ->
  c = E_INDEX /\ ~ (forall e, In e (a0 ++ rem) -> annot_ok nodes e = true).
Proof.
  induction a0 as [|e0 a0 IH]; intros rem props top c Hc H0 H1 H; cbn [num_loop] in H; [discriminate|].
  cbv zeta in H.
  destruct (pop_topo (et e0) rem) as [[e1 rem1]|] eqn:P.
  2:{ exfalso. apply pop_topo_none in P. specialize (Hc (et e0)). cbn [map] in Hc. rewrite countn_cons, Nat.eqb_refl in Hc. lia. }
  destruct (pop_topo_spec _ _ _ _ P) as [Et Hperm].
  assert (He1 : In e1 rem) by (eapply Permutation_in; [apply Permutation_sym; exact Hperm|left; reflexivity]).
  assert (A : (forall e, In e ((e0 :: a0) ++ rem) -> annot_ok nodes e = true) ->
              (exists k, exk nodes (et e0) u0 = Some k) /\ (exists k, exk nodes (et e0) (other u0 e0) = Some k) /\
              (exists k, exk nodes (et e0) v0 = Some k) /\ (exists k, exk nodes (et e0) (other v0 e1) = Some k)).
  { intros Hall.
    assert (A0 : annot_ok nodes e0 = true) by (apply Hall; left; reflexivity).
    assert (A1 : annot_ok nodes e1 = true) by (apply Hall; apply in_app_iff; right; exact He1).
    split; [apply exk_touch; [exact A0|apply H0; left; reflexivity]|].
    split; [apply exk_other; exact A0|]. rewrite <- Et.
    split; [apply exk_touch; [exact A1|apply H1; exact He1]|apply exk_other; exact A1]. }
  destruct (exk nodes (et e0) u0) eqn:X1; destruct (exk nodes (et e0) (other u0 e0)) eqn:X2;
    destruct (exk nodes (et e0) v0) eqn:X3; destruct (exk nodes (et e0) (other v0 e1)) eqn:X4;
    try (injection H as <-; split; [reflexivity|];
         intros Hall; destruct (A Hall) as [[? Y1] [[? Y2] [[? Y3] [? Y4]]]]; congruence).
  match type of H with (if ?b then _ else _) = _ => destruct b; [discriminate|] end.
  destruct (tlookup tg (et e0) _); [|discriminate].
  destruct (tlookup tg (et e0) _); [|discriminate].
  match type of H with (if ?b then _ else _) = _ => destruct b; [discriminate|] end.
  apply IH in H.
  - destruct H as [Hc' Hn]. split; [exact Hc'|]. intros Hall. apply Hn. intros e He. apply Hall.
    apply in_app_iff in He. destruct He as [He|He]; [apply in_app_iff; left; right; exact He|].
    apply in_app_iff. right. eapply Permutation_in; [apply Permutation_sym; exact Hperm|right; exact He].
  - intros t. specialize (Hc t). cbn [map] in Hc. rewrite countn_cons in Hc.
    rewrite (countn_perm t _ _ (Permutation_map et Hperm)) in Hc. cbn [map] in Hc. rewrite countn_cons, Et in Hc. lia.
  - intros e He. apply H0. right. exact He.
  - intros e He. apply H1. eapply Permutation_in; [apply Permutation_sym; exact Hperm|right; exact He].
Qed.

(* the denominator loop: the only error is jd[index] *)
Lemma den_loop_err nodes tg u0 v0 : forall a0 a1 bot c,
  (forall e, In e a0 -> touches u0 e = true) -> (forall e, In e a1 -> touches v0 e = true) ->
  den_loop nodes tg u0 v0 a0 a1 bot = DenErr c ->
  c = E_INDEX /\ ~ (forall e, In e (a0 ++ a1) -> annot_ok nodes e = true).
Proof.
  induction a0 as [|e0 a0 IH]; intros a1 bot c H0 H1 H; cbn [den_loop] in H; [discriminate|].
  destruct a1 as [|e1 a1]; [discriminate|]. cbv zeta in H.
  assert (A : (forall e, In e ((e0 :: a0) ++ e1 :: a1) -> annot_ok nodes e = true) ->
              (exists k, exk nodes (et e0) u0 = Some k) /\ (exists k, exk nodes (et e0) (other u0 e0) = Some k) /\
              (exists k, exk nodes (et e1) v0 = Some k) /\ (exists k, exk nodes (et e1) (other v0 e1) = Some k)).
  { intros Hall.
    assert (A0 : annot_ok nodes e0 = true) by (apply Hall; left; reflexivity).
    assert (A1 : annot_ok nodes e1 = true) by (apply Hall; apply in_app_iff; right; left; reflexivity).
    split; [apply exk_touch; [exact A0|apply H0; left; reflexivity]|].
    split; [apply exk_other; exact A0|].
    split; [apply exk_touch; [exact A1|apply H1; left; reflexivity]|apply exk_other; exact A1]. }
  destruct (exk nodes (et e0) u0) eqn:X1; destruct (exk nodes (et e0) (other u0 e0)) eqn:X2;
    destruct (exk nodes (et e1) v0) eqn:X3; destruct (exk nodes (et e1) (other v0 e1)) eqn:X4;
    try (injection H as <-; split; [reflexivity|];
         intros Hall; destruct (A Hall) as [[? Y1] [[? Y2] [[? Y3] [? Y4]]]]; congruence).
  destruct (tlookup tg (et e0) _); [|discriminate].
  destruct (tlookup tg (et e1) _); [|discriminate].
  apply IH in H.
  - destruct H as [Hc' Hn]. split; [exact Hc'|]. intros Hall. apply Hn. intros e He. apply Hall.
    apply in_app_iff in He. destruct He as [He|He]; apply in_app_iff; [left; right; exact He|right; right; exact He].
  - intros e He. apply H0. right. exact He.
  - intros e He. apply H1. right. exact He.
Qed.

Lemma den_loop_pos nodes tg u0 v0 : PosT tg -> forall a0 a1 bot bot',
  (0 < bot)%Q -> den_loop nodes tg u0 v0 a0 a1 bot = DenOk bot' -> (0 < bot')%Q.
Proof.
  intros HP. induction a0 as [|e0 a0 IH]; intros a1 bot bot' Hb H; cbn [den_loop] in H.
  - injection H as <-. exact Hb.
  - destruct a1 as [|e1 a1]; [injection H as <-; exact Hb|]. cbv zeta in H.
    destruct (exk nodes (et e0) u0); [|discriminate]. destruct (exk nodes (et e0) (other u0 e0)); [|discriminate].
    destruct (exk nodes (et e1) v0); [|discriminate]. destruct (exk nodes (et e1) (other v0 e1)); [|discriminate].
    destruct (tlookup tg (et e0) _) as [x|] eqn:Lx; [|discriminate].
    destruct (tlookup tg (et e1) _) as [y|] eqn:Ly; [|discriminate].
    apply IH in H; [exact H|]. apply HP in Lx, Ly.
    apply Qmult_lt_0_compat; [exact Hb|apply Qmult_lt_0_compat; assumption].
Qed.

(* ------------------------------------------------------------------ swap_condition *)
(* on genuine corners that [suitable] accepted, the swap condition raises only IndexError (short annotation)
   or the zero-denominator ErrorMarkovChainMonteCarloRewiring *)
Lemma swap_pre_err fixed nodes tg es u0 v0 m0 m1 a0 a1 c :
  Permutation a0 (corner_edges es u0 m0) -> Permutation a1 (corner_edges es v0 m1) ->
  suitable es u0 v0 a0 a1 = true ->
  swap_pre fixed nodes tg u0 v0 a0 a1 = PErr c ->
  (c = E_INDEX /\ ~ (forall e, In e (a0 ++ a1) -> annot_ok nodes e = true)) \/
  (c = E_MCMC /\ exists bot, den_loop nodes tg u0 v0 a0 a1 (1 # 1) = DenOk bot /\ Qeq_bool bot (0 # 1) = true).
Proof.
  intros G0 G1 Su H.
  assert (T0 : forall e, In e a0 -> touches u0 e = true).
  { intros e He. apply (Permutation_in _ G0) in He. apply corner_edges_In in He. tauto. }
  assert (T1 : forall e, In e a1 -> touches v0 e = true).
  { intros e He. apply (Permutation_in _ G1) in He. apply corner_edges_In in He. tauto. }
  assert (Hc : forall t, countn t (map et a0) = countn t (map et a1)).
  { unfold suitable in Su. rewrite !andb_true_iff in Su. destruct Su as [[[_ Ht] _] _]. apply topo_eq_spec. exact Ht. }
  unfold swap_pre in H.
  destruct (num_loop fixed nodes tg u0 v0 a1 a0 (rev a1) [] (1 # 1)) as [|cn|props top] eqn:En; [discriminate| |].
  - injection H as <-. left. apply num_loop_err in En.
    + destruct En as [E Hn]. split; [exact E|]. intros Hall. apply Hn. intros e He. apply Hall.
      apply in_app_iff in He. apply in_app_iff. destruct He as [He|He]; [left; exact He|right; apply in_rev; exact He].
    + intros t. rewrite Hc. rewrite (countn_perm t _ _ (Permutation_map et (Permutation_rev a1))). lia.
    + exact T0.
    + intros e He. apply T1. apply in_rev. exact He.
  - destruct (den_loop nodes tg u0 v0 a0 a1 (1 # 1)) as [|cd|bot] eqn:Ed; [discriminate| |].
    + injection H as <-. left. eapply den_loop_err; eauto.
    + destruct (Qeq_bool bot (0 # 1)) eqn:Eb; [|discriminate]. injection H as <-. right.
      split; [reflexivity|]. exists bot. split; [reflexivity|exact Eb].
Qed.

(* ... and with positive weights and sufficient annotations it does not raise at all *)
Lemma swap_pre_no_err fixed nodes tg es u0 v0 m0 m1 a0 a1 c :
  Permutation a0 (corner_edges es u0 m0) -> Permutation a1 (corner_edges es v0 m1) ->
  suitable es u0 v0 a0 a1 = true -> annotb nodes es = true -> PosT tg ->
  swap_pre fixed nodes tg u0 v0 a0 a1 <> PErr c.
Proof.
  intros G0 G1 Su Ha HP H. destruct (swap_pre_err _ _ _ _ _ _ _ _ _ _ _ G0 G1 Su H) as [[_ Hn]|[_ [bot [Hd Hb]]]].
  - apply Hn. intros e He. unfold annotb in Ha. rewrite forallb_forall in Ha. apply Ha.
    apply in_app_iff in He. destruct He as [He|He].
    + apply (Permutation_in _ G0) in He. apply corner_edges_In in He. tauto.
    + apply (Permutation_in _ G1) in He. apply corner_edges_In in He. tauto.
  - apply (den_loop_pos nodes tg u0 v0 HP) in Hd; [|reflexivity]. apply Qeq_bool_iff in Hb. rewrite Hb in Hd.
    discriminate.
Qed.

(* ------------------------------------------------------------------ the draw *)
Lemma draw_edge_err C s i c : Mirror (c_M C) (s_es s) (s_ds s) ->
  draw_edge C s i = Err c -> c = E_PROTOCOL /\ Nat.ltb i (length (edges (s_ds s))) = false.
Proof.
  intros [_ Hm]. unfold draw_edge, ds_draw. destruct (nth_error (edges (s_ds s)) i) as [k|] eqn:En.
  - assert (Hk : In k (map (enc (c_M C)) (s_es s))) by (apply Hm; eapply nth_error_In; eauto).
    apply in_map_iff in Hk. destruct Hk as [e [Ek He]]. unfold find_key.
    destruct (find (fun e1 => enc (c_M C) e1 =? k) (s_es s)) eqn:F; [discriminate|].
    exfalso. apply (find_none _ _ F) in He. apply Z.eqb_neq in He. congruence.
  - intros [= <-]. split; [reflexivity|]. apply Nat.ltb_ge. apply nth_error_None. exact En.
Qed.

Lemma draw_edge_ok_lt C s i e : draw_edge C s i = Ok e -> Nat.ltb i (length (edges (s_ds s))) = true.
Proof.
  unfold draw_edge, ds_draw. destruct (nth_error (edges (s_ds s)) i) eqn:En; [|discriminate]. intros _.
  apply Nat.ltb_lt. apply nth_error_Some. congruence.
Qed.

(* ------------------------------------------------------------------ the top of the loops *)
Lemma enter_outer_fail C s acc c s' acc' :
  enter_outer C s acc = Halt (Failed c) s' acc' -> edges (s_ds s) = [].
Proof.
  unfold enter_outer. destruct (Nat.leb (s_cc s) (c_climit C)); [|discriminate].
  destruct (edges (s_ds s)); [reflexivity|discriminate].
Qed.

Lemma enter_inner_fail C s e0 c0 sc c s' acc' :
  enter_inner C s e0 c0 sc = Halt (Failed c) s' acc' -> edges (s_ds s) = [].
Proof.
  unfold enter_inner. destruct (Nat.leb sc (c_slimit C)); [discriminate|]. apply enter_outer_fail.
Qed.

Lemma stinv_nonempty C es0 s : es0 <> [] -> StInv C es0 s -> edges (s_ds s) <> [].
Proof.
  intros Hne [[_ [_ [Hlen _]]] [_ Hm]] E. destruct (s_es s) as [|e es] eqn:Es.
  - destruct es0; [congruence|discriminate].
  - assert (X : In (enc (c_M C) e) (edges (s_ds s))) by (apply Hm; left; reflexivity). rewrite E in X. destruct X.
Qed.

(* ================================================================== valid oracle answers *)
(* the oracle answer fits the phase: a draw index below the size of the draw set, a corner that is a
   permutation of the real corner, a uniform number when the Metropolis test is due *)
Definition ev_ok (C : cfg) (ph : phase) (s : st) (e : ev) : bool :=
  match ph, e with
  | PhOuter, EDraw i => Nat.ltb i (length (edges (s_ds s)))
  | PhInner _ _ _, EDraw i => Nat.ltb i (length (edges (s_ds s)))
  | PhCorner0 e0, ECorner c => permb c (corner (s_es s) (ea e0) (em e0))
  | PhCorner1 _ _ _ e1, ECorner c => permb c (corner (s_es s) (ea e1) (em e1))
  | PhRandom _ _ _ _ _ _ _, ERandom _ => true
  | _, _ => false
  end.

(* an invalid answer always stops the run with the protocol status (no hypothesis) *)
Lemma step_bad_event C ph s e : ev_ok C ph s e = false -> step C ph s e = Halt (Failed E_PROTOCOL) s false.
Proof.
  destruct ph as [|e0|e0 c0 sc|e0 c0 sc e1|u0 v0 c0 c1 props top bot]; destruct e as [i|c|r]; cbn [ev_ok step];
    intros H; try reflexivity; try discriminate.
  - unfold draw_edge, ds_draw. apply Nat.ltb_ge in H. apply nth_error_None in H. rewrite H. reflexivity.
  - rewrite H. reflexivity.
  - unfold draw_edge, ds_draw. apply Nat.ltb_ge in H. apply nth_error_None in H. rewrite H. reflexivity.
  - rewrite H. reflexivity.
Qed.

(* the sites at which a run on a well-formed network with at least one edge can fail *)
Inductive FailSite (C : cfg) (ph : phase) (s : st) (e : ev) : Z -> Prop :=
| FS_protocol : ev_ok C ph s e = false -> FailSite C ph s e E_PROTOCOL
| FS_index e0 c0 sc e1 c1 a0 a1 :
    ph = PhCorner1 e0 c0 sc e1 -> e = ECorner c1 ->
    attrs (s_es s) (ea e0) c0 = Some a0 -> attrs (s_es s) (ea e1) c1 = Some a1 ->
    suitable (s_es s) (ea e0) (ea e1) a0 a1 = true ->
    swap_pre (c_fixed C) (c_nodes C) (c_target C) (ea e0) (ea e1) a0 a1 = PErr E_INDEX ->
    annotb (c_nodes C) (s_es s) = false ->
    FailSite C ph s e E_INDEX
| FS_denzero e0 c0 sc e1 c1 a0 a1 bot :
    ph = PhCorner1 e0 c0 sc e1 -> e = ECorner c1 ->
    attrs (s_es s) (ea e0) c0 = Some a0 -> attrs (s_es s) (ea e1) c1 = Some a1 ->
    suitable (s_es s) (ea e0) (ea e1) a0 a1 = true ->
    den_loop (c_nodes C) (c_target C) (ea e0) (ea e1) a0 a1 (1 # 1) = DenOk bot -> Qeq_bool bot (0 # 1) = true ->
    FailSite C ph s e E_MCMC.

Lemma forallb_false_of_not {A} (f : A -> bool) l l' :
  incl l' l -> ~ (forall x, In x l' -> f x = true) -> forallb f l = false.
Proof.
  intros Hi Hn. destruct (forallb f l) eqn:E; [|reflexivity]. exfalso. apply Hn. intros x Hx.
  rewrite forallb_forall in E. apply E. apply Hi. exact Hx.
Qed.

(* THE STEP LEMMA: under the run invariant a failing transition leaves the state untouched and is one of the
   three sites; in particular it is never the apply step *)
Lemma step_fail C es0 ph s e c s' acc :
  c_nE C = length es0 -> es0 <> [] -> StInv C es0 s -> PhInv C s ph ->
  step C ph s e = Halt (Failed c) s' acc -> s' = s /\ acc = false /\ FailSite C ph s e c.
Proof.
  intros HnE Hne HS HP. pose proof HS as [HH HM]. pose proof HH as [_ [HW [Hlen _]]].
  pose proof (stinv_nonempty C es0 s Hne HS) as Hd.
  destruct (ev_ok C ph s e) eqn:Eok.
  2:{ rewrite (step_bad_event C ph s e Eok). intros [= <- <- <-]. repeat split. apply FS_protocol. exact Eok. }
  destruct ph as [|e0|e0 c0 sc|e0 c0 sc e1|u0 v0 c0 c1 props top bot]; destruct e as [i|cx|r]; cbn [ev_ok] in Eok;
    try discriminate; cbn [step].
  - (* outer draw *)
    destruct (draw_edge C s i) as [e0|cc] eqn:D; [discriminate|].
    destruct (draw_edge_err C s i cc HM D) as [_ X]. congruence.
  - (* corner of u0 *)
    rewrite Eok. intros H. apply enter_inner_fail in H. contradiction.
  - (* inner draw *)
    destruct (draw_edge C s i) as [e1|cc] eqn:D.
    + destruct (Nat.eqb (et e1) (et e0)); discriminate.
    + destruct (draw_edge_err C s i cc HM D) as [_ X]. congruence.
  - (* corner of v0, suitability, swap condition *)
    destruct HP as [H0 [Hp0 H1]]. rewrite Eok.
    destruct (genuine_of_permb _ _ _ _ _ HW Hp0) as [a0 [A0 [G0 Hc0]]].
    destruct (genuine_of_permb _ _ _ _ _ HW Eok) as [a1 [A1 [G1 Hc1]]].
    rewrite A0, A1.
    destruct (suitable (s_es s) (ea e0) (ea e1) a0 a1) eqn:Su.
    2:{ intros H. apply enter_inner_fail in H. contradiction. }
    destruct (Nat.leb (c_slimit C) sc); [intros H; apply enter_outer_fail in H; contradiction|].
    destruct (swap_pre (c_fixed C) (c_nodes C) (c_target C) (ea e0) (ea e1) a0 a1) as [|cc|props top bot] eqn:Sp;
      [intros H; apply enter_outer_fail in H; contradiction| |discriminate].
    intros [= <- <- <-]. split; [reflexivity|]. split; [reflexivity|].
    destruct (swap_pre_err _ _ _ _ _ _ _ _ _ _ _ G0 G1 Su Sp) as [[-> Hn]|[-> [bot [Hden Hb]]]].
    + eapply FS_index; eauto. unfold annotb. apply (forallb_false_of_not _ _ (a0 ++ a1)); [|exact Hn].
      intros x Hx. apply in_app_iff in Hx. destruct Hx as [Hx|Hx].
      * apply (Permutation_in _ G0) in Hx. apply corner_edges_In in Hx. tauto.
      * apply (Permutation_in _ G1) in Hx. apply corner_edges_In in Hx. tauto.
    + eapply FS_denzero; eauto.
  - (* Metropolis draw: the apply step succeeds *)
    destruct HP as [m0 [m1 [a0 [a1 [prs [G0 [G1 [Hc0 [Hc1 [SF [Hf [Hs [Ht Hprops]]]]]]]]]]]]].
    destruct (accepts top bot r); [|intros H; apply enter_outer_fail in H; contradiction].
    destruct (apply_swap_ok (c_M C) (s_es s) u0 v0 m0 m1 a0 a1 (c_fixed C) prs (s_ds s) HW G0 G1 SF Hf Hs Ht HM)
      as [d' [Hap HM']].
    rewrite HnE, <- Hlen, Hc0, Hc1, Hprops, Hap. intros H. exfalso. apply enter_outer_fail in H.
    revert H. apply (stinv_nonempty C es0 _ Hne). split; [|exact HM']. cbn [s_es].
    eapply Hard_trans; [exact HH|]. eapply swap_hard; eauto.
Qed.

(* ================================================================== the run *)
(* the configurations (phase, state, oracle answer) a run passes through, in order *)
Definition site := (phase * st * ev)%type.
Fixpoint visited (C : cfg) (evs : list ev) (ph : phase) (s : st) : list site :=
  match evs with
  | [] => []
  | e :: evs' =>
      (ph, s, e) :: match step C ph s e with
                    | Go ph' s' _ => visited C evs' ph' s'
                    | Halt _ _ _ => []
                    end
  end.
Definition rewire_visited (C : cfg) (es0 : list edge) (evs : list ev) : list site :=
  match enter_outer C (mkS es0 (init_ds (c_M C) es0) O) false with
  | Go ph s _ => visited C evs ph s
  | Halt _ _ _ => []
  end.

Definition site_inv (C : cfg) (es0 : list edge) (x : site) : Prop :=
  StInv C es0 (snd (fst x)) /\ PhInv C (snd (fst x)) (fst (fst x)).

Lemma visited_inv C es0 : c_nE C = length es0 -> forall evs ph s,
  StInv C es0 s -> PhInv C s ph -> Forall (site_inv C es0) (visited C evs ph s).
Proof.
  intros HnE. induction evs as [|e evs IH]; intros ph s HS HP; cbn [visited]; [constructor|].
  constructor; [split; assumption|].
  pose proof (step_inv C es0 ph s e HnE HS HP) as Hn.
  destruct (step C ph s e) as [ph' s' acc|r s' acc]; cbn in Hn; [|constructor].
  destruct Hn as [HS' HP']. apply IH; assumption.
Qed.

Lemma rewire_visited_inv fixed nodes tg es0 sl cl evs :
  WF (Z.of_nat (length nodes)) es0 ->
  let C := mk_cfg fixed nodes tg es0 sl cl in Forall (site_inv C es0) (rewire_visited C es0 evs).
Proof.
  intros HW C. unfold rewire_visited.
  assert (HS0 : StInv C es0 (mkS es0 (init_ds (c_M C) es0) 0)).
  { split; [apply Hard_refl; exact HW|apply init_ds_mirror]. }
  pose proof (enter_outer_inv C es0 _ false HS0) as Hn.
  destruct (enter_outer C _ false) as [ph s acc|r s acc]; cbn in Hn; [|constructor].
  destruct Hn as [HS HP]. apply (visited_inv C es0 eq_refl evs ph s HS HP).
Qed.

(* whenever the Metropolis test is due -- i.e. [suitable] accepted the pair and the swap condition produced
   proposals -- the apply step on the current state succeeds *)
Definition apply_ok_at (C : cfg) (x : site) : Prop :=
  match fst (fst x) with
  | PhRandom u0 v0 c0 c1 props top bot =>
      exists es' d', apply_swap (c_M C) (c_nE C) (s_es (snd (fst x))) (s_ds (snd (fst x))) u0 v0 c0 c1 props
                     = Ok (es', d')
  | _ => True
  end.

Lemma site_inv_apply_ok C es0 x : c_nE C = length es0 -> site_inv C es0 x -> apply_ok_at C x.
Proof.
  destruct x as [[ph s] e]. intros HnE [HS HP]. unfold apply_ok_at. cbn [fst snd] in *.
  destruct ph as [| | | |u0 v0 c0 c1 props top bot]; try exact Logic.I.
  pose proof HS as [HH HM]. pose proof HH as [_ [HW [Hlen _]]].
  destruct HP as [m0 [m1 [a0 [a1 [prs [G0 [G1 [Hc0 [Hc1 [SF [Hf [Hs [Ht Hprops]]]]]]]]]]]]].
  destruct (apply_swap_ok (c_M C) (s_es s) u0 v0 m0 m1 a0 a1 (c_fixed C) prs (s_ds s) HW G0 G1 SF Hf Hs Ht HM)
    as [d' [Hap HM']].
  rewrite HnE, <- Hlen, Hc0, Hc1, Hprops, Hap. eexists. eexists. reflexivity.
Qed.

Theorem rewire_apply_ok fixed nodes tg es0 sl cl evs :
  WF (Z.of_nat (length nodes)) es0 ->
  let C := mk_cfg fixed nodes tg es0 sl cl in Forall (apply_ok_at C) (rewire_visited C es0 evs).
Proof.
  intros HW C. eapply Forall_impl; [|apply rewire_visited_inv; exact HW].
  intros x Hx. eapply site_inv_apply_ok; [|exact Hx]. reflexivity.
Qed.

(* a failed run failed at its last configuration, with the state untouched, at one of the three sites *)
Lemma run_fail C es0 : c_nE C = length es0 -> es0 <> [] -> forall evs ph s,
  StInv C es0 s -> PhInv C s ph ->
  forall c sf tr, run C evs ph s = (Failed c, sf, tr) ->
  exists pre ph' e', visited C evs ph s = pre ++ [(ph', sf, e')] /\
                     step C ph' sf e' = Halt (Failed c) sf false /\ FailSite C ph' sf e' c.
Proof.
  intros HnE Hne. induction evs as [|e evs IH]; intros ph s HS HP c sf tr H; cbn [run visited] in *; [discriminate|].
  pose proof (step_inv C es0 ph s e HnE HS HP) as Hn.
  destruct (step C ph s e) as [ph' s' acc|r s' acc] eqn:St; cbn in Hn.
  - destruct Hn as [HS' HP'].
    destruct (run C evs ph' s') as [[r1 sf1] tr1] eqn:Er. cbv beta iota zeta in H.
    assert (X : r1 = Failed c /\ sf1 = sf) by (split; congruence). destruct X as [-> ->]. clear H.
    destruct (IH ph' s' HS' HP' c sf tr1 Er) as [pre [ph2 [e2 [Hv [Hst Hf]]]]].
    exists ((ph, s, e) :: pre), ph2, e2. rewrite Hv. split; [reflexivity|]. split; assumption.
  - assert (X : r = Failed c /\ s' = sf) by (split; congruence). destruct X as [-> ->]. clear H.
    destruct (step_fail C es0 ph s e c sf acc HnE Hne HS HP St) as [-> [-> Hf]].
    exists [], ph, e. split; [reflexivity|]. split; [exact St|exact Hf].
Qed.

Theorem rewire_fail fixed nodes tg es0 sl cl evs :
  WF (Z.of_nat (length nodes)) es0 ->
  let C := mk_cfg fixed nodes tg es0 sl cl in
  forall c sf tr, rewire C es0 evs = (Failed c, sf, tr) ->
    (es0 = [] /\ c = E_INDEX) \/
    (es0 <> [] /\ exists pre ph e, rewire_visited C es0 evs = pre ++ [(ph, sf, e)] /\
                                  step C ph sf e = Halt (Failed c) sf false /\ FailSite C ph sf e c).
Proof.
  intros HW C c sf tr H.
  assert (D : es0 = [] \/ es0 <> []) by (destruct es0; [left; reflexivity|right; discriminate]).
  destruct D as [E|Hne].
  - left. split; [exact E|]. subst es0. cbn in H. congruence.
  - right. split; [exact Hne|].
    unfold rewire in H. unfold rewire_visited.
    assert (HS0 : StInv C es0 (mkS es0 (init_ds (c_M C) es0) 0)).
    { split; [apply Hard_refl; exact HW|apply init_ds_mirror]. }
    pose proof (enter_outer_inv C es0 _ false HS0) as Hn.
    destruct (enter_outer C _ false) as [ph s acc|r s acc] eqn:Eo; cbn in Hn.
    + destruct Hn as [HS HP]. apply (run_fail C es0 eq_refl Hne evs ph s HS HP c sf tr H).
    + exfalso. assert (X : r = Failed c) by congruence. rewrite X in Eo. apply enter_outer_fail in Eo. revert Eo. apply (stinv_nonempty C es0 _ Hne HS0).
Qed.

(* ------------------------------------------------------------------ the causes, seen from the start network *)
Lemma tdeg_pos es v t : (0 < tdeg es v t)%nat <-> exists e, In e es /\ et e = t /\ (ea e = v \/ eb e = v).
Proof.
  unfold tdeg. rewrite count_stub_pos_In. unfold stubs. rewrite in_flat_map. split.
  - intros [e [He [X|[X|[]]]]]; injection X as <- <-; exists e; tauto.
  - intros [e [He [<- [<-|<-]]]]; exists e; (split; [exact He|]); cbn; auto.
Qed.

Lemma annot_vertex nodes es v t : annotb nodes es = true -> (0 < tdeg es v t)%nat ->
  Nat.ltb t (length (jd_of nodes v)) = true.
Proof.
  unfold annotb. rewrite forallb_forall. intros Ha Hd. apply tdeg_pos in Hd. destruct Hd as [e [He [<- Hv]]].
  apply Ha in He. unfold annot_ok in He. apply andb_true_iff in He. destruct Hv as [<-|<-]; tauto.
Qed.

(* the per-vertex per-topology degrees are kept, so sufficient annotations of the start network stay sufficient *)
Lemma annot_kept nodes es0 es : (forall v t, tdeg es v t = tdeg es0 v t) -> annotb nodes es0 = true -> annotb nodes es = true.
Proof.
  intros Hd Ha. unfold annotb. apply forallb_forall. intros e He. unfold annot_ok. apply andb_true_iff.
  split; apply (annot_vertex nodes es0); try exact Ha; rewrite <- Hd; apply tdeg_pos; exists e; auto.
Qed.

Lemma den_zero_not_pos nodes tg u0 v0 a0 a1 bot :
  den_loop nodes tg u0 v0 a0 a1 (1 # 1) = DenOk bot -> Qeq_bool bot (0 # 1) = true -> ~ PosT tg.
Proof.
  intros Hd Hb HP. apply (den_loop_pos nodes tg u0 v0 HP) in Hd; [|reflexivity].
  apply Qeq_bool_iff in Hb. rewrite Hb in Hd. discriminate.
Qed.

(* the classification of the failure statuses of rewire on a well-formed network *)
Theorem rewire_failure_causes fixed nodes tg es0 sl cl evs :
  WF (Z.of_nat (length nodes)) es0 ->
  let C := mk_cfg fixed nodes tg es0 sl cl in
  forall c sf tr, rewire C es0 evs = (Failed c, sf, tr) ->
    (c = E_PROTOCOL /\ exists pre ph e, rewire_visited C es0 evs = pre ++ [(ph, sf, e)] /\ ev_ok C ph sf e = false) \/
    (c = E_INDEX /\ (es0 = [] \/ annotb nodes es0 = false)) \/
    (c = E_MCMC /\ ~ PosT tg).
Proof.
  intros HW C c sf tr H.
  pose proof (rewire_inv fixed nodes tg es0 sl cl evs HW) as Hinv. cbv zeta in Hinv. fold C in Hinv. rewrite H in Hinv.
  destruct Hinv as [[[_ [_ [_ [Hdeg _]]]] _] _].
  destruct (rewire_fail fixed nodes tg es0 sl cl evs HW c sf tr H) as [[E ->]|[Hne [pre [ph [e [Hv [_ Hf]]]]]]].
  - right. left. split; [reflexivity|left; exact E].
  - destruct Hf as [Hok|e0 c0 sc e1 c1 a0 a1 _ _ _ _ _ _ Ha|e0 c0 sc e1 c1 a0 a1 bot _ _ _ _ _ Hd Hb].
    + left. split; [reflexivity|]. exists pre, ph, e. split; [exact Hv|exact Hok].
    + right. left. split; [reflexivity|]. right. cbn [c_nodes C mk_cfg] in Ha.
      destruct (annotb nodes es0) eqn:E0; [|reflexivity]. rewrite (annot_kept nodes es0 (s_es sf) Hdeg E0) in Ha. discriminate.
    + right. right. split; [reflexivity|]. eapply den_zero_not_pos; eauto.
Qed.

Theorem rewire_failure_codes fixed nodes tg es0 sl cl evs :
  WF (Z.of_nat (length nodes)) es0 ->
  forall c sf tr, rewire (mk_cfg fixed nodes tg es0 sl cl) es0 evs = (Failed c, sf, tr) ->
    c = E_PROTOCOL \/ c = E_INDEX \/ c = E_MCMC.
Proof.
  intros HW c sf tr H. destruct (rewire_failure_causes fixed nodes tg es0 sl cl evs HW c sf tr H) as [[E _]|[[E _]|[E _]]]; auto.
Qed.

(* a valid script: every oracle answer of the run fits its phase *)
Definition script_okb (C : cfg) (es0 : list edge) (evs : list ev) : bool :=
  forallb (fun x : site => ev_ok C (fst (fst x)) (snd (fst x)) (snd x)) (rewire_visited C es0 evs).

(* THE CLEAN RUN: a network with at least one edge, annotations long enough for the topology indices of the
   incident edges, positive stored weights, valid oracle answers: the run finishes, or the script ends first *)
Theorem rewire_clean_run fixed nodes tg es0 sl cl evs :
  WF (Z.of_nat (length nodes)) es0 -> es0 <> [] -> annotb nodes es0 = true -> PosT tg ->
  let C := mk_cfg fixed nodes tg es0 sl cl in
  script_okb C es0 evs = true ->
  let '(r, sf, tr) := rewire C es0 evs in r = Finished \/ r = Exhausted.
Proof.
  intros HW Hne Ha HP C Hs. destruct (rewire C es0 evs) as [[r sf] tr] eqn:H.
  destruct r as [| |c]; [left; reflexivity|right; reflexivity|exfalso].
  destruct (rewire_failure_causes fixed nodes tg es0 sl cl evs HW c sf tr H)
    as [[_ [pre [ph [e [Hv Hok]]]]]|[[_ [E|E]]|[_ E]]].
  - unfold script_okb in Hs. fold C in Hv. rewrite Hv in Hs. rewrite forallb_forall in Hs.
    specialize (Hs (ph, sf, e)). cbn [fst snd] in Hs. change (ev_ok C ph sf e = false) in Hok.
    rewrite Hs in Hok; [discriminate|].
    apply in_app_iff. right. left. reflexivity.
  - exact (Hne E).
  - congruence.
  - exact (E HP).
Qed.

(* ================================================================== method level *)
(* any well-formed graph, any two corners the code could be handed (permutations of the real corners of u0 in
   motif m0 and of v0 in motif m1): if [suitable] accepts them and the swap condition delivers proposals, the
   apply step succeeds (no "edge already present", no networkx / draw-set error, no edge-count mismatch), the
   draw set still mirrors the edge set and the hard clauses hold for the new graph *)
Theorem apply_after_accept N nodes tg fixed es u0 v0 m0 m1 c0 c1 a0 a1 props top bot :
  WF N es ->
  permb c0 (corner es u0 m0) = true -> permb c1 (corner es v0 m1) = true ->
  attrs es u0 c0 = Some a0 -> attrs es v0 c1 = Some a1 ->
  suitable es u0 v0 a0 a1 = true ->
  swap_pre fixed nodes tg u0 v0 a0 a1 = PNeed props top bot ->
  exists es' d', apply_swap N (length es) es (init_ds N es) u0 v0 c0 c1 props = Ok (es', d')
                 /\ Mirror N es' d' /\ (Z.of_nat (length nodes) = N -> Hard nodes es nodes es').
Proof.
  intros HW P0 P1 A0 A1 Su Sp.
  destruct (genuine_of_permb _ _ _ _ _ HW P0) as [b0 [B0 [G0 Hc0]]]. rewrite A0 in B0. injection B0 as <-.
  destruct (genuine_of_permb _ _ _ _ _ HW P1) as [b1 [B1 [G1 Hc1]]]. rewrite A1 in B1. injection B1 as <-.
  assert (SF : SuitFacts es u0 v0 m0 m1 a0 a1).
  { apply suitable_facts; [| |exact Su].
    - intros x Hx. apply (Permutation_in _ G0) in Hx. apply corner_edges_In in Hx. tauto.
    - intros x Hx. apply (Permutation_in _ G1) in Hx. apply corner_edges_In in Hx. tauto. }
  destruct (swap_pre_pairs _ _ _ _ _ _ _ _ _ _ (sf_len _ _ _ _ _ _ _ SF) Sp) as [prs [Hf [Hs [Ht Hprops]]]].
  destruct (apply_swap_ok N es u0 v0 m0 m1 a0 a1 fixed prs (init_ds N es) HW G0 G1 SF Hf Hs Ht (init_ds_mirror N es))
    as [d' [Hap HM']].
  exists (swap_es' es u0 v0 m0 m1 fixed prs), d'. rewrite Hc0, Hc1, Hprops. split; [exact Hap|]. split; [exact HM'|].
  intros HN. eapply swap_hard; eauto.
Qed.
