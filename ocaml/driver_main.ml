(* Generic driver for the extracted model: each input line is
     <entry-name> <tree>
   where a tree is an s-expression of decimal integers, e.g. ((1 2) -3 ()).
   The result tree is printed on one line.  Numbers stay Coq [Z]/[positive];
   conversion to and from decimal text goes through zarith. *)
module BZ = Z
open Model

let rec pos_of_z (n : BZ.t) : positive =
  if BZ.equal n BZ.one then XH
  else if BZ.equal (BZ.logand n BZ.one) BZ.zero then XO (pos_of_z (BZ.shift_right n 1))
  else XI (pos_of_z (BZ.shift_right n 1))

let coqz_of_z (n : BZ.t) : z =
  if BZ.equal n BZ.zero then Z0
  else if BZ.gt n BZ.zero then Zpos (pos_of_z n) else Zneg (pos_of_z (BZ.neg n))

let rec z_of_pos (p : positive) : BZ.t =
  match p with
  | XH -> BZ.one
  | XO q -> BZ.shift_left (z_of_pos q) 1
  | XI q -> BZ.succ (BZ.shift_left (z_of_pos q) 1)

let z_of_coqz (x : z) : BZ.t =
  match x with Z0 -> BZ.zero | Zpos p -> z_of_pos p | Zneg p -> BZ.neg (z_of_pos p)

(* parser *)
let parse (s : string) (start : int) : tree =
  let n = String.length s in
  let pos = ref start in
  let skip () = while !pos < n && (s.[!pos] = ' ' || s.[!pos] = '\t') do incr pos done in
  let rec item () : tree =
    skip ();
    if !pos >= n then failwith "unexpected end";
    if s.[!pos] = '(' then begin
      incr pos;
      let acc = ref [] in
      let fin = ref false in
      while not !fin do
        skip ();
        if !pos >= n then failwith "unclosed";
        if s.[!pos] = ')' then (incr pos; fin := true)
        else acc := item () :: !acc
      done;
      L (List.rev !acc)
    end else begin
      let b = !pos in
      while !pos < n && s.[!pos] <> ' ' && s.[!pos] <> ')' && s.[!pos] <> '(' do incr pos done;
      I (coqz_of_z (BZ.of_string (String.sub s b (!pos - b))))
    end
  in
  item ()

let rec print_tree (b : Buffer.t) (t : tree) : unit =
  match t with
  | I x -> Buffer.add_string b (BZ.to_string (z_of_coqz x))
  | L l ->
      Buffer.add_char b '(';
      List.iteri (fun i x -> if i > 0 then Buffer.add_char b ' '; print_tree b x) l;
      Buffer.add_char b ')'

let () =
  let tbl = Hashtbl.create 64 in
  List.iter (fun (k, f) -> Hashtbl.replace tbl k f) Table.table;
  (try
     while true do
       let line = input_line stdin in
       let sp = try String.index line ' ' with Not_found -> String.length line in
       let name = String.sub line 0 sp in
       let out =
         match Hashtbl.find_opt tbl name with
         | None -> "!unknown-entry " ^ name
         | Some f ->
             (try
                let t = parse line sp in
                let b = Buffer.create 256 in
                print_tree b (f t);
                Buffer.contents b
              with
              | Stack_overflow -> "!stack-overflow"
              | e -> "!exception " ^ Printexc.to_string e)
       in
       print_string out; print_char '\n'
     done
   with End_of_file -> ());
  flush stdout
