"""Common machinery of ./check: build, Coq step, correspondence, verdict, evidence.

Trees: the wire format between harness and extracted model is a nested list of ints
(Python) <-> s-expression text <-> GV.Lib.Tree.tree (Coq).
"""
import fcntl
import glob
import hashlib
import importlib
import itertools
import json
import os
import random
import re
import signal
import subprocess
import sys
import tempfile
import time
import traceback
from fractions import Fraction

ROOT = os.path.dirname(os.path.dirname(os.path.abspath(__file__)))
REPO = os.environ.get("GCMPY_REPO", "/repo")
DRIVER = os.path.join(ROOT, "ocaml", "driver")
COQ = os.path.join(ROOT, "coq")

FORBIDDEN = re.compile(
    r"\b(Admitted|admit|Axiom|Axioms|Parameter|Parameters|Conjecture|Hypothesis|Variable|Variables)\b"
    r"|Unset\s+Guard|bypass_check|type-in-type|impredicative-set|Admit\s+Obligations"
    r"|\b\w*_no_check\b|\bnative_compute\b"
)


# ---------------------------------------------------------------- trees
def to_sexp(t):
    if isinstance(t, bool):
        return "1" if t else "0"
    if isinstance(t, int):
        return str(t)
    if isinstance(t, (list, tuple)):
        return "(" + " ".join(to_sexp(x) for x in t) + ")"
    raise TypeError(f"not a tree: {t!r}")


def from_sexp(s):
    toks = re.findall(r"\(|\)|-?\d+", s)
    pos = 0

    def item():
        nonlocal pos
        tok = toks[pos]
        pos += 1
        if tok == "(":
            out = []
            while toks[pos] != ")":
                out.append(item())
            pos += 1
            return out
        return int(tok)

    r = item()
    return r


def tree_norm(t):
    """tuples -> lists, bools -> ints (so trees compare with ==)"""
    if isinstance(t, bool):
        return int(t)
    if isinstance(t, int):
        return t
    return [tree_norm(x) for x in t]


def q_tree(x):
    """exact rational of a float/int/Fraction as [num, den]"""
    f = Fraction(x)
    return [f.numerator, f.denominator]


def tree_q(t):
    return Fraction(t[0], t[1])


class ImplTimeout(Exception):
    pass


def _alarm(signum, frame):
    raise ImplTimeout()


def call_impl(fn, case, limit=20.0):
    """run the implementation side of one case; exceptions become ['!exc', name]"""
    signal.signal(signal.SIGALRM, _alarm)
    signal.setitimer(signal.ITIMER_REAL, limit)
    try:
        return fn(case)
    except ImplTimeout:
        return ["!exc", "Timeout"]
    except RecursionError:
        return ["!exc", "RecursionError"]
    except BaseException as e:  # noqa: BLE001 - mutated code may raise anything (even str)
        if isinstance(e, (KeyboardInterrupt, SystemExit)):
            raise
        return ["!exc", type(e).__name__]
    finally:
        signal.setitimer(signal.ITIMER_REAL, 0)


def run_driver(calls, timeout=600):
    """calls: list of (entry, tree).  Returns list of trees (or '!..' strings)."""
    if not calls:
        return []
    inp = "\n".join(f"{e} {to_sexp(t)}" for e, t in calls) + "\n"
    env = dict(os.environ)
    p = subprocess.run(
        ["/bin/sh", "-c", f"ulimit -s unlimited 2>/dev/null; exec {DRIVER}"],
        input=inp, capture_output=True, text=True, timeout=timeout, env=env,
    )
    lines = p.stdout.split("\n")
    if lines and lines[-1] == "":
        lines.pop()
    if len(lines) != len(calls):
        raise RuntimeError(
            f"driver returned {len(lines)} lines for {len(calls)} calls (rc={p.returncode}): {p.stderr[:500]}"
        )
    out = []
    for ln in lines:
        out.append(ln if ln.startswith("!") else from_sexp(ln))
    return out


# ---------------------------------------------------------------- build + coq step
def ensure_built(log):
    t0 = time.time()
    p = subprocess.run(["/bin/sh", os.path.join(ROOT, "build.sh")], capture_output=True, text=True,
                       timeout=3600)
    log(f"build: rc={p.returncode} {time.time()-t0:.1f}s")
    if p.returncode != 0:
        log(p.stdout[-3000:] + p.stderr[-3000:])
    return p.returncode == 0, (p.stdout + p.stderr)[-3000:]


def grep_gate():
    bad = []
    for path in glob.glob(os.path.join(COQ, "**", "*.v"), recursive=True):
        src = open(path).read()
        src_nc = re.sub(r"\(\*.*?\*\)", " ", src, flags=re.S)
        for m in FORBIDDEN.finditer(src_nc):
            word = m.group(0)
            # Variable/Hypothesis are allowed inside sections only
            if word in ("Variable", "Variables", "Hypothesis"):
                pre = src_nc[: m.start()]
                if len(re.findall(r"\bSection\s+\w+", pre)) > len(re.findall(r"\bEnd\s+\w+\s*\.", pre)):
                    continue
            bad.append(f"{os.path.relpath(path, ROOT)}: {word}")
    return bad


def coq_step(pid, log, thorough=False):
    """re-check Props/<pid>.v against the compiled project, collect theorem names and
    Print Assumptions output.  Returns dict(ok, theorems, assumptions, output)."""
    src = os.path.join(COQ, "Props", f"{pid}.v")
    res = {"ok": False, "theorems": [], "assumptions": [], "output": "", "cmd": ""}
    if not os.path.exists(src):
        res["output"] = "missing " + src
        return res
    text = open(src).read()
    text_nc = re.sub(r"\(\*.*?\*\)", " ", text, flags=re.S)
    res["theorems"] = re.findall(r"^\s*Theorem\s+(\w+)", text_nc, flags=re.M)
    res["examples"] = re.findall(r"^\s*Example\s+(\w+)", text_nc, flags=re.M)
    with tempfile.TemporaryDirectory(prefix="gvcoq") as td:
        out = os.path.join(td, f"{pid}.vo")
        cmd = ["timeout", "1800", "coqc", "-Q", COQ, "GV", "-o", out, src]
        res["cmd"] = "coqc -Q coq GV coq/Props/%s.v" % pid
        t0 = time.time()
        p = subprocess.run(cmd, capture_output=True, text=True, cwd=td)
        res["output"] = (p.stdout + p.stderr)[-6000:]
        res["ok"] = p.returncode == 0
        log(f"coq step: rc={p.returncode} {time.time()-t0:.1f}s theorems={len(res['theorems'])}")
    # parse Print Assumptions blocks
    blocks = []
    cur = None
    for ln in p.stdout.split("\n"):
        if ln.startswith("Closed under the global context"):
            blocks.append([])
            cur = None
        elif ln.startswith("Axioms:"):
            cur = []
            blocks.append(cur)
        elif cur is not None:
            if ln.strip() == "":
                continue
            m = re.match(r"^(\S+)\s*:", ln)
            if m:
                cur.append(m.group(1))
    axioms = sorted({a for b in blocks for a in b})
    res["assumption_blocks"] = len(blocks)
    if res["ok"] and len(blocks) < len(res["theorems"]):
        res["ok"] = False
        res["output"] += f"\n{len(res['theorems'])} theorems but only {len(blocks)} Print Assumptions blocks"
    res["assumptions"] = axioms
    tsrc = os.path.join(COQ, "Props", f"{pid}_thorough.v")
    if thorough and res["ok"] and os.path.exists(tsrc):
        # thorough-only theorems (long vm_compute): Props/<pid>_thorough.v is not part of the normal build
        ttext = re.sub(r"\(\*.*?\*\)", " ", open(tsrc).read(), flags=re.S)
        tnames = re.findall(r"^\s*(?:Theorem|Example)\s+(\w+)", ttext, flags=re.M)
        with tempfile.TemporaryDirectory(prefix="gvcoq") as td:
            t0 = time.time()
            p3 = subprocess.run(["timeout", "3000", "coqc", "-Q", COQ, "GV", "-o", os.path.join(td, f"{pid}_thorough.vo"), tsrc],
                                capture_output=True, text=True, cwd=td)
            log(f"coq thorough step: rc={p3.returncode} {time.time()-t0:.1f}s theorems={len(tnames)}")
            res["output"] += (p3.stdout + p3.stderr)[-3000:]
            if p3.returncode == 0:
                res["theorems"] += tnames
                if "Axioms:" in p3.stdout:
                    res["assumptions"] = sorted(set(res["assumptions"]) | {f"(axioms printed by Props/{pid}_thorough.v)"})
            else:
                res["ok"] = False
    if thorough and res["ok"]:
        # independent re-check of the property file's whole cone with coqchk
        t0 = time.time()
        vo = os.path.join(COQ, "Props", f"{pid}.vo")
        if os.path.exists(vo):
            p2 = subprocess.run(["timeout", "3000", "coqchk", "-silent", "-o", "-Q", COQ, "GV", f"GV.Props.{pid}"],
                                capture_output=True, text=True)
            res["coqchk_rc"] = p2.returncode
            res["coqchk_tail"] = (p2.stdout + p2.stderr)[-2500:]
            log(f"coqchk: rc={p2.returncode} {time.time()-t0:.1f}s")
            if p2.returncode != 0:
                res["ok"] = False
    return res


# ---------------------------------------------------------------- known findings
def load_known():
    path = os.path.join(ROOT, "known_findings.json")
    if not os.path.exists(path):
        return {"open": [], "fixed": []}
    return json.load(open(path))


# ---------------------------------------------------------------- main check
class Ctx:
    def __init__(self, pid, tier, seed):
        self.pid = pid
        self.tier = tier
        self.seed = seed
        self.rng = random.Random(seed * 1000003 + int(hashlib.sha1(pid.encode()).hexdigest()[:6], 16))
        self.t0 = time.time()
        self.logs = []

    def log(self, msg):
        self.logs.append(msg)
        print(f"[{self.pid}] {msg}", file=sys.stderr, flush=True)


def stable_key(x):
    return hashlib.sha1(json.dumps(x, sort_keys=True, default=str).encode()).hexdigest()


def evaluate_cases(mod, cases, ctx):
    """returns list of records {case, impl, model, ok_corr, ok_check, detail}"""
    recs = []
    for c in cases:
        recs.append({"case": c, "impl": tree_or_exc(call_impl(mod.impl, c, getattr(mod, "IMPL_TIMEOUT", 20.0)))})
    calls = []
    idx = []
    for i, r in enumerate(recs):
        # an observation the module cannot encode (odd types produced by changed code) must not end the whole check:
        # it is recorded and reported as a correspondence failure of this case
        try:
            mc = [(entry, tree_norm(tree)) for entry, tree in mod.model_calls(r["case"], r["impl"])]
        except Exception as e:  # noqa: BLE001
            mc = []
            r["encode_error"] = f"model_calls could not encode the observation: {e!r}"
        for j, (entry, tree) in enumerate(mc):
            calls.append((entry, tree))
            idx.append((i, "m", j))
        try:
            chk = [(entry, tree_norm(tree)) for entry, tree in
                   (mod.check_calls(r["case"], r["impl"]) if hasattr(mod, "check_calls") else [])]
        except Exception as e:  # noqa: BLE001
            chk = []
            r["encode_error"] = f"check_calls could not encode the observation: {e!r}"
        for j, (entry, tree) in enumerate(chk):
            calls.append((entry, tree))
            idx.append((i, "c", j))
    outs = run_driver(calls) if calls else []
    for r in recs:
        r["model_raw"] = []
        r["check_raw"] = []
    for (i, kind, j), o in zip(idx, outs):
        recs[i]["model_raw" if kind == "m" else "check_raw"].append(o)
    for r in recs:
        try:
            mobs = mod.model_obs(r["case"], r["model_raw"])
        except Exception as e:  # noqa: BLE001
            mobs = ["!model-decode", repr(e)]
        r["model"] = mobs
        try:
            diff = mod.compare(r["case"], r["impl"], mobs)
        except Exception as e:  # noqa: BLE001
            diff = f"compare raised {e!r}"
        if r.get("encode_error") and not diff:
            diff = r["encode_error"]
        r["diff"] = diff
        try:
            bad = (mod.check_verdict(r["case"], r["impl"], r["check_raw"])
                   if hasattr(mod, "check_verdict") and not r.get("encode_error") else None)
        except Exception as e:  # noqa: BLE001
            bad = None
            r["diff"] = r["diff"] or f"check_verdict could not digest the observation: {e!r}"
        r["check_fail"] = bad
    return recs


def tree_or_exc(x):
    if isinstance(x, list) and x and x[0] == "!exc":
        return x
    return x


def shrink_case(mod, case, pred, ctx, budget=150):
    """greedy shrinking with the property module's candidates; pred(case)->bool (still failing)"""
    if not hasattr(mod, "shrink"):
        return case
    cur = case
    n = 0
    improved = True
    while improved and n < budget:
        improved = False
        for cand in mod.shrink(cur):
            n += 1
            if n > budget:
                break
            try:
                if pred(cand):
                    cur = cand
                    improved = True
                    break
            except Exception:  # noqa: BLE001
                continue
    return cur


def fails_in_fresh_process(pid, case):
    """does the verified checker reject `case` when it is the ONLY case a new Python process evaluates?  Used by
    property modules with STATEFUL_IMPL = True: code under test that keeps state between calls (a memoised result
    handed out by reference, class-level attributes) can make a case fail only because of the cases evaluated before
    it -- and every shrinking candidate inherits that state.  Returns True / False / None (could not tell)."""
    code = ("import json,sys\nfrom harness import core\nimport importlib\n"
            "mod = importlib.import_module('harness.props.%s')\n"
            "ctx = core.Ctx(%r, 'quick', 0)\n"
            "r = core.evaluate_cases(mod, [json.load(sys.stdin)], ctx)[0]\n"
            "print('FRESH', 1 if r['check_fail'] else 0)\n" % (pid.lower(), pid))
    try:
        p = subprocess.run([sys.executable, "-c", code], input=json.dumps(case), capture_output=True, text=True,
                           timeout=300, cwd=ROOT, env=dict(os.environ))
    except Exception:  # noqa: BLE001
        return None
    for ln in p.stdout.split("\n"):
        if ln.startswith("FRESH "):
            return ln.strip() == "FRESH 1"
    return None


def write_replay(pid, kind, rec, extra=None):
    os.makedirs(os.path.join(ROOT, "replays"), exist_ok=True)
    body = {
        "property": pid,
        "kind": kind,
        "case": rec.get("case"),
        "impl_observed": rec.get("impl"),
        "model_expected": rec.get("model"),
        "checker_says": rec.get("check_fail"),
        "correspondence_diff": rec.get("diff"),
    }
    if extra:
        body.update(extra)
    key = stable_key(body)[:10]
    path = os.path.join(ROOT, "replays", f"{pid}_{kind}_{key}.json")
    with open(path, "w") as f:
        json.dump(body, f, indent=1, default=str)
    return path


def source_changed(pid):
    """names of the property's anchored files whose content differs from baseline_hashes.json (recorded at the
    /repo commit this framework was validated against); [] when identical or when no baseline is recorded"""
    path = os.path.join(ROOT, "baseline_hashes.json")
    if not os.path.exists(path):
        return []
    base = json.load(open(path))
    out = []
    for rel, h in base.get(pid, {}).items():
        f = os.path.join(REPO, rel)
        try:
            cur = hashlib.sha256(open(f, "rb").read()).hexdigest()
        except OSError:
            cur = "missing"
        if cur != h:
            out.append(rel)
    return out


def default_search(mod):
    def search(rng, tier, seeds):
        batch = []
        for c in mod.generate(rng, "thorough"):
            batch.append(c)
            if len(batch) == 300:
                yield batch
                batch = []
        if batch:
            yield batch
    return search


def is_exc(obs):
    return isinstance(obs, list) and len(obs) >= 1 and obs[0] == "!exc"


def close(x, q, tol=Fraction(1, 10**9)):
    """float (or int) x within tol*max(1,|q|) of the exact rational q"""
    try:
        fx = Fraction(x)
    except (ValueError, OverflowError, TypeError):
        return False
    q = Fraction(q)
    return abs(fx - q) <= tol * max(1, abs(q))


def matches_known(pid, rec, known):
    """an open finding matches when its 'match' dict is a sub-structure of the case"""
    for k in known.get("open", []):
        if k.get("property") != pid:
            continue
        m = k.get("match", {})
        vp = m.get("__verdict_prefix__")
        if vp is not None:
            # matched by the verdict the property's checker gave (narrow, named clause), not by the input
            if isinstance(rec.get("check_fail"), str) and rec["check_fail"].startswith(vp):
                return k
            continue
        case = rec.get("case") or {}
        if all(case.get(a) == b for a, b in m.items()):
            return k
    return None


def main_check(pid, tier, seed, replay=None):
    ctx = Ctx(pid, tier, seed)
    mod = importlib.import_module(f"harness.props.{pid.lower()}")
    known = load_known()
    violations = []  # (replay path, suffix)
    known_hits = []

    ok_build, build_out = ensure_built(ctx.log)
    gate = grep_gate()
    coq = coq_step(pid, ctx.log, thorough=(tier == "thorough")) if ok_build else {
        "ok": False, "theorems": [], "assumptions": [], "output": build_out, "cmd": "build.sh"}
    coq_ok = ok_build and coq["ok"] and not gate
    if gate:
        ctx.log("grep gate: " + "; ".join(gate))

    # ---- cases
    if replay:
        body = json.load(open(replay))
        cases = [body["case"]] if body.get("case") is not None else []
        n_corpus = 0
    else:
        cases = list(mod.corpus())
        n_corpus = len(cases)
        cases += list(mod.generate(ctx.rng, tier))
    ctx.log(f"{len(cases)} cases")

    recs = []
    fatal = None
    if ok_build:
        # the corpus (regression cases) is its own first batch; then batches of mod.BATCH cases.  Once a batch holds a
        # concrete violation (checker false on an implementation output, not a known finding) the remaining batches
        # are not evaluated: the verdict is already decided, and a changed implementation can make every further case
        # much slower (larger oracle trees, ...).  Generators therefore put their cheapest discriminating cases first.
        B = int(getattr(mod, "BATCH", 400))
        cuts = ([0] if n_corpus == 0 else [0, n_corpus])
        while cuts[-1] < len(cases):
            cuts.append(min(len(cases), cuts[-1] + B))
        try:
            for a, b in zip(cuts, cuts[1:]):
                part = evaluate_cases(mod, cases[a:b], ctx)
                recs += part
                if b < len(cases) and any(r["check_fail"] and not matches_known(pid, r, known) for r in part):
                    ctx.log(f"concrete violation among cases {a}..{b - 1}: the remaining {len(cases) - b} cases are not evaluated")
                    break
        except Exception as e:  # noqa: BLE001
            fatal = f"harness failure: {e!r}\n{traceback.format_exc()}"
            ctx.log(fatal)

    # ---- escalation: when the anchored sources differ from the recorded baseline (i.e. the code under /repo was
    # changed) and the quick cases found nothing, keep exploring with the thorough generators for a bounded time.
    escalated = {"source_changed": False, "extra_cases": 0}
    if ok_build and not replay and tier == "quick" and fatal is None:
        changed = source_changed(pid)
        escalated["source_changed"] = bool(changed)
        quiet = not any(r["check_fail"] and not matches_known(pid, r, known) for r in recs) and \
            not any(r["diff"] for r in recs)
        if changed and quiet:
            budget = float(os.environ.get("GV_ESCALATE_S", "150"))
            t_end = time.time() + budget
            ctx.log(f"anchored sources changed ({', '.join(changed)[:200]}): escalating for up to {budget:.0f}s")
            try:
                gen = mod.generate(random.Random(ctx.seed * 7919 + 17), "thorough")
                while time.time() < t_end:
                    batch = list(itertools.islice(gen, 200))
                    if not batch:
                        break
                    rs = evaluate_cases(mod, batch, ctx)
                    recs += rs
                    escalated["extra_cases"] += len(rs)
                    if any((x["check_fail"] and not matches_known(pid, x, known)) or x["diff"] for x in rs):
                        break
            except Exception as e:  # noqa: BLE001
                ctx.log(f"escalation stopped: {e!r}")

    check_fails = [r for r in recs if r["check_fail"]]
    # a record whose only checker complaint is an open known finding still counts for the correspondence
    # (a finding matched by its exact input - a "match" on case fields - covers the whole case, its diff included)
    def _known_by_input(r):
        k = matches_known(pid, r, known)
        return bool(k) and "__verdict_prefix__" not in k.get("match", {})
    diffs = [r for r in recs if r["diff"] and not _known_by_input(r)
             and (not r["check_fail"] or matches_known(pid, r, known))]

    def still_fails_check(c):
        rr = evaluate_cases(mod, [c], ctx)[0]
        return bool(rr["check_fail"]) and not matches_known(pid, rr, known)

    def still_diff(c):
        rr = evaluate_cases(mod, [c], ctx)[0]
        return bool(rr["diff"])

    reported = set()
    for r in check_fails[:50]:
        k = matches_known(pid, r, known)
        if k:
            known_hits.append(k)
            continue
        if len(violations) >= 3:
            break
        small = shrink_case(mod, r["case"], still_fails_check, ctx)
        rr = evaluate_cases(mod, [small], ctx)[0]
        if not rr["check_fail"] or matches_known(pid, rr, known):
            rr = r
        extra = None
        if getattr(mod, "STATEFUL_IMPL", False) and not replay:
            # the replay file must fail on its own: keep the shrunk case only if a fresh process rejects it too,
            # else the unshrunk one, else say that the failure needs the cases evaluated before it
            if fails_in_fresh_process(pid, rr["case"]) is False:
                rr = r
                if stable_key(r["case"]) != stable_key(small) and fails_in_fresh_process(pid, r["case"]) is False:
                    extra = {"state_dependent": "the checker rejected this case only after the earlier cases of the run "
                                                "had been evaluated in the same process (state kept by the code under test)"}
                elif stable_key(r["case"]) == stable_key(small):
                    extra = {"state_dependent": "the checker rejected this case only after the earlier cases of the run "
                                                "had been evaluated in the same process (state kept by the code under test)"}
        key = stable_key(rr["case"])
        if key in reported:
            continue
        reported.add(key)
        violations.append((write_replay(pid, "violation", rr, extra), ""))

    searched = 0
    if not violations and (diffs or not coq_ok or fatal):
        # correspondence or proof obligation broken: search for a concrete failing input
        found = None
        if ok_build and not replay:
            try:
                searcher = mod.search if hasattr(mod, "search") else default_search(mod)
                for batch in searcher(ctx.rng, tier, [d["case"] for d in diffs[:20]]):
                    rs = evaluate_cases(mod, batch, ctx)
                    searched += len(rs)
                    bad = [x for x in rs if x["check_fail"] and not matches_known(pid, x, known)]
                    if bad:
                        found = bad[0]
                        break
                    if time.time() - ctx.t0 > (240 if tier == "quick" else 1500):
                        break
            except Exception as e:  # noqa: BLE001
                ctx.log(f"search failed: {e!r}")
        if found:
            small = shrink_case(mod, found["case"], still_fails_check, ctx)
            rr = evaluate_cases(mod, [small], ctx)[0]
            if not rr["check_fail"] or matches_known(pid, rr, known):
                rr = found
            violations.append((write_replay(pid, "violation", rr), ""))
        else:
            if diffs:
                small = shrink_case(mod, diffs[0]["case"], still_diff, ctx, budget=60)
                rr = evaluate_cases(mod, [small], ctx)[0]
                if not rr["diff"]:
                    rr = diffs[0]
                what = {"obligation": f"correspondence model_{pid} = implementation (harness/props/{pid.lower()}.py)",
                        "n_disagreements": len(diffs), "searched_cases": searched}
                violations.append((write_replay(pid, "correspondence", rr, what), " no-failing-input-found"))
            else:
                what = {"obligation": f"coq/Props/{pid}.v ({', '.join(coq.get('theorems', []))}) / build / grep gate",
                        "coq_output": coq.get("output", "")[-3000:], "gate": gate, "fatal": fatal,
                        "searched_cases": searched}
                violations.append((write_replay(pid, "proof", {"case": None}, what), " no-failing-input-found"))

    # ---- evidence
    nontrivial = set()
    for r in recs:
        try:
            k = mod.nontrivial_key(r["case"], r["impl"])
        except Exception:  # noqa: BLE001
            k = None
        if k is not None:
            nontrivial.add(stable_key(k))
    samples = []
    for r in recs[:: max(1, len(recs) // 4)][:4]:
        try:
            samples.append(mod.describe(r["case"], r["impl"]) if hasattr(mod, "describe") else
                           {"case": r["case"], "impl": r["impl"]})
        except Exception:  # noqa: BLE001 - a describe() that cannot digest an odd observation must not end the check
            samples.append({"case": r["case"], "impl": r["impl"]})
    try:
        hist = mod.histogram([r["case"] for r in recs]) if hasattr(mod, "histogram") else {}
    except Exception as e:  # noqa: BLE001
        hist = {"histogram_failed": repr(e)}
    n_thm = len(coq.get("theorems", []))
    tb = list(getattr(mod, "TRUSTED", []))
    tb = [
        "Coq 8.16.1 kernel (coqc); vm_compute where a theorem is by reflection; no native_compute",
        "Print Assumptions over Props/%s.v: %s" % (
            pid, ("axioms " + ", ".join(coq["assumptions"])) if coq.get("assumptions") else
            "all theorems closed under the global context (no axioms)"),
        "extraction: Require Extraction + ExtrOcamlBasic only (bool, option, unit, list, prod, sumbool, sumor, andb, orb); Z/positive/nat stay Coq datatypes; ocaml/driver_main.ml (s-expression I/O via zarith) trusted for the correspondence only",
        "correspondence harness harness/core.py + harness/props/%s.py (scripted oracles, canonicalisation)" % pid.lower(),
    ] + tb
    if coq.get("coqchk_rc") is not None:
        tb.append("coqchk -o rc=%s: %s" % (coq["coqchk_rc"], coq.get("coqchk_tail", "")[-1200:]))
    ev = {
        "property_id": pid,
        "tier": tier,
        "seed": seed,
        "level": "proof",
        "coverage": {
            "obligations": n_thm,
            "discharged": n_thm if coq_ok else 0,
            "checker_cmd": coq.get("cmd", "") + " (after ./build.sh: full make of coq/, no -vos)",
            "trusted_base": tb,
            "theorems": coq.get("theorems", []),
            "non_vacuity_examples": coq.get("examples", []),
            "print_assumptions_blocks": coq.get("assumption_blocks"),
            "partial_or_unproved": list(getattr(mod, "PARTIAL", [])),
            "evaluations": len(recs),
            "distinct_nontrivial": len(nontrivial),
            "rule": getattr(mod, "RULE", ""),
            "samples": samples or [{"note": "no case evaluated"}],
            "traces_validated_against_impl": sum(1 for r in recs if not r["diff"]),
            "checker_runs_on_impl_outputs": sum(1 for r in recs if r["check_raw"]),
            "correspondence_disagreements": len(diffs),
            "checker_failures": len(check_fails),
            "search_cases_after_break": searched,
            "escalation_after_source_change": escalated,
            # the run as a whole mixes exhaustively enumerated sub-families with seeded random streams
            "exhaustive": False,
            "has_exhaustive_subfamily": bool(getattr(mod, "EXHAUSTIVE", {}).get(tier, False)),
            "histogram": hist,
            "explanation": getattr(mod, "EXPLANATION", ""),
        },
        "assumptions": list(getattr(mod, "ASSUMPTIONS", [])),
        "wall_s": round(time.time() - ctx.t0, 2),
        "violations": len(violations),
    }
    os.makedirs(os.path.join(ROOT, "evidence"), exist_ok=True)
    if not replay:
        with open(os.path.join(ROOT, "evidence", f"{pid}.json"), "w") as f:
            json.dump(ev, f, indent=1, default=str)

    seen = set()
    for k in known_hits:
        if k["what"] not in seen:
            seen.add(k["what"])
            print(f"KNOWN-FINDING: property={pid} {k['what']}")
    for path, suffix in violations:
        print(f"VIOLATION property={pid} replay={path}{suffix}")
    if not violations:
        print(f"OK property={pid} tier={tier} cases={len(recs)} nontrivial={len(nontrivial)} "
              f"theorems={n_thm} wall={time.time()-ctx.t0:.1f}s")
    return 1 if violations else 0
