"""Scripted replacements for the `random` entry points gcmpy calls.

A Script holds the answers for one run and logs every call.  Running past the end of a
script, or calling an entry point the script does not expect, raises OracleProtocol
(reported by the harness as a correspondence failure: 'oracle protocol mismatch')."""
import contextlib
import random as _random


class OracleProtocol(Exception):
    pass


class Script:
    def __init__(self, answers=None, default=None):
        # answers: list of ('shuffle', perm) | ('choice', idx) | ('randrange', k) | ('random', float)
        #          | ('choices', [idx...])
        self.answers = list(answers or [])
        self.pos = 0
        self.log = []
        self.default = default  # optional callable(kind, args) -> answer when the script is exhausted

    def take(self, kind, args):
        if self.pos < len(self.answers):
            k, a = self.answers[self.pos]
            self.pos += 1
            if k != kind:
                raise OracleProtocol(f"expected {k} got {kind}")
            return a
        if self.default is not None:
            self.pos += 1
            return self.default(kind, args)
        raise OracleProtocol(f"script exhausted at {kind}")

    # --- entry points
    def shuffle(self, x):
        perm = self.take("shuffle", x)
        if perm is None:
            perm = list(range(len(x)))
        if sorted(perm) != list(range(len(x))):
            raise OracleProtocol(f"bad permutation {perm} for list of length {len(x)}")
        self.log.append(("shuffle", list(x), list(perm)))
        old = list(x)
        for i, p in enumerate(perm):
            x[i] = old[p]

    def choice(self, seq):
        if len(seq) == 0:
            raise IndexError("Cannot choose from an empty sequence")
        i = self.take("choice", seq)
        self.log.append(("choice", len(seq), i))
        return seq[i % len(seq)]

    def randrange(self, a, b=None):
        if b is None:
            a, b = 0, a
        i = self.take("randrange", (a, b))
        self.log.append(("randrange", a, b, i))
        return a + (i % (b - a))

    def random(self):
        r = self.take("random", None)
        self.log.append(("random", r))
        return r

    def choices(self, population, weights=None, *, cum_weights=None, k=1):
        idxs = self.take("choices", (population, weights, k))
        self.log.append(("choices", list(population), None if weights is None else list(weights), k, list(idxs)))
        if len(idxs) != k:
            raise OracleProtocol("choices: wrong number of answers")
        return [population[i % len(population)] for i in idxs]


@contextlib.contextmanager
def scripted(script, extra_modules=()):
    """patch random.* and the from-imports gcmpy made (eecc.choice, mpcc.shuffle)"""
    saved = {}
    names = ["shuffle", "choice", "randrange", "random", "choices"]
    for n in names:
        saved[n] = getattr(_random, n)
        setattr(_random, n, getattr(script, n))
    patched = []
    for mod, attr in extra_modules:
        patched.append((mod, attr, getattr(mod, attr)))
        setattr(mod, attr, getattr(script, attr))
    try:
        yield script
    finally:
        for n in names:
            setattr(_random, n, saved[n])
        for mod, attr, old in patched:
            setattr(mod, attr, old)


@contextlib.contextmanager
def forbid_random():
    with scripted(Script([])) as s:
        yield s


class FracScript:
    """Primitive-agnostic oracle: every call of choice / randrange / randint / random consumes one
    fraction r in [0,1) and answers floor(r * n) (resp. r).  Lets a check drive `pick index i of n`
    without caring WHICH random primitive the implementation uses."""

    def __init__(self, fracs):
        self.fracs = list(fracs)
        self.pos = 0
        self.log = []

    def _take(self, kind):
        if self.pos >= len(self.fracs):
            raise OracleProtocol(f"fraction script exhausted at {kind}")
        r = self.fracs[self.pos]
        self.pos += 1
        self.log.append(kind)
        return r

    def random(self):
        return float(self._take("random"))

    def choice(self, seq):
        if len(seq) == 0:
            raise IndexError("Cannot choose from an empty sequence")
        return seq[int(self._take("choice") * len(seq))]

    def randrange(self, a, b=None, step=1):
        if b is None:
            a, b = 0, a
        if b <= a:
            raise ValueError("empty range for randrange()")
        return a + int(self._take("randrange") * (b - a))

    def randint(self, a, b):
        return self.randrange(a, b + 1)

    def shuffle(self, x):
        raise OracleProtocol("shuffle not supported by FracScript")

    def choices(self, population, weights=None, *, cum_weights=None, k=1):
        raise OracleProtocol("choices not supported by FracScript")


@contextlib.contextmanager
def frac_scripted(script):
    saved = {}
    names = ["shuffle", "choice", "randrange", "randint", "random", "choices"]
    for n in names:
        saved[n] = getattr(_random, n)
        setattr(_random, n, getattr(script, n))
    try:
        yield script
    finally:
        for n in names:
            setattr(_random, n, saved[n])
