"""Scripted replacements for the `random` entry points gcmpy calls.

A Script holds the answers for one run and logs every call.  Running past the end of a
script, or calling an entry point the script does not expect, raises OracleProtocol
(reported by the harness as a correspondence failure: 'oracle protocol mismatch')."""
import contextlib
import random as _random


class OracleProtocol(Exception):
    pass


class Script:
    def __init__(self, answers=None, default=None):
        # answers: list of ('shuffle', perm) | ('choice', idx) | ('randrange', k) | ('random', float)
        #          | ('choices', [idx...])
        self.answers = list(answers or [])
        self.pos = 0
        self.log = []
        self.default = default  # optional callable(kind, args) -> answer when the script is exhausted

    def take(self, kind, args):
        if self.pos < len(self.answers):
            k, a = self.answers[self.pos]
            self.pos += 1
            if k != kind:
                raise OracleProtocol(f"expected {k} got {kind}")
            return a
        if self.default is not None:
            self.pos += 1
            return self.default(kind, args)
        raise OracleProtocol(f"script exhausted at {kind}")

    # --- entry points
    def shuffle(self, x):
        perm = self.take("shuffle", x)
        if perm is None:
            perm = list(range(len(x)))
        if sorted(perm) != list(range(len(x))):
            raise OracleProtocol(f"bad permutation {perm} for list of length {len(x)}")
        self.log.append(("shuffle", list(x), list(perm)))
        old = list(x)
        for i, p in enumerate(perm):
            x[i] = old[p]

    def choice(self, seq):
        if len(seq) == 0:
            raise IndexError("Cannot choose from an empty sequence")
        i = self.take("choice", seq)
        self.log.append(("choice", len(seq), i))
        return seq[i % len(seq)]

    def randrange(self, a, b=None):
        if b is None:
            a, b = 0, a
        i = self.take("randrange", (a, b))
        self.log.append(("randrange", a, b, i))
        return a + (i % (b - a))

    def random(self):
        r = self.take("random", None)
        self.log.append(("random", r))
        return r

    def choices(self, population, weights=None, *, cum_weights=None, k=1):
        idxs = self.take("choices", (population, weights, k))
        self.log.append(("choices", list(population), None if weights is None else list(weights), k, list(idxs)))
        if len(idxs) != k:
            raise OracleProtocol("choices: wrong number of answers")
        return [population[i % len(population)] for i in idxs]


@contextlib.contextmanager
def scripted(script, extra_modules=()):
    """patch random.* and the from-imports gcmpy made (eecc.choice, mpcc.shuffle)"""
    saved = {}
    names = ["shuffle", "choice", "randrange", "random", "choices"]
    for n in names:
        saved[n] = getattr(_random, n)
        setattr(_random, n, getattr(script, n))
    patched = []
    for mod, attr in extra_modules:
        patched.append((mod, attr, getattr(mod, attr)))
        setattr(mod, attr, getattr(script, attr))
    try:
        yield script
    finally:
        for n in names:
            setattr(_random, n, saved[n])
        for mod, attr, old in patched:
            setattr(mod, attr, old)


@contextlib.contextmanager
def forbid_random():
    with scripted(Script([])) as s:
        yield s


class FracScript:
    """Primitive-agnostic oracle: every call of choice / randrange / randint / random consumes one
    fraction r in [0,1) and answers floor(r * n) (resp. r).  Lets a check drive `pick index i of n`
    without caring WHICH random primitive the implementation uses."""

    def __init__(self, fracs):
        self.fracs = list(fracs)
        self.pos = 0
        self.log = []

    def _take(self, kind):
        if self.pos >= len(self.fracs):
            raise OracleProtocol(f"fraction script exhausted at {kind}")
        r = self.fracs[self.pos]
        self.pos += 1
        self.log.append(kind)
        return r

    def random(self):
        return float(self._take("random"))

    def choice(self, seq):
        if len(seq) == 0:
            raise IndexError("Cannot choose from an empty sequence")
        return seq[int(self._take("choice") * len(seq))]

    def randrange(self, a, b=None, step=1):
        if b is None:
            a, b = 0, a
        if b <= a:
            raise ValueError("empty range for randrange()")
        return a + int(self._take("randrange") * (b - a))

    def randint(self, a, b):
        return self.randrange(a, b + 1)

    def shuffle(self, x):
        raise OracleProtocol("shuffle not supported by FracScript")

    def choices(self, population, weights=None, *, cum_weights=None, k=1):
        raise OracleProtocol("choices not supported by FracScript")


@contextlib.contextmanager
def frac_scripted(script):
    saved = {}
    names = ["shuffle", "choice", "randrange", "randint", "random", "choices"]
    for n in names:
        saved[n] = getattr(_random, n)
        setattr(_random, n, getattr(script, n))
    try:
        yield script
    finally:
        for n in names:
            setattr(_random, n, saved[n])


class LenientScript(Script):
    """Primitive-agnostic, never-dying oracle.  Scripted answers are consumed, in order, by calls of the kind they were
    written for.  A call the script does NOT expect (other primitive, script exhausted, wrong number of answers) is not an
    error: it is answered from a private seeded generator and recorded in `.unexpected` as (kind, summary of the arguments),
    so that the run goes on and the FINAL observable can be judged by the verified checker (the unexpected calls themselves
    are a correspondence matter).  `limit` bounds the number of unexpected calls (a runaway loop still ends)."""

    def __init__(self, answers=None, seed=0, limit=5000):
        super().__init__(answers)
        self.unexpected = []
        self.fallback = _random.Random(seed)
        self.limit = limit

    def _expected(self, kind):
        return self.pos < len(self.answers) and self.answers[self.pos][0] == kind

    def _note(self, kind, info):
        if len(self.unexpected) >= self.limit:
            raise OracleProtocol(f"more than {self.limit} unexpected random calls")
        self.unexpected.append([kind, info])

    def shuffle(self, x):
        if self._expected("shuffle"):
            return super().shuffle(x)
        self._note("shuffle", len(x))
        perm = list(range(len(x)))
        self.fallback.shuffle(perm)
        old = list(x)
        for i, p in enumerate(perm):
            x[i] = old[p]
        self.log.append(("shuffle", old, perm))

    def choice(self, seq):
        if self._expected("choice"):
            return super().choice(seq)
        if len(seq) == 0:
            raise IndexError("Cannot choose from an empty sequence")
        self._note("choice", len(seq))
        i = self.fallback.randrange(len(seq))
        self.log.append(("choice", len(seq), i))
        return seq[i]

    def randrange(self, a, b=None, step=1):
        if b is None:
            a, b = 0, a
        if self._expected("randrange"):
            return super().randrange(a, b)
        if b <= a:
            raise ValueError("empty range for randrange()")
        self._note("randrange", [int(a), int(b)])
        i = self.fallback.randrange(b - a)
        self.log.append(("randrange", a, b, i))
        return a + i

    def randint(self, a, b):
        return self.randrange(a, b + 1)

    def random(self):
        if self._expected("random"):
            return super().random()
        self._note("random", 0)
        r = self.fallback.random()
        self.log.append(("random", r))
        return r

    def choices(self, population, weights=None, *, cum_weights=None, k=1):
        population = list(population)
        if self._expected("choices") and len(self.answers[self.pos][1]) == k:
            return super().choices(population, weights, k=k)
        if len(population) == 0:
            raise IndexError("list index out of range")
        self._note("choices", [len(population), int(k)])
        idxs = [self.fallback.randrange(len(population)) for _ in range(k)]
        self.log.append(("choices", population, None if weights is None else list(weights), k, idxs))
        return [population[i] for i in idxs]


@contextlib.contextmanager
def lenient_scripted(script, extra_modules=()):
    """as `scripted`, additionally patching random.randint; `script` is a LenientScript"""
    saved_randint = _random.randint
    _random.randint = script.randint
    try:
        with scripted(script, extra_modules) as s:
            yield s
    finally:
        _random.randint = saved_randint
