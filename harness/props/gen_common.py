"""Shared machinery of C01 / C02 / C03: running the real generators of /repo under scripted
shuffles with logging build callbacks, case generators, encoders for Model/Gen.v."""
import contextlib
import itertools
import math
import random as _random

from harness import oracles

FAST, NETWORK, MOTIFS = 0, 1, 2
TAGNAME = {0: "fast", 1: "network", 2: "motifs"}
VIAS = ["direct", "factory", "main"]
ERR = {1: "IndexError", 2: "ValueError", 3: "TypeError", 9: "Unsupported"}
UNKNOWN_NAME = 999999

# builder codes (Model/Gen.v builder_of_code)
CLIQUE, CYCLE, DIAMOND, BARE, PATH2, STAR, NONE, PATH2L = 0, 1, 2, 3, 4, 5, 6, 7
BUILDER_NAMES = ["clique", "cycle", "diamond", "bare-edge", "path2", "star", "no-edge", "path2-list-edges"]


def n_edges(code, s):
    """number of rows a builder yields on s vertices (None = the builder rejects that size);
    'bare' for the bare edge"""
    if code == CLIQUE:
        return s * (s - 1) // 2
    if code == CYCLE:
        return s if s >= 1 else None
    if code == DIAMOND:
        return 6 if s == 4 else None
    if code == BARE:
        return "bare" if s >= 2 else None
    if code in (PATH2, PATH2L):
        return 2 if s >= 3 else None
    if code == STAR:
        return max(s - 1, 0)
    if code == NONE:
        return 0
    return None


def py_builder(code):
    from gcmpy.motif_generators import clique_motif, cycle_motif, diamond_motif
    if code == CLIQUE:
        return clique_motif
    if code == CYCLE:
        return cycle_motif
    if code == DIAMOND:
        return diamond_motif
    if code == BARE:
        return lambda vs: (vs[0], vs[1])
    if code == PATH2:
        return lambda vs: ((vs[0], vs[1]), (vs[1], vs[2]))
    if code == STAR:
        return lambda vs: [(vs[0], v) for v in vs[1:]]
    if code == NONE:
        return lambda vs: []
    if code == PATH2L:
        return lambda vs: ([vs[0], vs[1]], [vs[1], vs[2]])
    raise ValueError(code)


def enc_raw(x):
    """edge-column entry -> tree (ints stay ints, sequences become lists, anything else -1)"""
    if isinstance(x, bool):
        return -1
    if isinstance(x, int):
        return x
    if isinstance(x, (tuple, list)):
        return [enc_raw(y) for y in x]
    try:
        import numpy as np
        if isinstance(x, np.integer):
            return int(x)
    except Exception:  # noqa: BLE001
        pass
    return -1


def is_pair(t):
    return isinstance(t, list) and len(t) == 2 and all(isinstance(a, int) and a >= 0 for a in t)


def shape_of(res):
    """result of a build callback -> [0, [[a,b]...]] (sequence of edges) | [1, a, b] (bare edge) | [2] (other)"""
    if isinstance(res, (tuple, list)):
        if len(res) == 2 and all(isinstance(a, int) and not isinstance(a, bool) for a in res):
            return [1, res[0], res[1]]
        if all(isinstance(e, (tuple, list)) and len(e) == 2 and
               all(isinstance(a, int) and not isinstance(a, bool) for a in e) for e in res):
            return [0, [[e[0], e[1]] for e in res]]
    return [2]


def name_str(c):
    return "n%d" % c


def name_code(s):
    if isinstance(s, str) and s.startswith("n") and s[1:].isdigit():
        return int(s[1:])
    return UNKNOWN_NAME


class Forbidden(oracles.OracleProtocol):
    pass


_NPR = []


def _numpy_random():
    if not _NPR:
        try:
            import numpy.random as npr
            _NPR.append(npr)
        except Exception:  # noqa: BLE001
            _NPR.append(None)
    return _NPR[0]


@contextlib.contextmanager
def strict_scripted(script):
    """oracles.scripted + every other way of obtaining randomness raises (re-seeding, private
    Random instances, numpy) -- the generators must take all their randomness from random.shuffle"""
    import gcmpy.gcm_algorithm  # noqa: F401  (networkx subclasses random.Random while it is imported)
    import gcmpy.network  # noqa: F401

    def forbid(name):
        def f(*a, **k):
            raise Forbidden("unscripted randomness entry point used: " + name)
        return f

    saved = {}
    extra = ["seed", "setstate", "sample", "randint", "getrandbits", "uniform", "randbytes", "Random", "SystemRandom"]
    with oracles.scripted(script):
        for n in extra:
            if hasattr(script, n):
                saved[n] = getattr(_random, n)
                setattr(_random, n, getattr(script, n))
            elif hasattr(_random, n):
                saved[n] = getattr(_random, n)
                setattr(_random, n, forbid("random." + n))
        np_saved = {}
        npr = _numpy_random()
        if npr is not None:
            for n in ["shuffle", "permutation", "seed", "default_rng", "choice"]:
                np_saved[n] = getattr(npr, n)
                setattr(npr, n, forbid("numpy.random." + n))
        try:
            yield script
        finally:
            for n, v in saved.items():
                setattr(_random, n, v)
            for n, v in np_saved.items():
                setattr(npr, n, v)


def construct(case, builders, names):
    from gcmpy.gcm_algorithm import (GCMAlgorithmCustomMotifs, GCMAlgorithmFactory, GCMAlgorithmFast,
                                     GCMAlgorithmMain, GCMAlgorithmNetwork, GCMAlgorithmTypes)
    from gcmpy.names.gcm_algorithm_names import GCMAlgorithmNames
    tag = case["tag"]
    params = {
        GCMAlgorithmNames.MOTIF_SIZES: list(case["sizes"]),
        GCMAlgorithmNames.BUILD_FUNCTIONS: builders,
        GCMAlgorithmNames.EDGE_NAMES: names,
    }
    if tag == MOTIFS:
        params[GCMAlgorithmNames.MOTIF_INDICES] = [list(x) for x in case["mis"]]
    via = case.get("via", "direct")
    if via == "direct":
        cls = {FAST: GCMAlgorithmFast, NETWORK: GCMAlgorithmNetwork, MOTIFS: GCMAlgorithmCustomMotifs}[tag]
        return cls(params)
    ty = {FAST: GCMAlgorithmTypes.FAST, NETWORK: GCMAlgorithmTypes.NETWORK, MOTIFS: GCMAlgorithmTypes.MOTIFS}[tag]
    if via == "factory":
        return GCMAlgorithmFactory.resolve_algorithm(ty, params)
    params[GCMAlgorithmNames.GCM_TYPE] = ty.value
    return GCMAlgorithmMain.load_gcm_algorithm(params)


def run_real(case, script, patched=False):
    """one run of the real generator under `script`; returns the observation dict.
    Exceptions propagate (after the oracle state is restored)."""
    from gcmpy.names.network_names import NetworkNames
    tag = case["tag"]
    log = []

    def wrap(j, code):
        fn = py_builder(code)

        def cb(vs):
            entry = [j, [enc_raw(v) for v in vs], None]
            log.append(entry)
            r = fn(vs)
            entry[2] = shape_of(r)
            return r
        return cb

    builders = [wrap(j, c) for j, c in enumerate(case["codes"])]
    if tag == MOTIFS:
        names = []
        for j, nms in enumerate(case["names"]):
            code = case["codes"][j] if j < len(case["codes"]) else None
            if code == BARE:
                names.append((lambda s: (lambda: s))(name_str(nms[0]) if nms else "n0"))
            else:
                names.append((lambda t: (lambda: t))(tuple(name_str(c) for c in nms)))
    else:
        names = [name_str(nms[0]) if nms else "n0" for nms in case["names"]]
    jds = [tuple(r) for r in case["jds"]]
    jds_before = [tuple(r) for r in jds]
    if patched:      # the caller already holds strict_scripted(script)
        alg = construct(case, builders, names)
        out = alg.random_clustered_graph(jds)
    else:
        with strict_scripted(script):
            alg = construct(case, builders, names)
            out = alg.random_clustered_graph(jds)
    obs = {
        "calls": [[e[0], e[1]] for e in log],
        "results": [[e[0], e[2]] for e in log],
        "shuffles": [[list(a), list(p)] for (_, a, p) in script.log],
        "script_left": len(script.answers) - script.pos,
        "input_jds_intact": [tuple(r) for r in jds] == jds_before,
    }
    if tag == NETWORK:
        G = out.G
        obs["nodes"] = sorted(enc_raw(n) for n in G.nodes())
        obs["jds_out"] = [enc_raw(G.nodes[n].get(NetworkNames.JOINT_DEGREE, -1)) for n in sorted(G.nodes())]
        es = []
        for u, v in G.edges():
            d = G.edges[u, v]
            es.append([min(u, v), max(u, v), name_code(d.get(NetworkNames.TOPOLOGY)), enc_raw(d.get(NetworkNames.MOTIF_IDS, -1))])
        obs["net_edges"] = sorted(es)
    else:
        obs["edges"] = [enc_raw(e) for e in out.edge_list]
        obs["names"] = [name_code(s) for s in out.topologies]
        obs["ids"] = [enc_raw(i) for i in out.motif_id]
        obs["jds_out"] = enc_raw(list(out.joint_degrees)) if isinstance(out.joint_degrees, (list, tuple)) else -1
    return obs


def impl_single(case):
    script = oracles.Script([("shuffle", list(pi)) for pi in case["pis"]])
    return run_real(case, script)


# ------------------------------------------------------------------ model side
def model_tree(case, with_pis=True):
    t = [case["tag"], case["jds"], case["sizes"], case["codes"], case["names"], case.get("mis", [])]
    if with_pis:
        t.append(case["pis"])
    return t


def is_err_tree(t):
    return isinstance(t, list) and len(t) == 2 and t[0] == -1 and isinstance(t[1], int)


def decode_run(raw):
    if isinstance(raw, str):
        return ["!model", raw]
    if is_err_tree(raw):
        return ["!exc", ERR.get(raw[1], "code%d" % raw[1])]
    calls, ce, cn, ci, jds, stubs = raw
    return {"calls": calls, "edges": ce, "names": cn, "ids": ci, "jds_out": jds, "stubs": stubs}


def is_exc(o):
    return isinstance(o, list) and len(o) >= 1 and o[0] == "!exc"


def norm_pair(e):
    return (min(e), max(e))


def compare_run(case, impl, model):
    """model equality (the correspondence); None = agree"""
    if isinstance(model, list) and model and model[0] == "!model":
        return "model failed: %r" % (model,)
    if is_exc(impl) or is_exc(model):
        if is_exc(impl) and is_exc(model):
            return None if impl[1] == model[1] else "exception class: impl %s model %s" % (impl[1], model[1])
        return "impl %s vs model %s" % (impl if is_exc(impl) else "returned", model if is_exc(model) else "returned")
    # oracle protocol: one shuffle per topology, each on that topology's full stub list
    sh = [s[0] for s in impl["shuffles"]]
    if sh != model["stubs"]:
        return "oracle protocol: shuffled lists %r, expected the stub lists %r" % (sh, model["stubs"])
    if impl["script_left"]:
        return "oracle protocol: %d scripted shuffles not consumed" % impl["script_left"]
    if impl["calls"] != model["calls"]:
        return "build-callback calls differ: impl %r model %r" % (impl["calls"], model["calls"])
    if impl["jds_out"] != model["jds_out"]:
        return "joint_degrees: impl %r model %r" % (impl["jds_out"], model["jds_out"])
    if not impl["input_jds_intact"]:
        return "the caller's jds was mutated"
    if case["tag"] == NETWORK:
        want = sorted(set(norm_pair(e) for e in model["edges"]))
        got = sorted((e[0], e[1]) for e in impl["net_edges"])
        if want != got:
            return "graph edge set: impl %r model %r" % (got, want)
        if impl["nodes"] != list(range(len(case["jds"]))):
            return "graph nodes %r" % (impl["nodes"],)
        cand = {}
        for e, nm, i in zip(model["edges"], model["names"], model["ids"]):
            cand.setdefault(norm_pair(e), []).append((nm, i))
        for u, v, nm, i in impl["net_edges"]:
            if (nm, i) not in cand.get((u, v), []):
                return "graph edge (%d,%d) carries (name,id)=(%r,%r), rows say %r" % (u, v, nm, i, cand.get((u, v)))
        return None
    for f in ("edges", "names", "ids"):
        if impl[f] != model[f]:
            return "%s column: impl %r model %r" % (f, impl[f], model[f])
    return None


# ------------------------------------------------------------------ checker inputs
def verts_seen(case, impl):
    if case["tag"] == NETWORK:
        return [v if isinstance(v, int) and v >= 0 else 10**9 for v in impl["nodes"]]
    out = []

    def walk(t):
        if isinstance(t, int):
            out.append(t if t >= 0 else 10**9)
        else:
            for y in t:
                walk(y)
    walk(impl["edges"])
    return out


def c01_check_tree(case, impl):
    if is_exc(impl):
        return [case["tag"], case["jds"], case["sizes"], case.get("mis", []), [], case["jds"], []]
    calls = [[j, [v if isinstance(v, int) and v >= 0 else 10**9 for v in args]] for j, args in impl["calls"]]
    jo = impl["jds_out"]
    ok_shape = isinstance(jo, list) and all(isinstance(r, list) and all(isinstance(x, int) and x >= 0 for x in r) for r in jo)
    return [case["tag"], case["jds"], case["sizes"], case.get("mis", []), calls,
            jo if ok_shape else [[10**9]], verts_seen(case, impl)]


def results_tree(impl):
    rs = []
    for j, sh in impl["results"]:
        if sh is None or sh[0] == 2:
            rs.append([j, [0, [[10**9, 10**9]]]])     # unrecognised result: cannot match any row
        elif sh[0] == 1:
            rs.append([j, [1, sh[1], sh[2]]])
        else:
            rs.append([j, [0, sh[1]]])
    return rs


def c02_check_tree(case, impl):
    """columns as observed; for the network variant the rows are read back from the graph in callback order
    (only when no vertex pair repeats, otherwise None: networkx keeps one attribute set per pair)"""
    tag = case["tag"]
    if tag == NETWORK:
        pairs = []
        for j, sh in impl["results"]:
            if sh and sh[0] == 0:
                pairs += [norm_pair(e) for e in sh[1]]
        if len(set(pairs)) != len(pairs):
            return None
        attr = {(u, v): (nm, i) for u, v, nm, i in impl["net_edges"]}
        if set(attr) != set(pairs):
            ce = [0] * (len(attr) + 1)      # edge set differs from the callbacks' edges: not a column of pairs
            return [0, case["names"], results_tree(impl), ce, [0] * len(ce), [0] * len(ce)]
        ce, cn, ci = [], [], []
        for j, sh in impl["results"]:
            for e in sh[1]:
                nm, i = attr[norm_pair(e)]
                ce.append(list(e))
                cn.append(nm)
                ci.append(i if isinstance(i, int) and i >= 0 else 10**9)
        return [0, case["names"], results_tree(impl), ce, cn, ci]
    ids = [i if isinstance(i, int) and i >= 0 else 10**9 for i in impl["ids"]]
    return [tag, case["names"], results_tree(impl), impl["edges"], impl["names"], ids]


def config_total(case):
    """builders accept the group sizes of this configuration and (custom) the naming callbacks have one name per edge"""
    tag = case["tag"]
    sizes, codes, names = case["sizes"], case["codes"], case["names"]
    T = min((len(r) for r in case["jds"]), default=0)
    if tag == MOTIFS:
        mis = case["mis"]
        if len(codes) < len(mis) or len(names) < len(mis):
            return False
        for j, idxs in enumerate(mis):
            if any(i >= len(sizes) for i in idxs):
                return False
            s = sum(sizes[i] for i in idxs)
            ne = n_edges(codes[j], s)
            if ne is None:
                return False
            if ne == "bare":
                if len(names[j]) != 1:
                    return False
            elif len(names[j]) != ne:
                return False
        return True
    if len(codes) < T or len(names) < T or len(sizes) < T:
        return False
    for k in range(T):
        if codes[k] in (BARE, PATH2L):
            return False
        if n_edges(codes[k], sizes[k]) is None:
            return False
        if len(names[k]) < 1:
            return False
    return True


# ------------------------------------------------------------------ generators
def all_perms(n):
    return [list(p) for p in itertools.permutations(range(n))]


def col_sums(jds):
    T = min((len(r) for r in jds), default=0)
    return [sum(r[k] for r in jds) for k in range(T)]


def names_for(tag, codes, sizes, mis, rng=None, base=10):
    """valid naming configuration"""
    out = []
    if tag == MOTIFS:
        for j, idxs in enumerate(mis):
            s = sum(sizes[i] for i in idxs)
            ne = n_edges(codes[j], s)
            if ne == "bare" or ne is None:
                out.append([base + 10 * j])
            else:
                if rng is not None and rng.random() < 0.3:
                    out.append([base + 10 * j] * ne)           # homogeneous names
                else:
                    out.append([base + 10 * j + (p % 10) for p in range(ne)])   # per-edge names
        return out
    return [[base + k] for k in range(len(codes))]


def pick_code(rng, tag, s):
    """a builder that accepts s vertices"""
    opts = [CLIQUE, CYCLE, STAR, NONE]
    if s == 4:
        opts += [DIAMOND, DIAMOND]
    if s >= 3:
        opts.append(PATH2)
    if tag == MOTIFS:
        if s >= 2:
            opts += [BARE, BARE]
        if s >= 3:
            opts += [PATH2L]
    if s >= 1:
        opts += [CLIQUE, CYCLE]
    return rng.choice(opts)


def random_valid_case(rng, tag, maxN=12, maxT=4, maxsize=5, maxdeg=3):
    """structured random valid input: handshake-consistent jds, builders matching the sizes"""
    T = rng.randint(1, maxT)
    N = rng.randint(1, maxN)
    if tag == MOTIFS:
        # group the T orbits into motifs (contiguous or shuffled indices)
        order = list(range(T))
        if rng.random() < 0.5:
            rng.shuffle(order)
        mis = []
        i = 0
        while i < T:
            m = rng.randint(1, min(3, T - i))
            mis.append(order[i:i + m])
            i += m
        if rng.random() < 0.3:
            rng.shuffle(mis)
    else:
        mis = [[k] for k in range(T)]
    sizes = [rng.randint(1, maxsize) if rng.random() < 0.9 else 1 for _ in range(T)]
    for idxs in mis:   # keep motif vertex counts moderate
        while sum(sizes[i] for i in idxs) > 6:
            i = rng.choice(idxs)
            sizes[i] = max(1, sizes[i] - 1)
    jds = [[0] * T for _ in range(N)]
    for idxs in mis:
        count = rng.randint(0, max(1, (N * maxdeg) // max(1, max(sizes[i] for i in idxs)) // 2))
        for i in idxs:
            for _ in range(count * sizes[i]):
                jds[rng.randrange(N)][i] += 1
    codes = []
    if tag == MOTIFS:
        for idxs in mis:
            codes.append(pick_code(rng, tag, sum(sizes[i] for i in idxs)))
    else:
        codes = [pick_code(rng, tag, sizes[k]) for k in range(T)]
    names = names_for(tag, codes, sizes, mis, rng)
    if tag != MOTIFS and rng.random() < 0.15 and T >= 2:
        names[1] = list(names[0])     # two topologies sharing one name
    sums = col_sums(jds)
    pis = []
    for k in range(T):
        p = list(range(sums[k]))
        r = rng.random()
        if r < 0.8:
            rng.shuffle(p)
        elif r < 0.9:
            p.reverse()
        pis.append(p)
    case = {"tag": tag, "via": rng.choice(VIAS), "jds": jds, "sizes": sizes, "codes": codes, "names": names,
            "mis": mis if tag == MOTIFS else [], "pis": pis}
    return case


def malformed_case(rng, tag):
    """mostly-valid case with one defect: non-divisible column sum, missing size/builder/name, zero size,
    unequal orbit counts, bad motif index, builder that rejects the group size"""
    c = random_valid_case(rng, tag, maxN=6, maxT=3, maxsize=4, maxdeg=2)
    T = len(c["sizes"])
    kind = rng.choice(["nondiv", "nondiv", "nondiv", "short-sizes", "zero-size", "short-codes", "short-names",
                       "bad-builder", "orbit-mismatch", "bad-index", "empty-idxs", "ragged"])
    N = len(c["jds"])
    if kind == "nondiv":
        k = rng.randrange(T)
        c["jds"][rng.randrange(N)][k] += rng.randint(1, max(1, c["sizes"][k] - 1))
    elif kind == "short-sizes":
        c["sizes"] = c["sizes"][:rng.randrange(T)]
    elif kind == "zero-size":
        c["sizes"][rng.randrange(T)] = 0
    elif kind == "short-codes":
        c["codes"] = c["codes"][:rng.randrange(len(c["codes"]))]
    elif kind == "short-names":
        c["names"] = c["names"][:rng.randrange(len(c["names"]))]
    elif kind == "bad-builder":
        j = rng.randrange(len(c["codes"]))
        c["codes"][j] = rng.choice([DIAMOND, PATH2, CYCLE] + ([BARE] if tag == MOTIFS else []))
    elif kind == "orbit-mismatch" and tag == MOTIFS:
        k = rng.randrange(T)
        for _ in range(c["sizes"][k]):
            c["jds"][rng.randrange(N)][k] += 1
    elif kind == "bad-index" and tag == MOTIFS:
        j = rng.randrange(len(c["mis"]))
        c["mis"][j] = c["mis"][j] + [T + rng.randint(0, 1)]
    elif kind == "empty-idxs" and tag == MOTIFS:
        c["mis"].insert(rng.randrange(len(c["mis"]) + 1), [])
        c["codes"].append(CLIQUE)
        c["names"].append([5])
    elif kind == "ragged":
        c["jds"][rng.randrange(N)].append(rng.randint(0, 2))
    sums = col_sums(c["jds"])
    pis = []
    for k in range(len(sums)):
        p = list(range(sums[k]))
        rng.shuffle(p)
        pis.append(p)
    c["pis"] = pis
    c["kind"] = kind
    return c


def small_columns(N, maxsum, maxentry):
    for col in itertools.product(range(maxentry + 1), repeat=N):
        if sum(col) <= maxsum:
            yield list(col)


def exhaustive_cases(N_max, T_max, maxentry, maxsum, tags, sizes_opts=(1, 2, 3), vias=("direct",), code_opts=None):
    """all jds with N <= N_max vertices, T <= T_max topologies, entries <= maxentry, column sums <= maxsum, all
    sizes from sizes_opts (divisible or not), ALL permutations"""
    for N in range(0, N_max + 1):
        for T in range(1, T_max + 1):
            cols = list(small_columns(N, maxsum, maxentry))
            for colset in itertools.product(cols, repeat=T):
                jds = [[colset[k][v] for k in range(T)] for v in range(N)]
                sums = [sum(c) for c in colset] if N > 0 else []
                for sizes in itertools.product(sizes_opts, repeat=T):
                    for tag in tags:
                        misopts = [[[k] for k in range(T)]]
                        if tag == MOTIFS and T == 2:
                            misopts.append([[0, 1]])
                            misopts.append([[1], [0]])
                        for mis in misopts if tag == MOTIFS else [[]]:
                            mm = mis if tag == MOTIFS else [[k] for k in range(T)]
                            codes = []
                            for idxs in mm:
                                s = sum(sizes[i] for i in idxs)
                                if code_opts:
                                    codes.append(code_opts[(s + len(codes)) % len(code_opts)])
                                else:
                                    codes.append(CLIQUE if s != 2 or tag != MOTIFS else BARE)
                            names = names_for(tag, codes, list(sizes), mm)
                            for pis in itertools.product(*[all_perms(s) for s in sums]):
                                for via in vias:
                                    yield {"tag": tag, "via": via, "jds": jds, "sizes": list(sizes), "codes": codes,
                                           "names": names, "mis": mis if tag == MOTIFS else [],
                                           "pis": [list(p) for p in pis]}


# the section-3 replay of DESIGN.md (C02): columns 2 / 2 / 4 before the repair
C02_REPLAY = {"tag": MOTIFS, "via": "direct", "jds": [[1, 1], [1, 1], [0, 1]], "sizes": [2, 3], "codes": [BARE, PATH2],
              "names": [[7], [8, 9]], "mis": [[0], [1]], "pis": [[0, 1], [0, 1, 2]]}

# the custom-motif fixture of gcmpy's own test-suite (2-clique, 3-clique, diamond on two orbits, pentagon on three)
SUITE_FIXTURE_JDS = [
    [2, 1, 0, 1, 1, 0, 0], [1, 1, 0, 1, 1, 0, 0], [3, 1, 1, 0, 0, 1, 0], [2, 0, 1, 0, 0, 1, 0], [0, 0, 0, 1, 0, 0, 1],
    [1, 0, 0, 1, 0, 0, 0], [1, 0, 1, 0, 0, 0, 0], [1, 0, 1, 0, 0, 0, 0], [1, 0, 0, 1, 0, 0, 0], [1, 0, 0, 1, 0, 0, 0],
    [1, 0, 1, 0, 0, 0, 0], [0, 0, 1, 0, 0, 0, 0]]


def suite_fixture(rng=None):
    jds = [list(r) for r in SUITE_FIXTURE_JDS]
    sizes = [2, 3, 2, 2, 2, 2, 1]
    mis = [[0], [1], [2, 3], [4, 5, 6]]
    codes = [BARE, CLIQUE, DIAMOND, CYCLE]
    names = [[20], [30, 31, 32], [40, 41, 42, 43, 44, 45], [50, 51, 52, 53, 54]]
    pis = []
    for s in col_sums(jds):
        p = list(range(s))
        if rng is not None:
            rng.shuffle(p)
        pis.append(p)
    return {"tag": MOTIFS, "via": "main", "jds": jds, "sizes": sizes, "codes": codes, "names": names, "mis": mis,
            "pis": pis}


def common_corpus():
    out = [dict(C02_REPLAY)]
    out.append(dict(C02_REPLAY, pis=[[1, 0], [2, 0, 1]]))
    out.append(suite_fixture())
    out.append(suite_fixture(_random.Random(5)))
    # C04 replay input (2-clique generator, vertices of degree zero), all three variants
    for tag in (FAST, NETWORK):
        out.append({"tag": tag, "via": "factory", "jds": [[1], [0], [1], [0]], "sizes": [2], "codes": [CLIQUE],
                    "names": [[3]], "mis": [], "pis": [[1, 0]]})
    # repeated vertex inside one group; 3-cliques and diamonds; short tail (malformed)
    out.append({"tag": FAST, "via": "main", "jds": [[2, 3], [2, 1], [0, 2], [0, 2]], "sizes": [2, 4], "codes": [CLIQUE, DIAMOND],
                "names": [[1], [2]], "mis": [], "pis": [[0, 1, 2, 3], [7, 0, 3, 1, 6, 2, 5, 4]]})
    out.append({"tag": FAST, "via": "direct", "jds": [[2], [2], [1]], "sizes": [2], "codes": [CYCLE],
                "names": [[1]], "mis": [], "pis": [[4, 3, 2, 1, 0]]})
    out.append({"tag": MOTIFS, "via": "factory", "jds": [[2, 0], [1, 1], [1, 1]], "sizes": [2, 1], "codes": [STAR],
                "names": [[4, 5]], "mis": [[0, 1]], "pis": [[3, 1, 0, 2], [1, 0]]})
    out.append({"tag": MOTIFS, "via": "direct", "jds": [], "sizes": [2], "codes": [CLIQUE], "names": [[1]], "mis": [[0]],
                "pis": []})
    out.append({"tag": FAST, "via": "direct", "jds": [], "sizes": [2], "codes": [CLIQUE], "names": [[1]], "mis": [],
                "pis": []})
    return out


def shrink_case(case):
    """smaller cases: drop a vertex, lower an entry, identity permutations"""
    jds = case["jds"]

    def with_jds(j2):
        c = dict(case)
        c["jds"] = j2
        if "pis" in case:
            c["pis"] = [list(range(s)) for s in col_sums(j2)]
        return c
    for v in range(len(jds) - 1, -1, -1):
        yield with_jds(jds[:v] + jds[v + 1:])
    for v in range(len(jds)):
        for k in range(len(jds[v])):
            if jds[v][k] > 0:
                j2 = [list(r) for r in jds]
                j2[v][k] -= 1
                yield with_jds(j2)
    if "pis" in case and any(p != list(range(len(p))) for p in case["pis"]):
        c = dict(case)
        c["pis"] = [list(range(len(p))) for p in case["pis"]]
        yield c
    if case.get("via") != "direct":
        yield dict(case, via="direct")


def describe_case(case, impl):
    d = {"generator": TAGNAME[case["tag"]], "via": case.get("via"), "jds": case["jds"][:8], "sizes": case["sizes"],
         "builders": [BUILDER_NAMES[c] for c in case["codes"]], "motif_indices": case.get("mis")}
    if isinstance(impl, dict):
        d["calls"] = impl["calls"][:6]
    else:
        d["impl"] = impl
    return d


def histo(cases):
    h = {"cases": len(cases)}
    for c in cases:
        k = "gen_" + TAGNAME[c["tag"]]
        h[k] = h.get(k, 0) + 1
        k = "via_" + c.get("via", "direct")
        h[k] = h.get(k, 0) + 1
        k = "N=%d" % min(len(c["jds"]), 13)
        h[k] = h.get(k, 0) + 1
        if "kind" in c:
            k = "malformed_" + c["kind"]
            h[k] = h.get(k, 0) + 1
        for code in c["codes"]:
            k = "builder_" + BUILDER_NAMES[code]
            h[k] = h.get(k, 0) + 1
    return h
