"""Shared machinery of C01 / C02 / C03: running the real generators of /repo under scripted
shuffles with logging build callbacks, case generators, encoders for Model/Gen.v."""
import contextlib
import itertools
import math
import random as _random

from harness import oracles

FAST, NETWORK, MOTIFS = 0, 1, 2
TAGNAME = {0: "fast", 1: "network", 2: "motifs"}
VIAS = ["direct", "factory", "main"]
ERR = {1: "IndexError", 2: "ValueError", 3: "TypeError", 9: "Unsupported"}
UNKNOWN_NAME = 4094
BAD = 4095          # sentinel for 'not a small natural number' (the model's nat is unary: keep numbers small)
NAT_MAX = 4000
OBS_LIMIT = 8000

# builder codes (Model/Gen.v builder_of_code)
CLIQUE, CYCLE, DIAMOND, BARE, PATH2, STAR, NONE, PATH2L, CLIQUENL = 0, 1, 2, 3, 4, 5, 6, 7, 8
BUILDER_NAMES = ["clique", "cycle", "diamond", "bare-edge", "path2", "star", "no-edge", "path2-list-edges",
                 "clique-dropping-self-loops"]


def n_edges(code, s):
    """number of rows a builder yields on s vertices (None = the builder rejects that size);
    'bare' for the bare edge"""
    if code in (CLIQUE, CLIQUENL):
        return s * (s - 1) // 2          # CLIQUENL: nominal (fewer when the group repeats a vertex)
    if code == CYCLE:
        return s if s >= 1 else None
    if code == DIAMOND:
        return 6 if s == 4 else None
    if code == BARE:
        return "bare" if s >= 2 else None
    if code in (PATH2, PATH2L):
        return 2 if s >= 3 else None
    if code == STAR:
        return max(s - 1, 0)
    if code == NONE:
        return 0
    return None


def py_builder(code):
    from gcmpy.motif_generators import clique_motif, cycle_motif, diamond_motif
    if code == CLIQUE:
        return clique_motif
    if code == CYCLE:
        return cycle_motif
    if code == DIAMOND:
        return diamond_motif
    if code == BARE:
        return lambda vs: (vs[0], vs[1])
    if code == PATH2:
        return lambda vs: ((vs[0], vs[1]), (vs[1], vs[2]))
    if code == STAR:
        return lambda vs: [(vs[0], v) for v in vs[1:]]
    if code == NONE:
        return lambda vs: []
    if code == PATH2L:
        return lambda vs: ([vs[0], vs[1]], [vs[1], vs[2]])
    if code == CLIQUENL:
        return lambda vs: [(a, b) for i, a in enumerate(vs) for b in vs[i + 1:] if a != b]
    raise ValueError(code)


def enc_raw(x):
    """edge-column entry -> tree (ints stay ints, sequences become lists, anything else -1)"""
    if isinstance(x, bool):
        return -1
    if isinstance(x, int):
        return x
    if isinstance(x, (tuple, list)):
        return [enc_raw(y) for y in x]
    try:
        import numpy as np
        if isinstance(x, np.integer):
            return int(x)
    except Exception:  # noqa: BLE001
        pass
    return -1


def is_pair(t):
    return isinstance(t, list) and len(t) == 2 and all(isinstance(a, int) and a >= 0 for a in t)


def shape_of(res):
    """result of a build callback -> [0, [[a,b]...]] (sequence of edges) | [1, a, b] (bare edge) | [2] (other)"""
    if isinstance(res, (tuple, list)):
        if len(res) == 2 and all(isinstance(a, int) and not isinstance(a, bool) for a in res):
            return [1, res[0], res[1]]
        if all(isinstance(e, (tuple, list)) and len(e) == 2 and
               all(isinstance(a, int) and not isinstance(a, bool) for a in e) for e in res):
            return [0, [[e[0], e[1]] for e in res]]
    return [2]


def name_str(c):
    return "n%d" % c


def name_code(s):
    if isinstance(s, str) and s.startswith("n") and s[1:].isdigit():
        return int(s[1:])
    return UNKNOWN_NAME


# forms in which a callback may hand back its result (lesson 18: one-shot iterables).  The naming callbacks' results
# only ever go through list.extend, so any iterable is legal -- a FRESH object per call; the build callbacks' results
# are measured with len() and indexed, so they are tuples or lists (of tuples or lists).
NFORMS = ["tuple", "list", "iter", "gen", "map", "repeat"]
BFORMS = ["asis", "tuple", "list", "list-of-lists"]
# a single BARE edge may itself be written as a tuple (u, v) or as a list [u, v] (both are re-packed by the fast
# generator and stored as one entry by the custom one).  "bare-list" / "list-bare-list": the bare edge as a LIST, a
# sequence of edges as is / as a list of tuples.  Not for the network variant: its conversion keys dicts by the edge
# entries, a list entry is unhashable there (same reason as for "list-of-lists").
BARE_LIST_FORMS = ["bare-list", "list-bare-list"]


def make_namer(t, form):
    """naming callback returning the names `t` (tuple of str) in the given form, a new object on every call"""
    t = tuple(t)
    if form == "list":
        return lambda: list(t)
    if form == "iter":
        return lambda: iter(t)
    if form == "gen":
        def g():
            for x in t:
                yield x
        return g
    if form == "map":
        return lambda: map(str, t)
    if form == "repeat":
        if t and len(set(t)) == 1:
            return lambda: itertools.repeat(t[0], len(t))
        return lambda: itertools.chain(t[:1], t[1:])
    return lambda: t


def reform_build(r, form):
    """the build callback's result `r` converted to the requested container types (same edges, same order)"""
    if form == "asis" or not isinstance(r, (tuple, list)):
        return r
    bare = len(r) == 2 and all(isinstance(a, int) for a in r)
    if bare:
        return list(r) if form in ("list-of-lists", "bare-list", "list-bare-list") else r
    if form == "bare-list":
        return r
    if form == "list-bare-list":
        return list(r)
    if form == "tuple":
        return tuple(tuple(e) if isinstance(e, list) else e for e in r)
    if form == "list":
        return list(r)
    return [list(e) if isinstance(e, tuple) else e for e in r]


def add_forms(case, rng=None, k=None):
    """give the case callback-result forms: drawn from rng, or the k-th combination of a fixed rotation"""
    n_cb = max(1, len(case.get("codes", [])))
    # edges as LISTS only for the custom generator (the network conversion keys dicts by the edge entries)
    tag = case.get("tag")
    bforms = BFORMS + BARE_LIST_FORMS if tag == MOTIFS else BFORMS[:3] + (BARE_LIST_FORMS if tag == FAST else [])
    if rng is not None:
        case["nforms"] = [rng.choice(NFORMS) for _ in range(n_cb)]
        case["bform"] = rng.choice(bforms)
    else:
        case["nforms"] = [NFORMS[(k + j) % len(NFORMS)] for j in range(n_cb)]
        case["bform"] = bforms[(k // len(NFORMS)) % len(bforms)]
    return case


class Forbidden(oracles.OracleProtocol):
    pass


_NPR = []


def _numpy_random():
    if not _NPR:
        try:
            import numpy.random as npr
            _NPR.append(npr)
        except Exception:  # noqa: BLE001
            _NPR.append(None)
    return _NPR[0]


@contextlib.contextmanager
def strict_scripted(script):
    """oracles.scripted + every other way of obtaining randomness raises (re-seeding, private
    Random instances, numpy) -- the generators must take all their randomness from random.shuffle"""
    import gcmpy.gcm_algorithm  # noqa: F401  (networkx subclasses random.Random while it is imported)
    import gcmpy.network  # noqa: F401

    def forbid(name):
        def f(*a, **k):
            raise Forbidden("unscripted randomness entry point used: " + name)
        return f

    saved = {}
    extra = ["seed", "setstate", "sample", "randint", "getrandbits", "uniform", "randbytes", "Random", "SystemRandom"]
    with oracles.scripted(script):
        for n in extra:
            if hasattr(script, n):
                saved[n] = getattr(_random, n)
                setattr(_random, n, getattr(script, n))
            elif hasattr(_random, n):
                saved[n] = getattr(_random, n)
                setattr(_random, n, forbid("random." + n))
        np_saved = {}
        npr = _numpy_random()
        if npr is not None:
            for n in ["shuffle", "permutation", "seed", "default_rng", "choice"]:
                np_saved[n] = getattr(npr, n)
                setattr(npr, n, forbid("numpy.random." + n))
        try:
            yield script
        finally:
            for n, v in saved.items():
                setattr(_random, n, v)
            for n, v in np_saved.items():
                setattr(npr, n, v)


def construct(case, builders, names):
    from gcmpy.gcm_algorithm import (GCMAlgorithmCustomMotifs, GCMAlgorithmFactory, GCMAlgorithmFast,
                                     GCMAlgorithmMain, GCMAlgorithmNetwork, GCMAlgorithmTypes)
    from gcmpy.names.gcm_algorithm_names import GCMAlgorithmNames
    tag = case["tag"]
    params = {
        GCMAlgorithmNames.MOTIF_SIZES: list(case["sizes"]),
        GCMAlgorithmNames.BUILD_FUNCTIONS: builders,
        GCMAlgorithmNames.EDGE_NAMES: names,
    }
    if tag == MOTIFS:
        params[GCMAlgorithmNames.MOTIF_INDICES] = [list(x) for x in case["mis"]]
    via = case.get("via", "direct")
    if via == "direct":
        cls = {FAST: GCMAlgorithmFast, NETWORK: GCMAlgorithmNetwork, MOTIFS: GCMAlgorithmCustomMotifs}[tag]
        return cls(params)
    ty = {FAST: GCMAlgorithmTypes.FAST, NETWORK: GCMAlgorithmTypes.NETWORK, MOTIFS: GCMAlgorithmTypes.MOTIFS}[tag]
    if via == "factory":
        return GCMAlgorithmFactory.resolve_algorithm(ty, params)
    params[GCMAlgorithmNames.GCM_TYPE] = ty.value
    return GCMAlgorithmMain.load_gcm_algorithm(params)


class Runner:
    """holds ONE algorithm object and ONE jds list object; every step of a history runs on them"""

    def __init__(self, case):
        self.case = case
        self.log = []
        self.alg = None
        self.jds_obj = []
        self.last_out = None
        tag = case["tag"]

        bform = case.get("bform", "asis")
        nforms = case.get("nforms") or ["tuple"]

        def wrap(j, code):
            fn = py_builder(code)

            def cb(vs):
                entry = [j, [enc_raw(v) for v in vs], None]
                if type(vs) is not list or any(type(v) is not int for v in vs):
                    self.bad_arg_types = "%s of %s" % (type(vs).__name__, sorted({type(v).__name__ for v in vs}))
                self.log.append(entry)
                r = reform_build(fn(vs), bform)
                entry[2] = shape_of(r)
                return r
            return cb

        self.builders = [wrap(j, c) for j, c in enumerate(case["codes"])]
        if tag == MOTIFS:
            names = []
            for j, nms in enumerate(case["names"]):
                code = case["codes"][j] if j < len(case["codes"]) else None
                if code == BARE:
                    names.append((lambda s: (lambda: s))(name_str(nms[0]) if nms else "n0"))
                else:
                    # tuple / list / iterator / generator / map / repeat, a fresh object per call (a callback hoisted
                    # out of the per-motif loop exhausts the one-shot forms after the first motif: C02-r3-3)
                    names.append(make_namer(tuple(name_str(c) for c in nms), nforms[j % len(nforms)]))
        else:
            names = [name_str(nms[0]) if nms else "n0" for nms in case["names"]]
        self.names = names
        self.names_before = list(names)
        self.bad_arg_types = None
        self.decoys = []
        self.params_snapshot = None
        self.keep_results = False

    def snapshot(self):
        a = self.alg
        return [repr(getattr(a, "_motif_sizes", None)), repr(getattr(a, "_motif_indices", None)),
                len(getattr(a, "_build_functions", []) or []), [x is y for x, y in zip(self.names, self.names_before)],
                len(self.names)]

    def damage_last(self):
        """what a caller may legitimately do with a returned object before generating again"""
        out = self.last_out
        if out is None:
            return
        try:
            if hasattr(out, "G"):
                out.G.add_edge(0, 0)
                out.G.graph["seen"] = True
            else:
                out.edge_list.append((0, 0))
                out.topologies.clear()
                out.motif_id.append(77)
        except Exception:  # noqa: BLE001
            pass

    def run_decoy(self):
        """a SECOND algorithm object (other parameters) is built and run, and stays alive, before the first one's
        result is read: class-level / module-level state shared between instances shows up here"""
        case = self.case
        d = {"tag": case["tag"], "via": "direct", "sizes": [1, 2, 1][:max(1, len(case["sizes"]))] + [1] * 3,
             "mis": [[0]], "codes": [CLIQUE]}
        names = ["decoy"] if case["tag"] != MOTIFS else [lambda: ("decoy",)]
        orc = FreeOracle(12345)
        with free_scripted(orc):
            alg = construct(d, [py_builder(STAR)], names)
            out = alg.random_clustered_graph([(2,), (1,), (1,)])
        self.decoys.append((alg, out))

    def step(self, jds_rows, script, patched=False, rows="tuple"):
        from gcmpy.names.network_names import NetworkNames
        case = self.case
        tag = case["tag"]
        mk = tuple if rows == "tuple" else list
        self.jds_obj[:] = [mk(r) for r in jds_rows]          # the SAME list object, new contents
        jds = self.jds_obj
        jds_before = [mk(r) for r in jds]
        types_before = [type(r) for r in jds]
        del self.log[:]
        if not self.keep_results:        # a caller that COLLECTS the results leaves them alone
            self.damage_last()

        def go():
            if self.alg is None:
                self.alg = construct(case, self.builders, self.names)
                self.params_snapshot = self.snapshot()
            return self.alg.random_clustered_graph(jds)
        if patched:      # the caller already holds the patched random module
            out = go()
        else:
            with strict_scripted(script):
                out = go()
        self.last_out = out
        log = list(self.log)
        if case.get("decoy"):
            self.run_decoy()
        obs = {
            "calls": [[e[0], e[1]] for e in log],
            "results": [[e[0], e[2]] for e in log],
            "shuffles": [[list(a), list(p)] for (_, a, p) in script.log],
            "script_left": len(script.answers) - script.pos,
            "arg_types": self.bad_arg_types,
            "input_jds_intact": (list(jds) == jds_before and [type(r) for r in jds] == types_before
                                 and self.snapshot() == self.params_snapshot),
        }
        obs.update(self.read_out(out))
        return obs

    def read_out(self, out):
        """what a returned object holds NOW (also used to re-observe a result kept from an earlier call)"""
        from gcmpy.names.network_names import NetworkNames
        tag = self.case["tag"]
        obs = {}
        if tag == NETWORK:
            G = out.G
            obs["nodes"] = sorted(enc_raw(n) for n in G.nodes())
            obs["jds_out"] = [enc_raw(G.nodes[n].get(NetworkNames.JOINT_DEGREE, -1)) for n in sorted(G.nodes())]
            es = []
            for u, v in G.edges():
                d = G.edges[u, v]
                es.append([min(u, v), max(u, v), name_code(d.get(NetworkNames.TOPOLOGY)),
                           enc_raw(d.get(NetworkNames.MOTIF_IDS, -1))])
            obs["net_edges"] = sorted(es)
        else:
            # columns longer than any generated case can produce are cut (a runaway implementation must not
            # exhaust memory; the cut columns still differ from the model's and fail the checker)
            lim = OBS_LIMIT if max(len(out.edge_list), len(out.topologies), len(out.motif_id)) <= OBS_LIMIT else 60
            obs["edges"] = [enc_raw(e) for e in out.edge_list[:lim]]
            obs["names"] = [name_code(s) for s in out.topologies[:lim]]
            obs["ids"] = [enc_raw(i) for i in out.motif_id[:lim]]
            obs["jds_out"] = enc_raw(list(out.joint_degrees)) if isinstance(out.joint_degrees, (list, tuple)) else -1
        return obs


def run_real(case, script, patched=False):
    """one run of the real generator on a fresh object under `script`; exceptions propagate"""
    return Runner(case).step(case["jds"], script, patched, case.get("rows", "tuple"))


class FreeOracle:
    """primitive-agnostic fallback: answers ANY random entry point from a private seeded generator and logs what was
    asked.  Used when the implementation does not follow the shuffle protocol: its outputs are still judged by the
    verified checkers (the property does not care which primitive is used); the mismatch itself is a correspondence
    failure only."""

    def __init__(self, seed):
        self.rng = _random.Random(seed)
        self.log = []
        self.answers = []
        self.pos = 0
        self.asked = []

    def shuffle(self, x):
        perm = list(range(len(x)))
        self.rng.shuffle(perm)
        self.log.append(("shuffle", list(x), perm))
        self.asked.append("shuffle")
        old = list(x)
        for i, p in enumerate(perm):
            x[i] = old[p]

    def randrange(self, a, b=None, step=1):
        self.asked.append("randrange")
        return self.rng.randrange(a, b, step) if b is not None else self.rng.randrange(a)

    def randint(self, a, b):
        self.asked.append("randint")
        return self.rng.randint(a, b)

    def choice(self, seq):
        self.asked.append("choice")
        return self.rng.choice(seq)

    def sample(self, population, k):
        self.asked.append("sample")
        return self.rng.sample(list(population), k)

    def random(self):
        self.asked.append("random")
        return self.rng.random()

    def choices(self, population, weights=None, *, cum_weights=None, k=1):
        self.asked.append("choices")
        return self.rng.choices(population, weights, cum_weights=cum_weights, k=k)

    def seed(self, *a, **k):
        self.asked.append("seed")


@contextlib.contextmanager
def free_scripted(oracle):
    import gcmpy.gcm_algorithm  # noqa: F401
    import gcmpy.network  # noqa: F401
    names = ["shuffle", "choice", "randrange", "randint", "random", "choices", "sample", "seed"]
    saved = {n: getattr(_random, n) for n in names}
    for n in names:
        setattr(_random, n, getattr(oracle, n))
    try:
        yield oracle
    finally:
        for n, v in saved.items():
            setattr(_random, n, v)


def steps_of(case):
    if "steps" in case:
        return [dict(case, jds=st["jds"], pis=st["pis"]) for st in case["steps"]]
    return [case]


def impl_case(case):
    """all steps of the case on ONE algorithm object and ONE jds list; returns {'steps': [obs...]}.
    If the implementation leaves the shuffle protocol, the case is re-run under the primitive-agnostic oracle and the
    observation carries 'protocol' (reported by compare; the checkers still judge the outputs)."""
    import zlib
    steps = steps_of(case)
    keep = bool(case.get("keep"))
    try:
        r = Runner(case)
        r.keep_results = keep
        out, kept = [], []
        for st in steps:
            script = oracles.Script([("shuffle", list(pi)) for pi in st["pis"]])
            out.append(r.step(st["jds"], script, False, case.get("rows", "tuple")))
            kept.append(r.last_out)
        if keep:
            reobserve(r, out, kept)
        return {"steps": out}
    except oracles.OracleProtocol as e:
        msg = "%s: %s" % (type(e).__name__, e)
    r = Runner(case)
    r.keep_results = keep
    out, kept = [], []
    for i, st in enumerate(steps):
        orc = FreeOracle(zlib.crc32(repr((case.get("tag"), st["jds"], i)).encode()))
        with free_scripted(orc):
            o = r.step(st["jds"], orc, True, case.get("rows", "tuple"))
        o["protocol"] = msg + " (asked: %s)" % ",".join(orc.asked[:6])
        out.append(o)
        kept.append(r.last_out)
    if keep:
        reobserve(r, out, kept)
    return {"steps": out}


# case['keep']: the caller KEEPS every returned object (untouched) while it generates again on the same algorithm object,
# and reads them all after the last call.  What a kept result holds then is judged by the same row checker, against the
# callback results logged for the call that returned it (results of successive calls must not alias each other).
# joint_degrees is left out: the edge list carries the caller's own jds list, which a history refills in place.
LATER_FIELDS = ("edges", "names", "ids", "nodes", "net_edges")


def reobserve(runner, obs_list, kept):
    for o, res in zip(obs_list, kept):
        try:
            now = runner.read_out(res)
            o["later"] = {f: now[f] for f in LATER_FIELDS if f in now}
        except Exception as e:  # noqa: BLE001
            o["later"] = {"edges": [-1], "names": [], "ids": [], "nodes": [], "net_edges": [], "error": type(e).__name__}


def later_changed(o):
    lt = o.get("later") if isinstance(o, dict) else None
    return lt is not None and any(f in o and o[f] != lt.get(f) for f in LATER_FIELDS)


def later_check_calls(case, impl_obs, vacuous):
    """one more c02_check per step of a 'keep' case: the rows the kept result shows after the last call"""
    if not case.get("keep") or not isinstance(impl_obs, dict):
        return []
    calls = []
    for st, o in zip(steps_of(case), impl_obs["steps"]):
        t = None
        if isinstance(o, dict) and o.get("later") is not None:
            o2 = dict(o)
            o2.update({f: v for f, v in o["later"].items() if f in LATER_FIELDS})
            t = c02_check_tree(st, o2)
        calls.append(("c02_check", t if t is not None else vacuous))
    return calls


def later_verdict(case, impl_obs, raws_later, valid):
    """raws_later: the answers to later_check_calls; valid[i]: the hypotheses hold for step i"""
    if not case.get("keep") or not isinstance(impl_obs, dict):
        return None
    n = len(impl_obs["steps"])
    for i, (o, v) in enumerate(zip(impl_obs["steps"], raws_later)):
        if valid[i] and v != 1 and later_changed(o):
            return ("c02_check rejected the result of call %d of %d on the same algorithm object when it was read again after "
                    "the last call (the caller kept it untouched): its rows are no longer, block by block, the edges the build "
                    "callbacks returned for that call, with its topology's name and one private id per instance" % (i + 1, n))
    return None


# ------------------------------------------------------------------ model side
def model_tree(case, with_pis=True):
    t = [case["tag"], case["jds"], case["sizes"], case["codes"], case["names"], case.get("mis", [])]
    if with_pis:
        t.append(case["pis"])
    return t


def is_err_tree(t):
    return isinstance(t, list) and len(t) == 2 and t[0] == -1 and isinstance(t[1], int)


def decode_run(raw):
    if isinstance(raw, str):
        return ["!model", raw]
    if is_err_tree(raw):
        return ["!exc", ERR.get(raw[1], "code%d" % raw[1])]
    calls, ce, cn, ci, jds, stubs = raw
    return {"calls": calls, "edges": ce, "names": cn, "ids": ci, "jds_out": jds, "stubs": stubs}


def is_exc(o):
    return isinstance(o, list) and len(o) >= 1 and o[0] == "!exc"


def norm_pair(e):
    return (min(e), max(e))


def compare_run(case, impl, model):
    """model equality (the correspondence); None = agree"""
    if isinstance(model, list) and model and model[0] == "!model":
        return "model failed: %r" % (model,)
    if is_exc(impl) or is_exc(model):
        if is_exc(impl) and is_exc(model):
            return None if impl[1] == model[1] else "exception class: impl %s model %s" % (impl[1], model[1])
        return "impl %s vs model %s" % (impl if is_exc(impl) else "returned", model if is_exc(model) else "returned")
    if impl.get("protocol"):
        return "oracle protocol: " + impl["protocol"]
    # oracle protocol: one shuffle per topology, each on that topology's full stub list
    sh = [s[0] for s in impl["shuffles"]]
    if sh != model["stubs"]:
        return "oracle protocol: shuffled lists %r, expected the stub lists %r" % (sh, model["stubs"])
    if impl["script_left"]:
        return "oracle protocol: %d scripted shuffles not consumed" % impl["script_left"]
    if impl["calls"] != model["calls"]:
        return "build-callback calls differ: impl %r model %r" % (impl["calls"], model["calls"])
    if impl["jds_out"] != model["jds_out"]:
        return "joint_degrees: impl %r model %r" % (impl["jds_out"], model["jds_out"])
    if impl.get("arg_types"):
        return "a build callback received %s instead of a list of Python ints" % impl["arg_types"]
    if not impl["input_jds_intact"]:
        return "the caller's jds / the algorithm's configuration was mutated by the call"
    if case["tag"] == NETWORK:
        want = sorted(set(norm_pair(e) for e in model["edges"]))
        got = sorted((e[0], e[1]) for e in impl["net_edges"])
        if want != got:
            return "graph edge set: impl %r model %r" % (got, want)
        if impl["nodes"] != list(range(len(case["jds"]))):
            return "graph nodes %r" % (impl["nodes"],)
        cand = {}
        for e, nm, i in zip(model["edges"], model["names"], model["ids"]):
            cand.setdefault(norm_pair(e), []).append((nm, i))
        for u, v, nm, i in impl["net_edges"]:
            if (nm, i) not in cand.get((u, v), []):
                return "graph edge (%d,%d) carries (name,id)=(%r,%r), rows say %r" % (u, v, nm, i, cand.get((u, v)))
        return None
    for f in ("edges", "names", "ids"):
        if impl[f] != model[f]:
            return "%s column: impl %r model %r" % (f, impl[f], model[f])
    return None


# ------------------------------------------------------------------ checker inputs
def verts_seen(case, impl):
    if case["tag"] == NETWORK:
        return [v if isinstance(v, int) and v >= 0 else BAD for v in impl["nodes"]]
    out = []

    def walk(t):
        if isinstance(t, int):
            out.append(t if t >= 0 else BAD)
        else:
            for y in t:
                walk(y)
    walk(impl["edges"])
    return out


def clamp(t, neg=BAD):
    """every int outside 0..NAT_MAX becomes a sentinel (negative ones `neg`)"""
    if isinstance(t, bool):
        return int(t)
    if isinstance(t, int):
        if t < 0:
            return neg
        return t if t <= NAT_MAX else BAD
    return [clamp(x, neg) for x in t]


def c01_check_tree(case, impl):
    if is_exc(impl):
        return [case["tag"], case["jds"], case["sizes"], case.get("mis", []), [], case["jds"], [], []]
    calls = [[j, [v if isinstance(v, int) and v >= 0 else BAD for v in args]] for j, args in impl["calls"]]
    jo = impl["jds_out"]
    ok_shape = isinstance(jo, list) and all(isinstance(r, list) and all(isinstance(x, int) and x >= 0 for x in r) for r in jo)
    return clamp([case["tag"], case["jds"], case["sizes"], case.get("mis", []), calls,
                  jo if ok_shape else [[BAD]], verts_seen(case, impl), results_tree(impl)])


def results_tree(impl):
    rs = []
    for j, sh in impl["results"]:
        if sh is None or sh[0] == 2:
            rs.append([j, [0, [[BAD, BAD]]]])     # unrecognised result: cannot match any row
        elif sh[0] == 1:
            rs.append([j, [1, sh[1], sh[2]]])
        else:
            rs.append([j, [0, sh[1]]])
    return rs


def c02_check_tree(case, impl):
    """columns as observed; for the network variant the rows are read back from the graph in callback order.
    networkx keeps ONE attribute set per vertex pair, so a pair the callbacks produced more than once cannot be read
    back: those pairs are left out -- of the callback results and of the rows alike -- and the verified block checker
    judges the rest (every pair produced exactly once must carry its topology's name and its motif's private id;
    C01_network_variant: 'a pair produced once carries its row's name and id')."""
    tag = case["tag"]
    if tag == NETWORK:
        def edges_of_shape(sh):
            if sh and sh[0] == 0:
                return [list(e) for e in sh[1]]
            if sh and sh[0] == 1:
                return [[sh[1], sh[2]]]           # a bare edge (u, v): one row (the fast generator re-packs it)
            return []
        per_call = [(j, edges_of_shape(sh)) for j, sh in impl["results"]]
        cnt = {}
        for _, es in per_call:
            for e in es:
                cnt[norm_pair(e)] = cnt.get(norm_pair(e), 0) + 1
        attr = {(u, v): (nm, i) for u, v, nm, i in impl["net_edges"]}
        if set(attr) != set(cnt):
            ce = [0] * (len(attr) + 1)      # edge set differs from the callbacks' edges: not a column of pairs
            return clamp([0, case["names"], results_tree(impl), ce, [0] * len(ce), [0] * len(ce)])
        ce, cn, ci, res = [], [], [], []
        for j, es in per_call:
            keep = [e for e in es if cnt[norm_pair(e)] == 1]
            res.append([j, [0, keep]])
            for e in keep:
                nm, i = attr[norm_pair(e)]
                ce.append(list(e))
                cn.append(nm)
                ci.append(i if isinstance(i, int) and i >= 0 else BAD)
        return clamp([0, case["names"], res, ce, cn, ci])
    ids = [i if isinstance(i, int) and i >= 0 else BAD for i in impl["ids"]]
    return [tag] + clamp([case["names"], results_tree(impl)]) + [clamp(impl["edges"], neg=-1)] + clamp([impl["names"], ids])


def results_check_tree(case, impl):
    """input of c01_check_results: builder codes, the logged calls and the logged results (None when a callback
    raised or returned something that is no edge sequence: nothing to compare with the specification)"""
    if any(sh is None or sh[0] == 2 for _, sh in impl["results"]):
        return None
    calls = [[j, [v if isinstance(v, int) and v >= 0 else BAD for v in args]] for j, args in impl["calls"]]
    return clamp([case["codes"], calls, results_tree(impl)])


def config_total(case):
    """builders accept the group sizes of this configuration and (custom) the naming callbacks have one name per edge"""
    tag = case["tag"]
    sizes, codes, names = case["sizes"], case["codes"], case["names"]
    T = min((len(r) for r in case["jds"]), default=0)
    if tag == MOTIFS:
        mis = case["mis"]
        if len(codes) < len(mis) or len(names) < len(mis):
            return False
        for j, idxs in enumerate(mis):
            if any(i >= len(sizes) for i in idxs):
                return False
            s = sum(sizes[i] for i in idxs)
            ne = n_edges(codes[j], s)
            if ne is None or codes[j] == CLIQUENL:
                return False              # the naming callback has a fixed length: no varying edge count here
            if ne == "bare":
                if len(names[j]) != 1:
                    return False
            elif len(names[j]) != ne:
                return False
        return True
    if len(codes) < T or len(names) < T or len(sizes) < T:
        return False
    for k in range(T):
        if codes[k] == PATH2L:
            return False
        if n_edges(codes[k], sizes[k]) is None:
            return False
        if len(names[k]) < 1:
            return False
    return True


# ------------------------------------------------------------------ case level (single run or history)
def model_calls_case(entry, case):
    return [(entry, model_tree(st)) for st in steps_of(case)]


def model_obs_case(raws):
    return [decode_run(r) for r in raws]


def compare_case(case, impl, model):
    steps = steps_of(case)
    if is_exc(impl):
        if len(steps) == 1:
            return compare_run(case, impl, model[0])
        errs = [m for m in model if is_exc(m)]
        if errs and errs[0][1] == impl[1]:
            return None
        return "history: implementation raised %s, model %r" % (impl[1], errs[:1] or "returned")
    for i, (st, o, m) in enumerate(zip(steps, impl["steps"], model)):
        d = compare_run(st, o, m)
        if d:
            return d if len(steps) == 1 else "step %d of %d on the same object: %s" % (i, len(steps), d)
    for i, o in enumerate(impl["steps"]):
        if later_changed(o):
            return ("the result of call %d of %d (kept untouched by the caller) changed when the same algorithm object "
                    "generated again" % (i + 1, len(steps)))
    return None


def history_case(rng, tag):
    """2-3 generations on the SAME algorithm object and the SAME jds list (contents replaced in place, the object
    returned before is damaged by the caller in between); identical repeats included"""
    c = random_valid_case(rng, tag, maxN=7, maxT=3, maxsize=4, maxdeg=2)
    T = len(c["sizes"])
    steps = [{"jds": c["jds"], "pis": c["pis"]}]
    for _ in range(rng.randint(1, 2)):
        r = rng.random()
        if r < 0.3:
            prev = steps[-1]
            steps.append({"jds": [list(x) for x in prev["jds"]], "pis": [list(p) for p in prev["pis"]]})
            continue
        N = rng.randint(1, 7)
        jds = [[0] * T for _ in range(N)]
        mis = c["mis"] if tag == MOTIFS else [[k] for k in range(T)]
        for idxs in mis:
            count = rng.randint(0, 3)
            for i in idxs:
                for _ in range(count * c["sizes"][i]):
                    jds[rng.randrange(N)][i] += 1
        pis = []
        for k in range(T):
            p = list(range(sum(row[k] for row in jds)))
            rng.shuffle(p)
            pis.append(p)
        steps.append({"jds": jds, "pis": pis})
    c["steps"] = steps
    c["rows"] = rng.choice(["tuple", "list"])
    c["decoy"] = rng.random() < 0.5
    if rng.random() < 0.4:
        c["keep"] = True         # the returned objects are kept untouched and read again after the last call
    return c


LIBRARY_CODES = (CLIQUE, CYCLE, DIAMOND)


def repeat_tuple_case(rng, tag):
    """the library's own builders called again and again with EQUAL ordered vertex tuples (lesson 28): as many
    vertices as the motif size, every vertex of the same degree in every topology, shuffle answers that deal the same
    ordered tuple to every group -- of one topology, of several topologies with different builders (a diamond and a
    4-cycle on the same four vertices), and, as a history, of a second generation on the same object.  A builder
    that remembers anything about an argument tuple it has seen (memoised result handed out by reference and
    extended by a caller) answers differently the second time."""
    s_ = rng.choice([2, 3, 4, 4, 4, 4, 5])
    T = rng.randint(1, 3)
    lib = [CLIQUE, CYCLE] + ([DIAMOND, DIAMOND] if s_ == 4 else [])
    codes = [rng.choice(lib) for _ in range(T)]
    if s_ == 4 and DIAMOND not in codes:
        codes[rng.randrange(T)] = DIAMOND
    sizes = [s_] * T
    deg = [rng.randint(1, 2) for _ in range(T)]
    jds = [[deg[k] for k in range(T)] for _ in range(s_)]
    tau = list(range(s_))
    rng.shuffle(tau)
    pis = []
    for k in range(T):
        t = list(tau)
        if rng.random() < 0.25:
            rng.shuffle(t)
        c = deg[k]
        pis.append([t[i] * c + j for j in range(c) for i in range(s_)])
    mis = [[k] for k in range(T)]
    names = names_for(tag, codes, sizes, mis, rng, base=rng.choice([10, 300]))
    case = {"tag": tag, "via": rng.choice(VIAS), "jds": jds, "sizes": sizes, "codes": codes, "names": names,
            "mis": mis if tag == MOTIFS else [], "pis": pis}
    if rng.random() < 0.5:
        n = rng.randint(2, 3)
        case["steps"] = [{"jds": [list(r) for r in jds], "pis": [list(p) for p in pis]} for _ in range(n)]
        case["rows"] = rng.choice(["tuple", "list"])
    return case


def big_case(rng, tag):
    """sizes, degrees and counts beyond the usual range (motif sizes 9..17, degrees up to 20, N up to 60)"""
    T = rng.randint(1, 2)
    N = rng.randint(9, 60)
    sizes = [rng.choice([9, 10, 16, 17, 2, 3]) for _ in range(T)]
    if all(x < 9 for x in sizes):
        sizes[0] = rng.choice([9, 16, 17])
    mis = [[k] for k in range(T)]
    if tag == MOTIFS and T == 2 and rng.random() < 0.5:
        mis = [[1, 0]]
    jds = [[0] * T for _ in range(N)]
    for idxs in mis:
        count = rng.randint(1, 9)
        for i in idxs:
            for _ in range(count * sizes[i]):
                v = rng.randrange(N) if rng.random() < 0.7 else rng.randrange(min(N, 3))   # a few high-degree vertices
                jds[v][i] += 1
    codes = []
    for idxs in (mis if tag == MOTIFS else [[k] for k in range(T)]):
        s_ = sum(sizes[i] for i in idxs)
        codes.append(rng.choice([CLIQUE, CYCLE, STAR]) if s_ <= 17 else rng.choice([CYCLE, STAR]))
    names = names_for(tag, codes, sizes, mis if tag == MOTIFS else [[k] for k in range(T)], rng)
    pis = []
    for k in range(T):
        p = list(range(sum(r[k] for r in jds)))
        rng.shuffle(p)
        pis.append(p)
    c = {"tag": tag, "via": rng.choice(VIAS), "jds": jds, "sizes": sizes, "codes": codes, "names": names,
         "mis": mis if tag == MOTIFS else [], "pis": pis, "decoy": rng.random() < 0.3}
    if rng.random() < 0.6:
        add_forms(c, rng)
    return c


# ------------------------------------------------------------------ LARGE outputs, checker only (lesson 13)
# Edge lists with more than 2^16 motif instances: beyond anything the unary-nat model can run (and beyond where a
# fixed-width id column wraps, C02-r3-2).  The real fast / network generator runs under the REAL seeded random module;
# the logged callback results and the three columns go to the verified checker over Z (Gen.c02_check_ids), no model.
HUGE_LIMIT = 400000


def huge_spec(rng, tag=None):
    """parameters of one large run (the case stays small: the jds is rebuilt from them).  Layouts: 'deg1' = every
    vertex has one stub (all motifs vertex disjoint: also good for the network variant); 'hubs' = 1000-2000 vertices
    with degrees around 70-140 (pairs repeat, self loops occur: edge-list variant only)"""
    layout = rng.choice(["deg1", "hubs"]) if tag in (None, FAST) else "deg1"
    n2 = rng.randint(66000, 70000)                 # 2-cliques: more than 2^16 motif instances of one edge each
    n3 = rng.choice([0, 0, rng.randint(1, 400)])   # sometimes a few triangles (blocks of three rows) at the end
    first = rng.random() < 0.5 and n3 > 0          # ... or in front (topology order)
    return {"layout": layout, "n2": n2, "n3": n3, "tri_first": first, "N": rng.randint(1000, 2000),
            "seed": rng.randrange(1 << 30)}


def huge_jds(spec):
    """the jds of a large run: list of tuples, columns in topology order"""
    r = _random.Random(spec["seed"] ^ 0x5EED)
    s2, s3 = 2 * spec["n2"], 3 * spec["n3"]
    if spec["layout"] == "deg1":
        rows = [(1, 0)] * s2 + [(0, 1)] * s3
        r.shuffle(rows)
    else:
        N = spec["N"]
        cnt = [[0, 0] for _ in range(N)]
        for _ in range(s2):
            cnt[r.randrange(N)][0] += 1
        for _ in range(s3):
            cnt[r.randrange(N)][1] += 1
        rows = [tuple(c) for c in cnt]
    if spec["n3"] == 0:
        return [(a,) for a, _ in rows]
    if spec["tri_first"]:
        return [(b, a) for a, b in rows]
    return rows


def huge_case(rng, tag=None):
    tag = tag if tag is not None else rng.choice([FAST, FAST, NETWORK])
    spec = huge_spec(rng, tag)
    if spec["n3"] == 0:
        sizes, names = [2], [[rng.choice([11, 300])]]
    elif spec["tri_first"]:
        sizes, names = [3, 2], [[31], [21]]
    else:
        sizes, names = [2, 3], [[21], [31]]
    return {"tag": tag, "via": rng.choice(VIAS), "jds": [], "pis": [], "sizes": sizes, "codes": [CLIQUE] * len(sizes),
            "names": names, "mis": [], "huge": spec, "bform": rng.choice(BFORMS[:3])}


def run_huge(case):
    """observation of one large run: logged callback results (index, edges), the three columns (for the network
    variant read back from the graph in callback order), all as plain ints; None entries / -1 for anything else"""
    from gcmpy.names.network_names import NetworkNames
    spec = case["huge"]
    jds = huge_jds(spec)
    log = []
    bform = case.get("bform", "asis")

    def wrap(j, code):
        fn = py_builder(code)

        def cb(vs):
            r = reform_build(fn(vs), bform)
            log.append((j, r))
            return r
        return cb
    builders = [wrap(j, c) for j, c in enumerate(case["codes"])]
    names = [name_str(n[0]) for n in case["names"]]
    state = _random.getstate()
    try:
        _random.seed(spec["seed"])
        alg = construct(case, builders, names)
        out = alg.random_clustered_graph(jds)
    finally:
        _random.setstate(state)
    results = []
    for j, r in log[:HUGE_LIMIT]:
        sh = shape_of(r)
        results.append([j, [[sh[1], sh[2]]] if sh[0] == 1 else sh[1] if sh[0] == 0 else [[-1, -1]]])
    obs = {"huge": True, "n_calls": len(log), "results": results}
    if case["tag"] == NETWORK:
        G = out.G
        ce, cn, ci = [], [], []
        seen = set()
        dup = False
        for j, es in results:
            for a, b in es:
                key = (min(a, b), max(a, b))
                dup = dup or key in seen
                seen.add(key)
                d = G.edges[a, b] if G.has_edge(a, b) else {}
                ce.append([a, b])
                cn.append(name_code(d.get(NetworkNames.TOPOLOGY)))
                ci.append(enc_raw(d.get(NetworkNames.MOTIF_IDS, -1)))
        obs["repeated_pairs"] = dup or G.number_of_edges() != len(seen)
        obs["edges"], obs["names"], obs["ids"] = ce, cn, ci
    else:
        obs["edges"] = [enc_raw(e) for e in out.edge_list[:HUGE_LIMIT]]
        obs["names"] = [name_code(x) for x in out.topologies[:HUGE_LIMIT]]
        obs["ids"] = [enc_raw(i) for i in out.motif_id[:HUGE_LIMIT]]
    return obs


def huge_check_tree(case, obs):
    ids = [i if isinstance(i, int) and not isinstance(i, bool) else -1 for i in obs["ids"]]
    return [[n[0] for n in case["names"]], obs["results"], obs["edges"], obs["names"], ids]


# ------------------------------------------------------------------ generators
def all_perms(n):
    return [list(p) for p in itertools.permutations(range(n))]


def col_sums(jds):
    T = min((len(r) for r in jds), default=0)
    return [sum(r[k] for r in jds) for k in range(T)]


def names_for(tag, codes, sizes, mis, rng=None, base=10):
    """valid naming configuration"""
    out = []
    if tag == MOTIFS:
        for j, idxs in enumerate(mis):
            s = sum(sizes[i] for i in idxs)
            ne = n_edges(codes[j], s)
            if ne == "bare" or ne is None:
                out.append([base + 10 * j])
            else:
                if rng is not None and rng.random() < 0.3:
                    out.append([base + 10 * j] * ne)           # homogeneous names
                else:
                    out.append([base + 10 * j + (p % 10) for p in range(ne)])   # per-edge names
        return out
    return [[base + k] for k in range(len(codes))]


def pick_code(rng, tag, s):
    """a builder that accepts s vertices"""
    opts = [CLIQUE, CYCLE, STAR, NONE]
    if s == 4:
        opts += [DIAMOND, DIAMOND]
    if s >= 3:
        opts.append(PATH2)
    if s >= 2:
        opts += [BARE, BARE]          # a single bare edge (u, v): custom motifs and (since the fix) the fast generator
    if tag == MOTIFS:
        if s >= 3:
            opts += [PATH2L]
    if s >= 1:
        opts += [CLIQUE, CYCLE]
    if tag != MOTIFS and s >= 2:
        opts += [CLIQUENL, CLIQUENL]
    return rng.choice(opts)


def random_valid_case(rng, tag, maxN=12, maxT=4, maxsize=5, maxdeg=3):
    """structured random valid input: handshake-consistent jds, builders matching the sizes"""
    T = rng.randint(1, maxT)
    N = rng.randint(1, maxN)
    if tag == MOTIFS:
        # group the T orbits into motifs (contiguous or shuffled indices)
        order = list(range(T))
        if rng.random() < 0.5:
            rng.shuffle(order)
        mis = []
        i = 0
        while i < T:
            m = rng.randint(1, min(3, T - i))
            mis.append(order[i:i + m])
            i += m
        if rng.random() < 0.3:
            rng.shuffle(mis)
    else:
        mis = [[k] for k in range(T)]
    sizes = [rng.randint(1, maxsize) if rng.random() < 0.9 else 1 for _ in range(T)]
    for idxs in mis:   # keep motif vertex counts moderate
        while sum(sizes[i] for i in idxs) > 6:
            i = rng.choice(idxs)
            sizes[i] = max(1, sizes[i] - 1)
    jds = [[0] * T for _ in range(N)]
    for idxs in mis:
        count = rng.randint(0, max(1, (N * maxdeg) // max(1, max(sizes[i] for i in idxs)) // 2))
        for i in idxs:
            for _ in range(count * sizes[i]):
                jds[rng.randrange(N)][i] += 1
    codes = []
    if tag == MOTIFS:
        for idxs in mis:
            codes.append(pick_code(rng, tag, sum(sizes[i] for i in idxs)))
    else:
        codes = [pick_code(rng, tag, sizes[k]) for k in range(T)]
    names = names_for(tag, codes, sizes, mis, rng, base=rng.choice([10, 300, 7]))
    if rng.random() < 0.5:
        # names are not in alphabetical / index order: permute the codes over the topologies, keeping row counts
        flat = sorted({c for nm in names for c in nm})
        perm = list(flat)
        rng.shuffle(perm)
        ren = dict(zip(flat, perm))
        names = [[ren[c] for c in nm] for nm in names]
    if tag != MOTIFS and rng.random() < 0.15 and T >= 2:
        names[1] = list(names[0])     # two topologies sharing one name
    sums = col_sums(jds)
    pis = []
    for k in range(T):
        p = list(range(sums[k]))
        r = rng.random()
        if r < 0.8:
            rng.shuffle(p)
        elif r < 0.9:
            p.reverse()
        pis.append(p)
    case = {"tag": tag, "via": rng.choice(VIAS), "jds": jds, "sizes": sizes, "codes": codes, "names": names,
            "mis": mis if tag == MOTIFS else [], "pis": pis}
    if rng.random() < 0.6:
        add_forms(case, rng)
    return case


def malformed_case(rng, tag):
    """mostly-valid case with one defect: non-divisible column sum, missing size/builder/name, zero size,
    unequal orbit counts, bad motif index, builder that rejects the group size"""
    c = random_valid_case(rng, tag, maxN=6, maxT=3, maxsize=4, maxdeg=2)
    T = len(c["sizes"])
    kind = rng.choice(["nondiv", "nondiv", "nondiv", "short-sizes", "zero-size", "short-codes", "short-names",
                       "bad-builder", "orbit-mismatch", "bad-index", "empty-idxs", "ragged"])
    N = len(c["jds"])
    if kind == "nondiv":
        k = rng.randrange(T)
        c["jds"][rng.randrange(N)][k] += rng.randint(1, max(1, c["sizes"][k] - 1))
    elif kind == "short-sizes":
        c["sizes"] = c["sizes"][:rng.randrange(T)]
    elif kind == "zero-size":
        c["sizes"][rng.randrange(T)] = 0
    elif kind == "short-codes":
        c["codes"] = c["codes"][:rng.randrange(len(c["codes"]))]
    elif kind == "short-names":
        c["names"] = c["names"][:rng.randrange(len(c["names"]))]
    elif kind == "bad-builder":
        j = rng.randrange(len(c["codes"]))
        c["codes"][j] = rng.choice([DIAMOND, PATH2, CYCLE] + ([BARE] if tag == MOTIFS else []))
    elif kind == "orbit-mismatch" and tag == MOTIFS:
        k = rng.randrange(T)
        for _ in range(c["sizes"][k]):
            c["jds"][rng.randrange(N)][k] += 1
    elif kind == "bad-index" and tag == MOTIFS:
        j = rng.randrange(len(c["mis"]))
        c["mis"][j] = c["mis"][j] + [T + rng.randint(0, 1)]
    elif kind == "empty-idxs" and tag == MOTIFS:
        c["mis"].insert(rng.randrange(len(c["mis"]) + 1), [])
        c["codes"].append(CLIQUE)
        c["names"].append([5])
    elif kind == "ragged":
        c["jds"][rng.randrange(N)].append(rng.randint(0, 2))
    sums = col_sums(c["jds"])
    pis = []
    for k in range(len(sums)):
        p = list(range(sums[k]))
        rng.shuffle(p)
        pis.append(p)
    c["pis"] = pis
    c["kind"] = kind
    return c


def small_columns(N, maxsum, maxentry):
    for col in itertools.product(range(maxentry + 1), repeat=N):
        if sum(col) <= maxsum:
            yield list(col)


def exhaustive_cases(N_max, T_max, maxentry, maxsum, tags, sizes_opts=(1, 2, 3), vias=("direct",), code_opts=None):
    """all jds with N <= N_max vertices, T <= T_max topologies, entries <= maxentry, column sums <= maxsum, all
    sizes from sizes_opts (divisible or not), ALL permutations"""
    for N in range(0, N_max + 1):
        for T in range(1, T_max + 1):
            cols = list(small_columns(N, maxsum, maxentry))
            for colset in itertools.product(cols, repeat=T):
                jds = [[colset[k][v] for k in range(T)] for v in range(N)]
                sums = [sum(c) for c in colset] if N > 0 else []
                for sizes in itertools.product(sizes_opts, repeat=T):
                    for tag in tags:
                        misopts = [[[k] for k in range(T)]]
                        if tag == MOTIFS and T == 2:
                            misopts.append([[0, 1]])
                            misopts.append([[1], [0]])
                        for mis in misopts if tag == MOTIFS else [[]]:
                            mm = mis if tag == MOTIFS else [[k] for k in range(T)]
                            codes = []
                            for idxs in mm:
                                s = sum(sizes[i] for i in idxs)
                                if code_opts:
                                    codes.append(code_opts[(s + len(codes)) % len(code_opts)])
                                else:
                                    codes.append(CLIQUE if s != 2 or tag != MOTIFS else BARE)
                            names = names_for(tag, codes, list(sizes), mm)
                            for pis in itertools.product(*[all_perms(s) for s in sums]):
                                for via in vias:
                                    yield {"tag": tag, "via": via, "jds": jds, "sizes": list(sizes), "codes": codes,
                                           "names": names, "mis": mis if tag == MOTIFS else [],
                                           "pis": [list(p) for p in pis]}


# the section-3 replay of DESIGN.md (C02): columns 2 / 2 / 4 before the repair
C02_REPLAY = {"tag": MOTIFS, "via": "direct", "jds": [[1, 1], [1, 1], [0, 1]], "sizes": [2, 3], "codes": [BARE, PATH2],
              "names": [[7], [8, 9]], "mis": [[0], [1]], "pis": [[0, 1], [0, 1, 2]]}

# the custom-motif fixture of gcmpy's own test-suite (2-clique, 3-clique, diamond on two orbits, pentagon on three)
SUITE_FIXTURE_JDS = [
    [2, 1, 0, 1, 1, 0, 0], [1, 1, 0, 1, 1, 0, 0], [3, 1, 1, 0, 0, 1, 0], [2, 0, 1, 0, 0, 1, 0], [0, 0, 0, 1, 0, 0, 1],
    [1, 0, 0, 1, 0, 0, 0], [1, 0, 1, 0, 0, 0, 0], [1, 0, 1, 0, 0, 0, 0], [1, 0, 0, 1, 0, 0, 0], [1, 0, 0, 1, 0, 0, 0],
    [1, 0, 1, 0, 0, 0, 0], [0, 0, 1, 0, 0, 0, 0]]


def suite_fixture(rng=None):
    jds = [list(r) for r in SUITE_FIXTURE_JDS]
    sizes = [2, 3, 2, 2, 2, 2, 1]
    mis = [[0], [1], [2, 3], [4, 5, 6]]
    codes = [BARE, CLIQUE, DIAMOND, CYCLE]
    names = [[20], [30, 31, 32], [40, 41, 42, 43, 44, 45], [50, 51, 52, 53, 54]]
    pis = []
    for s in col_sums(jds):
        p = list(range(s))
        if rng is not None:
            rng.shuffle(p)
        pis.append(p)
    return {"tag": MOTIFS, "via": "main", "jds": jds, "sizes": sizes, "codes": codes, "names": names, "mis": mis,
            "pis": pis}


def common_corpus():
    out = [dict(C02_REPLAY)]
    out.append(dict(C02_REPLAY, pis=[[1, 0], [2, 0, 1]]))
    out.append(suite_fixture())
    out.append(suite_fixture(_random.Random(5)))
    # C04 replay input (2-clique generator, vertices of degree zero), all three variants
    for tag in (FAST, NETWORK):
        out.append({"tag": tag, "via": "factory", "jds": [[1], [0], [1], [0]], "sizes": [2], "codes": [CLIQUE],
                    "names": [[3]], "mis": [], "pis": [[1, 0]]})
    # repeated vertex inside one group; 3-cliques and diamonds; short tail (malformed)
    out.append({"tag": FAST, "via": "main", "jds": [[2, 3], [2, 1], [0, 2], [0, 2]], "sizes": [2, 4], "codes": [CLIQUE, DIAMOND],
                "names": [[1], [2]], "mis": [], "pis": [[0, 1, 2, 3], [7, 0, 3, 1, 6, 2, 5, 4]]})
    out.append({"tag": FAST, "via": "direct", "jds": [[2], [2], [1]], "sizes": [2], "codes": [CYCLE],
                "names": [[1]], "mis": [], "pis": [[4, 3, 2, 1, 0]]})
    out.append({"tag": MOTIFS, "via": "factory", "jds": [[2, 0], [1, 1], [1, 1]], "sizes": [2, 1], "codes": [STAR],
                "names": [[4, 5]], "mis": [[0, 1]], "pis": [[3, 1, 0, 2], [1, 0]]})
    out.append({"tag": MOTIFS, "via": "direct", "jds": [], "sizes": [2], "codes": [CLIQUE], "names": [[1]], "mis": [[0]],
                "pis": []})
    out.append({"tag": FAST, "via": "direct", "jds": [], "sizes": [2], "codes": [CLIQUE], "names": [[1]], "mis": [],
                "pis": []})
    # the same ordered vertex tuple handed to the library builders repeatedly: a diamond and a 4-cycle topology on the
    # same four vertices; two generations on one object (C01-r6-2: a memoised cycle list extended by diamond_motif)
    out.append({"tag": FAST, "via": "direct", "jds": [[1, 1]] * 4, "sizes": [4, 4], "codes": [DIAMOND, CYCLE],
                "names": [[1], [2]], "mis": [], "pis": [[2, 0, 1, 3], [2, 0, 1, 3]]})
    st = {"jds": [[2]] * 4, "pis": [[2, 6, 0, 4, 3, 7, 1, 5]]}
    out.append({"tag": MOTIFS, "via": "factory", "jds": st["jds"], "sizes": [4], "codes": [DIAMOND],
                "names": [[40, 41, 42, 43, 44, 45]], "mis": [[0]], "pis": st["pis"], "steps": [dict(st), dict(st)]})
    # the network variant with a repeated ORDERED pair followed by a multi-edge motif and a topology boundary
    # (C01-r6-3: only the edge column de-duplicated before the conversion)
    out.append({"tag": NETWORK, "via": "direct", "jds": [[2, 1], [2, 1], [0, 1], [0, 0]], "sizes": [2, 3],
                "codes": [CLIQUE, CLIQUE], "names": [[7], [8]], "mis": [], "pis": [[0, 2, 1, 3], [2, 0, 1]]})
    # the fast generator with a bare-edge callback in front of another topology (C01-r6-1: label / id columns
    # computed from the length before the re-pack)
    out.append({"tag": FAST, "via": "main", "jds": [[1, 1], [1, 1], [0, 1]], "sizes": [2, 3], "codes": [BARE, CLIQUE],
                "names": [[7], [8]], "mis": [], "pis": [[1, 0], [2, 0, 1]]})
    # the same with the bare edge written as a LIST [u, v] (C01-r7-1 / C02-r7-2: re-pack narrowed to tuples), direct
    # and through the factory, on bare edges cut from a larger motif size as well
    out.append({"tag": FAST, "via": "direct", "jds": [[1, 1], [1, 1], [0, 1]], "sizes": [2, 3], "codes": [BARE, CLIQUE],
                "names": [[7], [8]], "mis": [], "pis": [[1, 0], [2, 0, 1]], "bform": "bare-list", "nforms": ["tuple"]})
    out.append({"tag": FAST, "via": "factory", "jds": [[1, 2], [1, 2], [1, 2]], "sizes": [3, 2], "codes": [BARE, BARE],
                "names": [[7], [8]], "mis": [], "pis": [[2, 0, 1], [5, 1, 0, 4, 2, 3]], "bform": "list-bare-list",
                "nforms": ["tuple"]})
    return out


def shrink_case(case):
    """smaller cases: drop a vertex, lower an entry, identity permutations"""
    if "steps" in case:
        st = case["steps"]
        if len(st) > 1:
            for i in range(len(st)):
                yield dict(case, steps=st[:i] + st[i + 1:])
        else:
            c = {k: v for k, v in case.items() if k != "steps"}
            c["jds"], c["pis"] = st[0]["jds"], st[0]["pis"]
            yield c
        return
    jds = case["jds"]

    def with_jds(j2):
        c = dict(case)
        c["jds"] = j2
        if "pis" in case:
            c["pis"] = [list(range(s)) for s in col_sums(j2)]
        return c
    for v in range(len(jds) - 1, -1, -1):
        yield with_jds(jds[:v] + jds[v + 1:])
    for v in range(len(jds)):
        for k in range(len(jds[v])):
            if jds[v][k] > 0:
                j2 = [list(r) for r in jds]
                j2[v][k] -= 1
                yield with_jds(j2)
    if "pis" in case and any(p != list(range(len(p))) for p in case["pis"]):
        c = dict(case)
        c["pis"] = [list(range(len(p))) for p in case["pis"]]
        yield c
    if case.get("via") != "direct":
        yield dict(case, via="direct")


def describe_case(case, impl):
    d = {"generator": TAGNAME[case["tag"]], "via": case.get("via"), "jds": case["jds"][:8], "sizes": case["sizes"],
         "builders": [BUILDER_NAMES[c] for c in case["codes"]], "motif_indices": case.get("mis")}
    if "nforms" in case:
        d["naming_callbacks_return"] = case["nforms"]
        d["build_callbacks_return"] = case.get("bform")
    if "steps" in case:
        d["history_steps_on_one_object"] = len(case["steps"])
    if isinstance(impl, dict) and "steps" in impl:
        d["calls"] = impl["steps"][0]["calls"][:6]
    elif isinstance(impl, dict):
        d["calls"] = impl.get("calls", [])[:6]
    else:
        d["impl"] = impl
    return d


def histo(cases):
    h = {"cases": len(cases)}
    for c in cases:
        k = "gen_" + TAGNAME[c["tag"]]
        h[k] = h.get(k, 0) + 1
        k = "via_" + c.get("via", "direct")
        h[k] = h.get(k, 0) + 1
        k = "N=%d" % min(len(c["jds"]), 13)
        h[k] = h.get(k, 0) + 1
        if "kind" in c:
            k = "malformed_" + c["kind"]
            h[k] = h.get(k, 0) + 1
        if "steps" in c:
            k = "history_%d_steps" % len(c["steps"])
            h[k] = h.get(k, 0) + 1
        for code in c["codes"]:
            k = "builder_" + BUILDER_NAMES[code]
            h[k] = h.get(k, 0) + 1
        if c["tag"] == MOTIFS:
            for f in set(c.get("nforms", ["tuple"])):
                k = "names_as_" + f
                h[k] = h.get(k, 0) + 1
        k = "build_result_" + c.get("bform", "asis")
        h[k] = h.get(k, 0) + 1
    return h
