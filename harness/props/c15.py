"""C15 — AutomatedEquation.automated_equation vs the exact bond-percolation expectation.

The REAL code is run with exact polynomial arguments (harness/props/poly.py) on ONE shared evaluator per
stream of calls; per call the returned polynomial is compared coefficient-wise with the model's
(Model/AutoEq.v, state machine with the two caches) and judged by the verified checker c15_check
(= polynomial identity with the exact expectation) and c15_check_enum (components enumerated exactly once).
"""
import ast
import itertools

from harness.props.poly import Poly

ID = "C15"
RULE = ("streams of calls (motif name, graph, root, substitution for phi and for every u_v) on ONE shared "
        "AutomatedEquation object; phi/u are exact polynomials: own variable, another vertex's variable, or a small "
        "integer constant (passed as Poly, int or float); quick: every labelled graph on <= 4 vertices x every root "
        "(connected or not, isolated vertices included) + a seeded sample of 5-vertex graphs + random connected graphs "
        "with 6-7 arbitrarily labelled vertices and <= 11 edges; thorough: every graph on <= 5 vertices x every root; "
        "BLOCK FAMILY (183 graphs on 5-9 vertices: chains of 2-3 two-connected blocks -- triangle, 4-cycle, K4, diamond -- "
        "joined by a cut vertex, a bridge or a path through one extra vertex, attachment points over the orbit "
        "representatives of the blocks, i.e. graphs whose edge / vertex connectivity is below their minimum degree): all "
        "with <= 9 edges x every root, all with 10 (thorough: 10-11) edges x one root per position class (degree, "
        "neighbour degrees, distance profile), a seeded sample of 6+2 with 11-12 (thorough 16+6 with 12-13) edges x two "
        "position classes, half of them relabelled; the three smallest (two triangles joined by a bridge / a path) in the corpus; "
        "same-named motif re-evaluated with other roots / phi / u later in the stream, in half of the streams on the SAME "
        "networkx object with only the u attributes re-installed; graphs carry node / edge / graph attributes and are "
        "compared before/after every call (data and iteration order); in 40% of the streams a second (decoy) evaluator is "
        "alive and fed other motifs under the same names; a third of the small graphs and all random ones carry "
        "non-contiguous labels up to 257 in shuffled insertion order; a malformed stream (root not in "
        "the motif); the corpus starts with focal vertex 0 in motifs whose first inserted vertex is another one (and phi = 0 / "
        "u_v = 0 as Poly, int, float); the focal vertex is always handed over as an int object of its own (equal to, not "
        "identical with, the graph's key; labels up to 511). MP STREAMS (6 in the corpus, 46 quick / 182 thorough): the same "
        "calls made through the library's other public entry point MessagePassing.resolve_equation(focal, cover label, "
        "messages) on ONE MessagePassing object (iterations=0, theoretical(phi) installs phi) over an edge-disjoint covered "
        "network = 1-3 motifs of the stream (13 shapes: edge .. 6-cycle, and every connected graph on <= 4 vertices) + "
        "FOREIGN motifs joining two non-adjacent vertices of a motif (its chords covered as separate 2-cliques / triangles / "
        "4-cycles over new vertices), pendant edges, motifs glued at one vertex; cover labels '<key>-[vertices]-[edges]-<uid>' "
        "with the integer key assigned per topology in seven ways (clique size, edge count, index from 1 / from 0, a code, "
        "arbitrary numbers, the VERTEX COUNT n naming a non-complete topology on n vertices), vertex / edge literals spelled as list, tuple, without spaces, edges as lists, uids overlapping "
        "or disjoint from the vertex labels; every (motif, focal) incl. the foreign motifs, heterogeneous messages, repeated "
        "later; 40% with a decoy MessagePassing object (same labels, every motif a path); judged by the same checker against "
        "the motif WRITTEN IN THE LABEL. Non-trivial = the call's motif contains a cycle and the polynomial has >= 6 monomials; distinct "
        "by (nodes, edges, root, substitution)")
EXHAUSTIVE = {"quick": True, "thorough": True}
EXPLANATION = ("C15_identity_general (= C15_full, PROVED): for EVERY well-formed motif of any size with arbitrary vertex labels, "
               "every root and all rational phi / heterogeneous u the automated equation equals the exact expectation "
               "(classical regrouping of the edge subsets by the root's component, proved in general; also for every "
               "iteration-order schedule of the enumeration: C15_identity_general_any_order); C15_enum_general / "
               "C15_enum_ok_general: enumeration correct for all sizes and schedules; C15_identity_upto_5 (kept as an independent "
               "check): polynomial identity auto = expectation for ALL 1100 labelled graphs on <= 5 "
               "vertices and every root (reflection, lifted through ring_correct to all rational phi, u); "
               "C15_history, C15_exact_in_unit, C15_expectation_rec general; C15_check_accepts_only_model: whatever the "
               "verified checker accepts agrees everywhere with the model's polynomial (any motif size). "
               "Correspondence exhaustive over all graphs <= 4 (quick) / <= 5 (thorough) vertices x roots; the same motifs are "
               "also evaluated through MessagePassing.resolve_equation on covered networks (the motif = the vertex / edge lists of "
               "the cover label, whatever other motifs touch its vertices) and judged by the same checker.")
ASSUMPTIONS = [
    "networkx Graph.copy / remove_edges_from / remove_nodes_from / neighbors / is_connected / edges behave as modelled "
    "(their results are compared with the model's on every case)",
    "itertools.combinations enumerates k-subsets (only the multiset of sizes matters)",
    "motifs are simple graphs with integer vertices; distinct motifs carry distinct G.name (hypothesis of the property)",
]
TRUSTED = ["exact polynomial class harness/props/poly.py (Fractions; + - * pow) standing in for phi / u"]
TECHNIQUE = ("Coq: general proof of the regrouping identity (weighted sums over edge subsets in edge-by-edge form, "
             "factorisation over internal / interface / outside edges, reachability closure = path relation, general "
             "correctness of the backtracking enumeration); independently polynomial reflection (Ring_polynom "
             "normaliser + ring_correct, axiom-free) over all graphs on <= 5 "
             "vertices; general induction for the cache state machine and the unit-interval bound; verified checker "
             "run on the implementation's polynomial output; model/implementation correspondence")
LEVEL_TEXT = (
    "coq/Props/C15.v. GENERAL (all motif sizes, arbitrary labels): C15_identity_general / C15_full_holds - for every "
    "well-formed motif (distinct nodes, simple edges between listed nodes, connected or not), every root of it and ALL "
    "rational phi and heterogeneous u the model's automated equation (sum over the enumerated connected vertex sets C "
    "containing the root of (1-phi)^#interface(C) * prod u * sum over the removable edge sets of the reduced graph) "
    "equals the exact expectation (explicit sum over all edge subsets); C15_identity_general_any_order - the same for "
    "every iteration-order schedule of the enumeration; C15_identity_general_poly / C15_check_accepts_only_model - the "
    "same on the level of the reported polynomial expressions: a polynomial accepted by the verified checker agrees "
    "at every rational point with the model's; C15_enum_general - for every graph and every iteration-order schedule "
    "the enumeration returns only vertex lists grown from the root and every such vertex set exactly once; "
    "C15_history_exact - end to end: on ONE evaluator, every call of every history on well-formed, distinctly named "
    "motifs returns the exact expectation of its own arguments (or raises when the root is not a vertex); "
    "C15_enum_ok_general - the enumeration checker's property (every networkx-connected vertex subset containing the "
    "root exactly once, nothing else) holds for every well-formed graph, root and schedule; C15_history - on one "
    "evaluator, for every call history in which equal names denote "
    "equal motifs, every returned value equals the value of a fresh evaluator (cache invariant); C15_exact_in_unit - "
    "0<=phi<=1, 0<=u<=1 => 0 <= expectation <= 1; C15_expectation_rec - the edge-by-edge recursive form equals the "
    "explicit sum; C15_check_sound - the checker run on the implementation's polynomial accepts only polynomials equal "
    "to the expectation for all rational arguments. BOUNDED, kept as independent checks of the general theorems: "
    "C15_identity_upto_5 (all 1100 labelled graphs on <= 5 vertices, every root, vm_compute reflection + "
    "ring_correct), C15_enum_ok_upto_5 / C15_enum_rev_ok_upto_5. Nothing of C15_full remains unproved.")
LEVEL_NOTE = ("Trusted: Coq kernel incl. vm_compute (bounded reflection theorems and non-vacuity examples only; the "
              "general identity is a plain proof); extraction + OCaml driver + Python harness and the exact "
              "polynomial class for the correspondence; networkx primitives as modelled. No axioms (Print Assumptions: "
              "closed under the global context). Set-iteration order of the enumeration is a schedule parameter of the "
              "model (enum_ord); the value is proved order-independent (C15_identity_general_any_order).")

IMPL_TIMEOUT = 120.0
BATCH = 12      # streams are slow; core stops after the first batch that holds a concrete violation


# ----------------------------------------------------------------- helpers
def _all_pairs(k):
    return [(i, j) for i in range(k) for j in range(i + 1, k)]


def _graphs_on(k):
    ps = _all_pairs(k)
    for mask in range(1 << len(ps)):
        yield [list(ps[i]) for i in range(len(ps)) if mask >> i & 1]


def _connected(nodes, edges):
    if not nodes:
        return False
    adj = {v: set() for v in nodes}
    for a, b in edges:
        adj[a].add(b)
        adj[b].add(a)
    seen = {nodes[0]}
    todo = [nodes[0]]
    while todo:
        v = todo.pop()
        for w in adj[v]:
            if w not in seen:
                seen.add(w)
                todo.append(w)
    return len(seen) == len(nodes)


def _ident_sub(nodes):
    return {"phi": [1, 1, 0], "u": []}


def _rand_sub(rng, nodes, root):
    """substitution: phi and each u_v -> own variable / other variable / small integer constant"""
    mode = rng.random()
    if mode < 0.45:
        return {"phi": [1, 1, 0], "u": []}
    phi = [1, 1, 0] if rng.random() < 0.5 else [0, rng.choice([-1, 0, 1, 2, 3]), rng.randint(0, 2)]
    u = []
    for v in nodes:
        r = rng.random()
        if r < 0.4:
            continue
        if r < 0.6:
            u.append([v, [1, rng.choice(nodes) + 2, 0]])
        elif r < 0.7:
            u.append([v, [1, 1, 0]])  # u_v := phi
        else:
            u.append([v, [0, rng.choice([-2, -1, 0, 1, 2, 3]), rng.randint(0, 2)]])
    return {"phi": phi, "u": u}


def _call(name, nodes, edges, root, sub):
    return {"name": name, "nodes": list(nodes), "edges": [list(e) for e in edges], "root": root,
            "phi": sub["phi"], "u": sub["u"]}


def _stream(rng, graphs, all_roots=True, extra_subs=1, bad_roots=False, roots_of=None):
    """graphs: list of (nodes, edges).  Every graph gets a distinct name; calls (graph, root) are interleaved in a
    shuffled order; some are repeated later with another substitution (same name: cache hits).
    roots_of(nodes, edges) -> roots to use (default: all / one random)."""
    calls = []
    for name, (nodes, edges) in enumerate(graphs):
        if roots_of is not None:
            roots = roots_of(nodes, edges)
        else:
            roots = list(nodes) if all_roots else [rng.choice(nodes)]
        for r in roots:
            calls.append(_call(name, nodes, edges, r, _ident_sub(nodes)))
            for _ in range(extra_subs):
                if rng.random() < 0.5:
                    calls.append(_call(name, nodes, edges, r, _rand_sub(rng, nodes, r)))
        if bad_roots:
            calls.append(_call(name, nodes, edges, max(nodes) + 1 + rng.randint(0, 2), _ident_sub(nodes)))
    rng.shuffle(calls)
    return {"calls": calls, "reuse": rng.random() < 0.5, "decoy": rng.random() < 0.4}


def _rand_connected(rng, n, max_edges, labels):
    nodes = rng.sample(labels, n)
    # random spanning tree + extra edges
    edges = set()
    order = nodes[:]
    rng.shuffle(order)
    for i in range(1, n):
        a = order[i]
        b = order[rng.randrange(i)]
        edges.add((min(a, b), max(a, b)))
    allp = [(min(a, b), max(a, b)) for a, b in itertools.combinations(nodes, 2)]
    extra = rng.randint(0, max_edges - (n - 1))
    for e in rng.sample(allp, len(allp)):
        if len(edges) >= (n - 1) + extra:
            break
        edges.add(e)
    edges = [list(e) if rng.random() < 0.5 else [e[1], e[0]] for e in edges]
    rng.shuffle(edges)
    return nodes, edges


LABELS = list(range(0, 12)) + [15, 16, 17, 31, 32, 33, 63, 64, 65, 100, 257, 258, 300, 511]
AMBIG = [1, 2, 3, 11, 12, 13, 21, 23, 31, 32, 111, 112, 121, 123, 211, 231, 311, 312]


def _relabel(rng, nodes, edges):
    """non-contiguous labels beyond the small-int range, shuffled insertion order, random edge orientation"""
    new = rng.sample(LABELS, len(nodes))
    mp = dict(zip(nodes, new))
    ns = [mp[v] for v in nodes]
    rng.shuffle(ns)
    es = [[mp[a], mp[b]] if rng.random() < 0.5 else [mp[b], mp[a]] for a, b in edges]
    rng.shuffle(es)
    return ns, es


DIAMOND = ([0, 1, 2, 3], [[0, 1], [0, 2], [1, 2], [1, 3], [2, 3]])
K4 = ([0, 1, 2, 3], [list(p) for p in _all_pairs(4)])
C5 = ([0, 1, 2, 3, 4], [[0, 1], [1, 2], [2, 3], [3, 4], [4, 0]])
BOWTIE = ([5, 1, 9, 3, 7], [[5, 1], [1, 9], [9, 5], [9, 3], [3, 7], [7, 9]])
HOUSE = ([0, 1, 2, 3, 4, 5], [[0, 1], [1, 2], [2, 3], [3, 0], [0, 4], [1, 4], [4, 5]])


# ----------------------------------------------------------------- structured family: blocks joined by bridges
# 2-3 two-connected blocks (triangle, 4-cycle, K4, diamond) in a chain, consecutive blocks joined by a shared CUT
# VERTEX ('c'), a BRIDGE edge ('b') or a PATH through one extra vertex ('p'); the attachment vertices run over the
# orbit representatives of the blocks' automorphism groups (vertices for the end blocks, ordered vertex pairs for the
# middle block), so every way of hanging the blocks together occurs once.  These are the graphs whose edge / vertex
# connectivity is BELOW their minimum degree (C15-r3-2: a shortcut that is right for every graph on <= 5 vertices and
# for 111 of the 112 connected 6-vertex graphs); uniformly random 6-7 vertex graphs almost never look like this.
_BLOCKS = {
    "T": (3, [(0, 1), (1, 2), (0, 2)]),
    "C4": (4, [(0, 1), (1, 2), (2, 3), (3, 0)]),
    "K4": (4, _all_pairs(4)),
    "D": (4, [(0, 1), (0, 2), (1, 2), (1, 3), (2, 3)]),
}


def _orbit_reps(k, es):
    E = {frozenset(e) for e in es}
    auts = [p for p in itertools.permutations(range(k)) if all(frozenset((p[a], p[b])) in E for a, b in es)]
    seen, vs = set(), []
    for v in range(k):
        if v not in seen:
            vs.append(v)
            seen |= {p[v] for p in auts}
    seen, ps = set(), []
    for a in range(k):
        for b in range(k):
            if (a, b) not in seen:
                ps.append((a, b))
                seen |= {(p[a], p[b]) for p in auts}
    return vs, ps


def _chain(seq, att, joins):
    nodes, edges, nxt, prev_out = [], [], 0, None
    for i, nm in enumerate(seq):
        k, es = _BLOCKS[nm]
        vin, vout = att[i]
        mp = {}
        if i > 0 and joins[i - 1] == "c":
            mp[vin] = prev_out
        for v in range(k):
            if v not in mp:
                mp[v] = nxt
                nodes.append(nxt)
                nxt += 1
        edges += [[mp[a], mp[b]] for a, b in es]
        if i > 0 and joins[i - 1] == "b":
            edges.append([prev_out, mp[vin]])
        if i > 0 and joins[i - 1] == "p":
            nodes.append(nxt)
            edges += [[prev_out, nxt], [nxt, mp[vin]]]
            nxt += 1
        prev_out = mp.get(vout)
    return nodes, edges


_FAMILY = []


def block_family(maxn=9):
    """all chains of 2-3 blocks on <= maxn vertices, sorted by number of edges (183 graphs for maxn = 9)"""
    if _FAMILY:
        return _FAMILY
    names = list(_BLOCKS)
    reps = {n: _orbit_reps(*_BLOCKS[n]) for n in names}
    out = []
    for m in (2, 3):
        for seq in itertools.product(names, repeat=m):
            if names.index(seq[0]) > names.index(seq[-1]):
                continue        # the reversed chain is the same graph
            for joins in itertools.product("cbp", repeat=m - 1):
                if m == 2:
                    atts = [[(None, a), (b, None)] for a in reps[seq[0]][0] for b in reps[seq[1]][0]]
                else:
                    atts = [[(None, a), (b, c), (d, None)] for a in reps[seq[0]][0]
                            for (b, c) in reps[seq[1]][1] for d in reps[seq[2]][0]]
                for att in atts:
                    ns, es = _chain(seq, att, joins)
                    if len(ns) <= maxn:
                        out.append((ns, es))
    out.sort(key=lambda g: (len(g[1]), len(g[0])))
    _FAMILY.extend(out)
    return _FAMILY


def _root_classes(nodes, edges):
    """vertices grouped by a cheap position invariant (degree, neighbours' degrees, distance profile): a refinement-free
    stand-in for the orbits of the automorphism group (never merges vertices of different degree / eccentricity)"""
    adj = {v: set() for v in nodes}
    for a, b in edges:
        adj[a].add(b)
        adj[b].add(a)

    def dist_profile(s):
        d = {s: 0}
        todo = [s]
        for v in todo:
            for w in adj[v]:
                if w not in d:
                    d[w] = d[v] + 1
                    todo.append(w)
        return tuple(sorted((d[w], len(adj[w])) for w in d))
    cls = {}
    for v in nodes:
        cls.setdefault((len(adj[v]), tuple(sorted(len(adj[w]) for w in adj[v])), dist_profile(v)), []).append(v)
    return list(cls.values())



# ----------------------------------------------------------------- the OTHER public entry point: MessagePassing
# Users reach the automated equation through MessagePassing.resolve_equation(focal, cover label, messages) (and through
# theoretical(), which calls it): the motif is the one WRITTEN IN THE COVER LABEL "<key>-[vertices]-[edges]-<uid>" of an
# edge-disjoint cover.  Legal (message_passing_mixin.py): key = an integer naming the topology (int(key) is what
# get_motif_topology returns; nothing says it is the size), vertices / edges = Python literals of non-negative
# integers (ast.literal_eval: list or tuple, any spacing), uid = integer.  An mp stream = one covered network (the
# stream's motifs + FOREIGN motifs: chords of a motif covered as separate 2-cliques / triangles / 4-cycles over a new
# vertex, pendant edges, motifs glued at a vertex) + calls (motif, focal, substitution) on ONE MessagePassing object,
# judged by the same checker against the motif of the label.
KEYMODES = ["size", "edges", "index", "index0", "code", "big", "verts"]
FMTS = ["list", "tight", "tuple", "mixed"]
MP_SHAPES = [
    ([0, 1], [[0, 1]]),
    ([0, 1, 2], [[0, 1], [1, 2]]),
    ([0, 1, 2], [[0, 1], [1, 2], [0, 2]]),
    ([0, 1, 2, 3], [[0, 1], [1, 2], [2, 3], [3, 0]]),
    DIAMOND, K4,
    ([0, 1, 2, 3], [[0, 1], [1, 2], [0, 2], [2, 3]]),
    ([0, 1, 2, 3], [[0, 1], [0, 2], [0, 3]]),
    ([0, 1, 2, 3], [[0, 1], [1, 2], [2, 3]]),
    C5,
    ([0, 1, 2, 3, 4], [[0, 1], [1, 2], [2, 3], [3, 4], [4, 0], [1, 4]]),
    ([0, 1, 2, 3, 4], [[0, 1], [1, 2], [2, 0], [2, 3], [3, 4], [4, 2]]),
    ([0, 1, 2, 3, 4, 5], [[0, 1], [1, 2], [2, 3], [3, 4], [4, 5], [5, 0]]),
]
MP_LABELS = list(range(0, 14)) + [15, 16, 17, 31, 32, 33, 63, 64, 65, 100, 255, 256, 257, 258, 300, 511]


def _topo_code(nodes, edges):
    """a topology invariant (same for isomorphic motifs of the shapes used here): degree sequence"""
    deg = {v: 0 for v in nodes}
    for a, b in edges:
        deg[a] += 1
        deg[b] += 1
    return (len(nodes), len(edges), tuple(sorted(deg.values())))


def _mp_net(rng, shapes, keymode=None, fmt=None, foreign=0.6, glue=0.3, labels=None, uid_mode=None):
    """network = the given motifs on fresh labels (sometimes glued to an earlier one at ONE vertex) + foreign motifs
    joining two non-adjacent vertices of a motif (2-clique chord / triangle / 4-cycle through new vertices) and pendant
    edges.  Returns {"motifs": [{id,key,verts,edges}], "nodes", "insert", "fmt"}; the first len(shapes) motifs are
    the ones the stream asks about."""
    keymode = keymode or rng.choice(KEYMODES)
    fmt = fmt or rng.choice(FMTS)
    lab = list(labels or MP_LABELS)
    rng.shuffle(lab)
    nxt = iter(lab)
    motifs = []
    used = []
    taken = set()       # vertex pairs already joined by an edge of some motif
    for ns, es in shapes:
        mp = {}
        if used and rng.random() < glue:
            mp[rng.choice(ns)] = rng.choice(used)
        for v in ns:
            if v not in mp:
                mp[v] = next(nxt)
        vs = [mp[v] for v in ns]
        ee = [[mp[a], mp[b]] for a, b in es]
        if any(frozenset(e) in taken for e in ee):
            continue
        taken |= {frozenset(e) for e in ee}
        rng.shuffle(vs)
        rng.shuffle(ee)
        ee = [e if rng.random() < 0.5 else [e[1], e[0]] for e in ee]
        motifs.append({"verts": vs, "edges": ee})
        used += [v for v in vs if v not in used]
    n_main = len(motifs)
    # foreign motifs over the non-edges of the main motifs
    for m in list(motifs[:n_main]):
        vs = m["verts"]
        non = [(a, b) for i, a in enumerate(vs) for b in vs[i + 1:] if frozenset((a, b)) not in taken]
        rng.shuffle(non)
        for a, b in non:
            if rng.random() >= foreign:
                continue
            kind = rng.choice(["chord", "chord", "triangle", "cycle4"])
            try:
                if kind == "chord":
                    f = {"verts": [a, b], "edges": [[a, b]]}
                elif kind == "triangle":
                    w = next(nxt)
                    f = {"verts": [a, w, b], "edges": [[a, b], [b, w], [w, a]]}
                else:
                    w, x = next(nxt), next(nxt)
                    f = {"verts": [w, a, b, x], "edges": [[a, b], [b, x], [x, w], [w, a]]}
            except StopIteration:
                break
            if any(frozenset(e) in taken for e in f["edges"]):
                continue
            taken |= {frozenset(e) for e in f["edges"]}
            motifs.append(f)
            used += [v for v in f["verts"] if v not in used]
    for _ in range(rng.randint(0, 2)):
        try:
            w = next(nxt)
        except StopIteration:
            break
        a = rng.choice(used)
        motifs.append({"verts": [a, w], "edges": [[w, a]]})
        taken.add(frozenset((a, w)))
        used.append(w)
    # keys: one integer per topology, assigned in every way the label format allows
    codes = []
    for m in motifs:
        c = _topo_code(m["verts"], m["edges"])
        if c not in codes:
            codes.append(c)
    order = list(range(len(codes)))
    rng.shuffle(order)
    for m in motifs:
        n, e, _ = c = _topo_code(m["verts"], m["edges"])
        i = order[codes.index(c)]
        clique = e == n * (n - 1) // 2
        if keymode == "size":
            m["key"] = n if clique else 10 * n + i      # the convention of the docstring example: cliques by size
        elif keymode == "edges":
            m["key"] = e if clique else 100 * e + i + 10
        elif keymode == "index":
            m["key"] = i + 1
        elif keymode == "index0":
            m["key"] = i
        elif keymode == "code":
            m["key"] = 10000 * (i + 1) + 100 * n + e
        elif keymode == "verts":
            # the VERTEX COUNT n names one topology on n vertices, a non-complete one if the cover has any (a chordless
            # 4-cycle keyed 4): a key equal to the motif's size says nothing about its edges
            same = [x for x in codes if x[0] == n]
            pref = ([x for x in same if x[1] != x[0] * (x[0] - 1) // 2] or same)[0]
            m["key"] = n if c == pref else 100 * n + i + 1
        else:
            m["key"] = 1000 + 37 * i
    # unique ids: overlapping the vertex labels (0, 1, 2 ...), or disjoint from them, or arbitrary
    uid_mode = uid_mode or rng.choice(["low", "high", "mixed"])
    ids = rng.sample(range(0, len(motifs) + 3), len(motifs)) if uid_mode == "low" else \
        rng.sample(range(5000, 5100), len(motifs)) if uid_mode == "high" else \
        rng.sample(list(range(0, 12)) + [100, 256, 257, 1000, 70000] + list(range(6000, 6060)), len(motifs))
    for m, i in zip(motifs, ids):
        m["id"] = i
    nodes = list(used)
    rng.shuffle(nodes)
    ins = [[e[0], e[1], m["id"]] for m in motifs for e in m["edges"]]
    rng.shuffle(ins)
    return {"motifs": motifs, "nodes": nodes, "insert": ins, "fmt": fmt, "n_main": n_main}


def _mp_stream(rng, shapes, subs=1, all_roots=True, **kw):
    net = _mp_net(rng, shapes, **kw)
    calls = []
    pair_name = {}
    for mi in range(net["n_main"]):
        m = net["motifs"][mi]
        roots = list(m["verts"]) if all_roots else rng.sample(m["verts"], min(2, len(m["verts"])))
        for r in roots:
            name = pair_name.setdefault((r, mi), len(pair_name))
            c = _call(name, m["verts"], m["edges"], r, _ident_sub(m["verts"]))
            c["mid"] = mi
            calls.append(c)
            for _ in range(subs):
                if rng.random() < 0.5:
                    c = _call(name, m["verts"], m["edges"], r, _rand_sub(rng, m["verts"], r))
                    c["mid"] = mi
                    calls.append(c)
    # the foreign motifs are asked about too (their own label, their own edges)
    for mi in range(net["n_main"], len(net["motifs"])):
        if rng.random() < 0.4:
            m = net["motifs"][mi]
            r = rng.choice(m["verts"])
            c = _call(pair_name.setdefault((r, mi), len(pair_name)), m["verts"], m["edges"], r, _ident_sub(m["verts"]))
            c["mid"] = mi
            calls.append(c)
    rng.shuffle(calls)
    # a (motif, focal) pair asked again after the others (evaluator state shared by all motifs of the network)
    if calls:
        calls += [dict(c) for c in rng.sample(calls, min(3, len(calls)))]
    return {"kind": "mp", "net": net, "calls": calls, "decoy": rng.random() < 0.4}


def _mp_structured(rng):
    """the structured part of the mp streams (same in both tiers): every shape under every key mode and label format,
    with chords of the non-complete shapes covered by foreign motifs; cliques keyed by anything but their size"""
    out = []
    shapes = list(MP_SHAPES)
    k = 0
    for ns, es in shapes:
        for rep in range(2):
            out.append(_mp_stream(rng, [(ns, es)], keymode=KEYMODES[k % len(KEYMODES)], fmt=FMTS[k % len(FMTS)],
                                  foreign=1.0 if rep == 0 else 0.5, subs=1,
                                  labels=(list(range(0, 14)) if rep == 0 else None)))
            k += 1
    # the complete motifs under every key mode (a key is a NAME of the topology, not its size)
    for km in KEYMODES:
        out.append(_mp_stream(rng, [MP_SHAPES[0], MP_SHAPES[2], K4], keymode=km, glue=0.5, foreign=0.0, subs=0))
    return out

def corpus():
    out = []
    # one shared evaluator, the classic motifs, every root, heterogeneous u, then again with other phi / u
    calls = []
    for name, (nodes, edges) in enumerate([DIAMOND, K4, C5, BOWTIE]):
        for r in nodes:
            calls.append(_call(name, nodes, edges, r, _ident_sub(nodes)))
    for name, (nodes, edges) in enumerate([DIAMOND, K4, C5, BOWTIE]):
        calls.append(_call(name, nodes, edges, nodes[1], {"phi": [0, 2, 1], "u": [[nodes[0], [0, 3, 2]]]}))
        calls.append(_call(name, nodes, edges, nodes[2], {"phi": [1, 1, 0], "u": [[v, [1, nodes[0] + 2, 0]] for v in nodes]}))
    out.append({"calls": calls, "reuse": True})
    out.append({"calls": calls, "reuse": False, "decoy": True})
    out.append({"calls": [_call(0, *HOUSE, r, _ident_sub(HOUSE[0])) for r in HOUSE[0]]})
    k4amb = ([1, 2, 12, 31], [[1, 2], [1, 12], [1, 31], [2, 12], [2, 31], [12, 31]])
    out.append({"calls": [_call(0, *k4amb, r, _ident_sub(k4amb[0])) for r in k4amb[0]]})
    # two different motifs on the same vertex labels, alternating (cache keys must contain the name)
    tri_tail = ([0, 1, 2, 3], [[0, 1], [1, 2], [0, 2], [2, 3]])
    path4 = ([0, 1, 2, 3], [[0, 1], [1, 2], [2, 3]])
    calls = []
    for r in [0, 1, 2, 3]:
        calls.append(_call(0, *tri_tail, r, _ident_sub(tri_tail[0])))
        calls.append(_call(1, *path4, r, _ident_sub(path4[0])))
        calls.append(_call(2, *DIAMOND, r, _ident_sub(DIAMOND[0])))
    out.append({"calls": calls})
    # root not in the motif, single vertex, single edge, isolated extra vertices
    out.append({"calls": [_call(0, [0, 1], [[0, 1]], 2, _ident_sub([0, 1])),
                          _call(0, [0, 1], [[0, 1]], 0, _ident_sub([0, 1])),
                          _call(1, [4], [], 4, _ident_sub([4])),
                          _call(2, [0, 1, 2, 3], [[1, 2]], 1, _ident_sub([0, 1, 2, 3])),
                          _call(2, [0, 1, 2, 3], [[1, 2]], 0, _ident_sub([0, 1, 2, 3]))]})
    # FALSY BUT LEGAL VALUES: the focal vertex 0 (also phi = 0, u_v = 0 as Poly / int / float) in motifs that are not
    # vertex transitive and whose FIRST inserted vertex is another one (C15-r2-2: `if not root: root = first vertex`)
    zero_late = [([3, 2, 0, 1], [[2, 3], [0, 1], [1, 2], [0, 2]]),             # triangle 0-1-2 with tail 2-3
                 ([2, 1, 0], [[2, 1], [1, 0]]),                                 # path, 0 is an end point
                 ([5, 0, 4, 7], [[5, 0], [5, 4], [5, 7]]),                      # star, 0 is a leaf
                 ([9, 3, 0, 7, 1], [[9, 3], [3, 0], [0, 9], [0, 7], [7, 1], [1, 0]]),   # bow-tie, 0 is the centre
                 ([4, 3, 2, 1, 0], [[4, 3], [3, 2], [2, 1], [1, 0], [0, 4], [3, 0]])]   # house-like, 0 inserted last
    calls = []
    for name, (nodes, edges) in enumerate(zero_late):
        calls.append(_call(name, nodes, edges, 0, _ident_sub(nodes)))
        calls.append(_call(name, nodes, edges, nodes[0], _ident_sub(nodes)))
    for name, (nodes, edges) in enumerate(zero_late):
        calls.append(_call(name, nodes, edges, 0, {"phi": [0, 0, name % 3], "u": []}))
        calls.append(_call(name, nodes, edges, 0, {"phi": [1, 1, 0], "u": [[nodes[0], [0, 0, (name + 1) % 3]]]}))
    out.insert(0, {"calls": calls[:len(zero_late) * 2]})
    out.append({"calls": calls, "reuse": True, "decoy": True})
    # the smallest members of the block family (edge connectivity 1 < minimum degree 2): two triangles joined by a
    # bridge / by a path, every root
    fam = [g for g in block_family() if len(g[1]) <= 8 and len(g[0]) >= 6][:3]
    out.append({"calls": [_call(nm, ns, es, r, _ident_sub(ns)) for nm, (ns, es) in enumerate(fam) for r in ns]})
    # through MessagePassing.resolve_equation: every non-complete shape with ALL its chords covered by foreign motifs,
    # the complete ones under keys that are not their size
    import random
    rng = random.Random(1515)
    mp = []
    for k, sh in enumerate([MP_SHAPES[3], MP_SHAPES[1], C5, DIAMOND]):
        mp.append(_mp_stream(rng, [sh], keymode=KEYMODES[k % len(KEYMODES)], fmt=FMTS[k % len(FMTS)], foreign=1.0, subs=1,
                             labels=list(range(0, 14))))
    mp.append(_mp_stream(rng, [MP_SHAPES[0], MP_SHAPES[2], K4], keymode="edges", fmt="list", glue=1.0, foreign=0.0, subs=0,
                         labels=list(range(0, 14))))
    mp.append(_mp_stream(rng, [MP_SHAPES[3], K4], keymode="index0", fmt="tuple", foreign=1.0, subs=1))
    out[1:1] = mp
    return out


def generate(rng, tier):
    # (0) the other public entry point (MessagePassing.resolve_equation): structured streams, then random ones
    for c in _mp_structured(rng):
        yield c
    small = [(list(range(k)), es) for k in (2, 3, 4) for es in _graphs_on(k)
             if es and _connected(list(range(k)), es)]
    for _ in range(14 if tier == "quick" else 150):
        shapes = [rng.choice(small if rng.random() < 0.6 else MP_SHAPES) for _ in range(rng.randint(1, 3))]
        yield _mp_stream(rng, shapes, subs=1, all_roots=rng.random() < 0.6)
    # (1) exhaustive: every labelled graph on <= K vertices, every root, grouped 3-6 graphs per evaluator
    K = 4 if tier == "quick" else 5
    graphs = []
    for k in range(1, K + 1):
        for es in _graphs_on(k):
            graphs.append((list(range(k)), es))
    rng.shuffle(graphs)
    # identity is not position: a third of them relabelled (non-contiguous labels up to 257, shuffled insertion order)
    graphs = [_relabel(rng, ns, es) if rng.random() < 0.33 else (ns, es) for ns, es in graphs]
    i = 0
    while i < len(graphs):
        n = rng.randint(3, 6)
        yield _stream(rng, graphs[i:i + n], all_roots=True, extra_subs=1)
        i += n
    # (2) quick: a seeded sample of 5-vertex graphs, one or all roots
    if tier == "quick":
        five = list(_graphs_on(5))
        for _ in range(30):
            gs = [(list(range(5)), rng.choice(five)) for _ in range(3)]
            yield _stream(rng, gs, all_roots=rng.random() < 0.5, extra_subs=1)
    # (2b) the block family (5-9 vertices, 2-3 blocks joined by cut vertices / bridges / paths): connectivity below the
    #      minimum degree.  Cost is driven by 2^edges, so: <= 9 edges every root; 10 edges (thorough: 10-11) one root per
    #      position class; above that a seeded sample with two position classes each.
    fam = block_family()

    def class_roots(ns, es):
        return [rng.choice(c) for c in _root_classes(ns, es)]

    def two_classes(ns, es):
        cl = _root_classes(ns, es)
        return [rng.choice(c) for c in rng.sample(cl, min(2, len(cl)))]

    def lab(g):
        return _relabel(rng, *g) if rng.random() < 0.5 else g

    def with_edges(m):
        return [g for g in fam if len(g[1]) == m]
    small = [g for g in fam if len(g[1]) <= 9]
    if tier == "quick":
        mid = with_edges(10)
        big = rng.sample(with_edges(11), 6) + rng.sample(with_edges(12), 2)
    else:
        mid = with_edges(10) + with_edges(11)
        big = rng.sample(with_edges(12), 16) + rng.sample(with_edges(13), 6)
    rng.shuffle(small)
    rng.shuffle(mid)
    for i in range(0, len(small), 3):
        yield _stream(rng, [lab(g) for g in small[i:i + 3]], all_roots=True, extra_subs=1)
    for i in range(0, len(mid), 2):
        yield _stream(rng, [lab(g) for g in mid[i:i + 2]], extra_subs=1, roots_of=class_roots)
    for g in big:
        yield _stream(rng, [lab(g)], extra_subs=1, roots_of=two_classes)
    # (3) random connected motifs with 6-7 arbitrarily labelled vertices, <= 11 edges
    nbig = 25 if tier == "quick" else 250
    for _ in range(nbig):
        gs = []
        for _ in range(rng.randint(1, 3)):
            n = rng.choice([6, 6, 7])
            gs.append(_rand_connected(rng, n, rng.randint(n - 1, 11 if tier == "thorough" else 10), LABELS))
        if rng.random() < 0.5:
            gs.append(_rand_connected(rng, rng.randint(2, 5), 7, LABELS))
        yield _stream(rng, gs, all_roots=False, extra_subs=2)
    # (3b) labels whose decimal strings concatenate ambiguously ("1"+"2"+"31" = "12"+"31"): string-built cache keys
    for _ in range(12 if tier == "quick" else 80):
        gs = []
        for _ in range(rng.randint(1, 2)):
            n = rng.choice([4, 4, 5])
            gs.append(_rand_connected(rng, n, rng.randint(n, min(n * (n - 1) // 2, 8)), AMBIG))
        yield _stream(rng, gs, all_roots=True, extra_subs=0)
    # (4) malformed stream: roots outside the motif interleaved with good calls
    for _ in range(10 if tier == "quick" else 60):
        gs = [_rand_connected(rng, rng.randint(2, 5), 7, list(range(0, 9))) for _ in range(2)]
        yield _stream(rng, gs, all_roots=True, extra_subs=0, bad_roots=True)


# ----------------------------------------------------------------- implementation side
def _mk_arg(sub):
    """[kind, z, mode]: kind 1 = variable z; kind 0 = integer constant z passed as Poly / int / float"""
    kind, z = sub[0], sub[1]
    mode = sub[2] if len(sub) > 2 else 0
    if kind == 1:
        return Poly.var(z)
    if mode == 1:
        return int(z)
    if mode == 2:
        return float(z)
    return Poly.const(z)


def _u_sub(call, v):
    for w, s in call["u"]:
        if w == v:
            return s
    return [1, v + 2, 0]


def _snapshot(G):
    """deep copy of everything a caller can see of the graph, iteration order included"""
    return ([(n, sorted(d.items(), key=lambda kv: kv[0])) for n, d in G.nodes(data=True)],
            [(a, b, sorted(d.items(), key=lambda kv: kv[0])) for a, b, d in G.edges(data=True)],
            sorted(G.graph.items()), [(n, list(G.adj[n])) for n in G.nodes()])


def _fresh_int(v):
    """an int EQUAL to v that is not the object stored anywhere else (ints above 256 are not interned: callers hand
    over ids they parsed / computed, never the very object that sits in the graph)"""
    return int(str(int(v)))


def _fmt_label(m, fmt):
    """the cover label "<key>-[vertices]-[edges]-<uid>" in the spellings ast.literal_eval reads alike"""
    vs = [int(v) for v in m["verts"]]
    es = [(int(a), int(b)) for a, b in m["edges"]]
    if fmt == "tight":
        vtxt = "[" + ",".join(map(str, vs)) + "]"
        etxt = "[" + ",".join("(%d,%d)" % e for e in es) + "]"
    elif fmt == "tuple":
        vtxt = str(tuple(vs))
        etxt = str(tuple(es)) if len(es) > 1 else "[" + str(es[0]) + "]"
    elif fmt == "mixed":
        vtxt = str(vs)
        etxt = str([list(e) for e in es])
    else:
        vtxt, etxt = str(vs), str(es)
    return f"{m['key']}-{vtxt}-{etxt}-{m['id']}"


def _mp_graph(net, shape="own"):
    import networkx as nx
    G = nx.Graph(note="net")
    G.add_nodes_from(net["nodes"])
    nx.set_node_attributes(G, {v: f"v{v}" for v in net["nodes"]}, "lab")
    labels = {}
    for m in net["motifs"]:
        mm = m
        if shape == "path":     # decoy: same vertex sets, keys and ids, every motif a path
            mm = dict(m, edges=[[m["verts"][i], m["verts"][i + 1]] for i in range(len(m["verts"]) - 1)])
        labels[m["id"]] = _fmt_label(mm, net.get("fmt", "list"))
    if shape == "path":
        ins = [[m["verts"][i], m["verts"][i + 1], m["id"]] for m in net["motifs"] for i in range(len(m["verts"]) - 1)]
    else:
        ins = net["insert"]
    for k, (a, b, mid) in enumerate(ins):
        if not G.has_edge(a, b):
            G.add_edge(a, b, CoverLabel=labels[mid], w=k)
    return G, labels


def _impl_mp(case):
    """the calls of the stream through MessagePassing.resolve_equation on ONE object over the covered network"""
    from gcmpy.message_passing.message_passing import MessagePassing
    net = case["net"]
    G, labels = _mp_graph(net)
    # iterations = 0: theoretical(phi) only installs the occupation probability (public way to set it) and returns
    mp = MessagePassing(G, iterations=0)
    decoy = None
    if case.get("decoy"):
        decoy = MessagePassing(_mp_graph(net, "path")[0], iterations=0)
        decoy.theoretical(0.5)
    obs = []
    cur_phi = None
    for k, call in enumerate(case["calls"]):
        m = net["motifs"][call["mid"]]
        label = labels[m["id"]]
        if decoy is not None and len(m["verts"]) >= 2:
            vs = m["verts"]
            f = vs[k % len(vs)]
            try:
                decoy.resolve_equation(_fresh_int(f), _fmt_label(dict(m, edges=[[vs[i], vs[i + 1]] for i in range(len(vs) - 1)]),
                                                                 net.get("fmt", "list")),
                                       {_fresh_int(v): 0.25 for v in vs if v != f})
            except Exception:  # noqa: BLE001
                pass
        before = _snapshot(G)
        try:
            if call["phi"] != cur_phi:
                mp.theoretical(_mk_arg(call["phi"]))
                cur_phi = call["phi"]
            focal = _fresh_int(call["root"])
            prods = {_fresh_int(v): _mk_arg(_u_sub(call, v)) for v in m["verts"] if v != call["root"]}
            keep = list(prods.items())
            r = mp.resolve_equation(focal, str(label), prods)
        except Exception as e:  # noqa: BLE001
            if type(e).__name__ == "ImplTimeout":
                raise
            obs.append(["!exc", type(e).__name__])
            continue
        p = Poly.lift(r)
        if p is None:
            obs.append(["!type", type(r).__name__])
            continue
        same = before == _snapshot(G) and len(keep) == len(prods) and \
            all(a[0] == b[0] and a[1] is b[1] for a, b in zip(keep, prods.items()))
        obs.append([0, p.to_wire(), None, [], 0, int(same)])
    return obs


def impl(case):
    if case.get("kind") == "mp":
        return _impl_mp(case)
    import networkx as nx
    from gcmpy.message_passing.equations.automated_equation import AutomatedEquation
    ae = AutomatedEquation()
    # a second evaluator alive at the same time, fed DIFFERENT motifs under the SAME names (state must be per object)
    decoy = AutomatedEquation() if case.get("decoy") else None
    obs = []
    graphs = {}
    for k, call in enumerate(case["calls"]):
        name = f"motif{call['name']}"
        if decoy is not None and call["root"] in call["nodes"] and len(call["nodes"]) >= 2:
            D = nx.Graph(name=name)
            ns = call["nodes"]
            D.add_nodes_from(ns)
            D.add_edges_from([(ns[i], ns[i + 1]) for i in range(len(ns) - 1)] if k % 2 else [(ns[0], v) for v in ns[1:]])
            nx.set_node_attributes(D, {v: 1 for v in ns}, "u")
            try:
                decoy.automated_equation(D, 0.5, call["root"])
            except Exception:  # noqa: BLE001
                pass
        if case.get("reuse") and name in graphs:
            # the SAME graph object again: the caller only re-installs the u values (as MessagePassing-like drivers do)
            G = graphs[name]
        else:
            G = nx.Graph(name=name, note=f"n{call['name']}")
            G.add_nodes_from(call["nodes"])
            for k, e in enumerate(call["edges"]):
                G.add_edge(e[0], e[1], w=k, tag=f"e{k}")
            nx.set_node_attributes(G, {v: f"v{v}" for v in call["nodes"]}, "lab")
            graphs[name] = G
        # u installed on EVERY vertex, the root included (its value must not be used)
        nx.set_node_attributes(G, {v: _mk_arg(_u_sub(call, v)) for v in call["nodes"]}, "u")
        before = _snapshot(G)
        try:
            r = ae.automated_equation(G, _mk_arg(call["phi"]), _fresh_int(call["root"]))
        except Exception as e:  # noqa: BLE001
            obs.append(["!exc", type(e).__name__])
            continue
        p = Poly.lift(r)
        if p is None:
            obs.append(["!type", type(r).__name__])
            continue
        after = _snapshot(G)
        comps = ae._connected_subgraphs.get(f"{call['root']}-{name}")
        comps_c = sorted(sorted(c) for c in comps) if comps is not None else None
        combos = {}
        for key, val in ae._edge_combinations.items():
            if not isinstance(key, str) or not key.endswith("-" + name):
                continue
            try:
                c = ast.literal_eval(key[: -len("-" + name)])
                combos.setdefault(tuple(sorted(c)), []).append(list(val))
            except Exception:  # noqa: BLE001
                continue
        combos_c = sorted([list(k), v] for k, v in combos.items())
        obs.append([0, p.to_wire(), comps_c, combos_c, len(ae._connected_subgraphs), int(before == after)])
    return obs


# ----------------------------------------------------------------- model side
def _sub_tree(s):
    return [s[0], s[1]]


def _call_tree(call):
    return [call["name"], call["nodes"], call["edges"], call["root"], _sub_tree(call["phi"]),
            [[v, _sub_tree(s)] for v, s in call["u"]]]


def model_calls(case, impl_obs):
    return [("c15_run", [_call_tree(c) for c in case["calls"]])]


def model_obs(case, raws):
    out = []
    for r in raws[0]:
        if r[0] == -1:
            out.append(["!err", r[1]])
            continue
        monos, selfcheck = r[1]
        p = Poly.from_monos(monos)
        comps = sorted(sorted(c) for c in r[2])
        combos = sorted([sorted(c), list(v)] for c, v in r[3])
        out.append([0, p.to_wire(), comps, combos, r[4], selfcheck])
    return out


def compare(case, impl_obs, model):
    if isinstance(impl_obs, list) and impl_obs and impl_obs[0] == "!exc":
        return f"implementation raised {impl_obs[1]}"
    if len(impl_obs) != len(model):
        return "length mismatch"
    seen_sets = {}
    for i, (a, b) in enumerate(zip(impl_obs, model)):
        call = case["calls"][i]
        if b[0] == "!err":
            if a[0] != "!exc":
                return f"call {i}: model rejects the input (code {b[1]}), implementation returned a value"
            if b[1] == 1 and a[1] != "NetworkXError":
                return f"call {i}: expected NetworkXError, got {a[1]}"
            continue
        if a[0] != 0:
            return f"call {i}: implementation {a}, model returned a value"
        if b[5] != 1:
            return f"call {i}: model self-check of the monomial list failed"
        if a[1] != b[1]:
            return f"call {i} ({call['name']}, root {call['root']}): polynomials differ"
        # cache internals are compared only when they are observable under the pinned key format
        # (a harmless change of the key format must not raise an alarm; the values above still must agree)
        if a[2] is not None and a[2] != b[2]:
            return f"call {i}: connected subgraphs differ: impl {a[2]} model {b[2]}"
        if a[2] is not None and a[4] != b[4]:
            return f"call {i}: number of cached component lists {a[4]} vs model {b[4]}"
        if a[5] != 1:
            return f"call {i}: the caller's graph was modified"
        # edge combinations: every cached entry of the implementation for this name must equal the model's list
        mc = {tuple(c): v for c, v in b[3]}
        seen_sets.setdefault(call["name"], {}).update(mc)
        for c, vals in a[3]:
            want = seen_sets[call["name"]].get(tuple(c))
            if want is None:
                return f"call {i}: implementation cached edge combinations for {c}, model never computed them"
            for v in vals:
                if v != want:
                    return f"call {i}: edge combinations of {c}: impl {v} model {want}"
    return None


# ----------------------------------------------------------------- verified checker on the implementation's output
def _int_monos(wire):
    out = []
    for num, den, m in wire:
        if den != 1:
            return None
        out.append([num, m])
    return out


def check_calls(case, impl_obs):
    if isinstance(impl_obs, list) and impl_obs and impl_obs[0] == "!exc":
        return []
    calls = []
    for call, a in zip(case["calls"], impl_obs):
        if a[0] != 0 or call["root"] not in call["nodes"]:
            continue
        ms = _int_monos(a[1])
        if ms is None:
            continue
        calls.append(("c15_check", [call["nodes"], call["edges"], call["root"], _sub_tree(call["phi"]),
                                    [[v, _sub_tree(s)] for v, s in call["u"]], ms]))
        if a[2] is not None:
            calls.append(("c15_check_enum", [call["nodes"], call["edges"], call["root"], a[2]]))
    return calls


def check_verdict(case, impl_obs, raws):
    if isinstance(impl_obs, list) and impl_obs and impl_obs[0] == "!exc":
        return f"implementation raised {impl_obs[1]}"
    k = 0
    for i, (call, a) in enumerate(zip(case["calls"], impl_obs)):
        valid = call["root"] in call["nodes"]
        if not valid:
            continue
        if a[0] != 0:
            return f"call {i}: implementation raised / returned {a[1]} on a motif the property covers"
        if _int_monos(a[1]) is None:
            return f"call {i}: non-integer coefficient in the returned polynomial (the expectation has integer coefficients)"
        if raws[k] != 1:
            return (f"call {i} (motif {call['name']} nodes {call['nodes']} edges {call['edges']} root {call['root']}): "
                    "returned polynomial is not the exact bond-percolation expectation (c15_check)")
        k += 1
        if a[2] is not None:
            if raws[k] != 1:
                return f"call {i}: cached component list is not 'every connected vertex set containing the root exactly once'"
            k += 1
    return None


def nontrivial_key(case, impl_obs):
    keys = []
    if not isinstance(impl_obs, list) or (impl_obs and impl_obs[0] == "!exc"):
        return None
    for call, a in zip(case["calls"], impl_obs):
        if a[0] == 0 and len(call["edges"]) >= len(call["nodes"]) and len(a[1]) >= 6:
            keys.append([call["nodes"], sorted(sorted(e) for e in call["edges"]), call["root"], call["phi"][:2],
                         [[v, s[:2]] for v, s in call["u"]]])
    return keys or None


def shrink(case):
    if case.get("kind") == "mp":
        # the network stays; calls are dropped / their substitutions simplified, the decoy switched off
        calls = case["calls"]
        for i in range(len(calls)):
            yield dict(case, calls=calls[:i] + calls[i + 1:])
        for i, c in enumerate(calls):
            if c["u"] or c["phi"] != [1, 1, 0]:
                yield dict(case, calls=calls[:i] + [dict(c, phi=[1, 1, 0], u=[])] + calls[i + 1:])
        if case.get("decoy"):
            yield dict(case, decoy=False)
        return
    for c in _shrink(case):
        yield dict(c, reuse=case.get("reuse", False), decoy=case.get("decoy", False))


def _shrink(case):
    calls = case["calls"]
    for i in range(len(calls)):
        yield {"calls": calls[:i] + calls[i + 1:]}
    for i, c in enumerate(calls):
        if c["u"] or c["phi"] != [1, 1, 0]:
            d = dict(c, phi=[1, 1, 0], u=[])
            yield {"calls": calls[:i] + [d] + calls[i + 1:]}
    names = sorted({c["name"] for c in calls})
    for nm in names:
        es = next(c["edges"] for c in calls if c["name"] == nm)
        for j in range(len(es)):
            new = es[:j] + es[j + 1:]
            yield {"calls": [dict(c, edges=new) if c["name"] == nm else c for c in calls]}


def describe(case, impl_obs):
    c = case["calls"][0]
    return {"n_calls": len(case["calls"]), "first_call": {k: c[k] for k in ("name", "nodes", "edges", "root", "phi", "u")},
            "first_result_monomials": (len(impl_obs[0][1]) if impl_obs and impl_obs[0] and impl_obs[0][0] == 0 else impl_obs[:1])}


def histogram(cases):
    h = {"streams": len(cases), "calls": 0}
    for c in cases:
        for cl in c["calls"]:
            h["calls"] += 1
            k = f"n{len(cl['nodes'])}"
            h[k] = h.get(k, 0) + 1
            k = f"m{len(cl['edges'])}"
            h[k] = h.get(k, 0) + 1
            if cl["root"] not in cl["nodes"]:
                h["bad_root"] = h.get("bad_root", 0) + 1
            if cl["u"] or cl["phi"][:2] != [1, 1]:
                h["substituted"] = h.get("substituted", 0) + 1
    return h
