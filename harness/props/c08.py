"""C08 — JointDegreeCover vs the Gallina model (Model/Cover.v) and the verified checker c08_check."""
import copy
import itertools
from fractions import Fraction

from harness import core, oracles

ID = "C08"
RULE = ("clique covers as lists of vertex-id lists: exhaustive over all ordered covers of <= 2 (quick) / <= 3 (thorough) "
        "cliques drawn from the non-empty subsets of a 4-vertex universe, 0- and 1-based (gapped ones form the malformed "
        "stream), then seeded random covers on 2..9 vertices with size menus incl. non-adjacent sizes ({2,4},{2,5},{1,3,6}), "
        "clique sizes up to 16 ({2,8},{3,9},{2,10,12},...), overlapping cliques, both bases, both construction paths; in a "
        "quarter of the random cases a SECOND loader object is constructed and kept alive before the first is read; malformed: id gaps, ids starting at >= 2, negative ids, "
        "empty cover, empty clique, repeated vertex. Compared: motif_sizes, the jdd as a key->value map (floats within 1e-9 "
        "of the model's exact rational), exception class. Non-trivial = valid cover (contiguous ids from 0/1) with >= 2 "
        "distinct clique sizes or a missing size below the largest; distinct by (cover, path)")
EXHAUSTIVE = {"quick": True, "thorough": True}
EXPLANATION = ("general theorems (all covers) in Props/C08.v; the correspondence is exhaustive over small covers and random "
               "beyond; the verified checker c08_check (sizes = ascending set of occurring clique sizes; jdd = empirical law "
               "of the per-vertex count tuples) judges every implementation output on valid covers")
ASSUMPTIONS = ["Python's sorted/set/min/len, collections.Counter and dict insertion order behave as modelled",
               "float division count/n is within 1e-9 (relative) of the exact rational"]
TRUSTED = ["Python builtins sorted, set, min, max(key=len), zip, any, collections.Counter: modelled, not verified"]
TECHNIQUE = ("Coq proof (literal model of the loader proved to satisfy the counting specification for all valid covers; "
             "verified checker) + model/implementation correspondence")
LEVEL_TEXT = (
    "General theorems in coq/Props/C08.v for every cover whose vertex ids are contiguous from 0 or 1 and whose cliques are "
    "non-empty and duplicate-free: the reported motif sizes are the ascending duplicate-free list of occurring clique "
    "sizes; the loader keeps exactly one column per occurring size; row v, column j = number of cover cliques of size "
    "motif_sizes[j] containing v; the exposed jdd is the empirical law of those rows (sums to 1); column totals = "
    "size * number of cliques of that size (clique-size profile). The checker c08_check is proved equivalent to the "
    "Prop-level specification and is run on every implementation output; the model is tied to joint_degree_cover.py by "
    "exhaustive small + random correspondence incl. the malformed (gapped ids) stream.")
LEVEL_NOTE = ("Trusted: Coq kernel; extraction + OCaml driver + Python harness for the correspondence; Python builtins "
              "(sorted, set, Counter) modelled, not verified. No axioms.")

ERR = {1: "IndexError", 2: "ZeroDivisionError", 3: "ValueError"}
SUBSETS4 = [list(c) for r in range(1, 5) for c in itertools.combinations(range(4), r)]


def is_valid(cover):
    if not cover or any(len(c) == 0 for c in cover):
        return False
    if any(len(set(c)) != len(c) for c in cover):
        return False
    ids = sorted({v for c in cover for v in c})
    return ids[0] in (0, 1) and ids == list(range(ids[0], ids[0] + len(ids)))


def corpus():
    out = []
    for cov in ([[0, 1], [1, 2, 3, 4]],                      # DESIGN section 3 replay (sizes {2,4})
                [[1, 2], [2, 3, 4, 5, 6]],                   # sizes {2,5}, 1-based
                [[0], [1, 2, 3], [0, 1, 2, 3, 4, 5]],        # sizes {1,3,6}
                [[0, 1, 2], [2, 3, 4], [0, 4]],
                [[2, 1], [3, 1, 2], [3, 4]],
                [[0, 1], [1, 3]],                            # gap -> IndexError
                [[2, 3]],                                    # ids from 2
                [[0, -1]],                                   # negative id wraps
                [],                                          # empty cover -> ValueError
                [[0, 0, 1]]):
        for path in (0, 1):
            out.append({"cover": cov, "path": path})
    big = [list(range(8)), [7, 8]]
    out.append({"cover": big, "path": 0})                                       # sizes {2,8}
    out.append({"cover": [[0, 1], [1, 2, 3]], "path": 0, "other": [[0, 1, 2, 3], [3, 4]]})  # two live loaders
    return out


def _compress(cover, base):
    ids = sorted({v for c in cover for v in c})
    m = {v: i + base for i, v in enumerate(ids)}
    return [[m[v] for v in c] for c in cover]


MENUS = [[2], [3], [2, 3], [2, 4], [2, 5], [1, 3, 6], [1, 2], [3, 4, 5], [2, 3, 4], [1, 6], [4], [2, 6], [1, 2, 3, 4, 5, 6],
         # sizes >= 8: a Python set of small ints stops iterating in ascending order there
         [2, 8], [3, 9], [8, 9], [2, 10, 12], [5, 8, 11], [2, 16], [7, 8], [3, 8, 16]]


def _random_cover(rng):
    n = rng.randint(2, 9) if rng.random() < 0.7 else rng.randint(9, 17)
    menu = [s for s in rng.choice(MENUS) if s <= n] or [min(2, n)]
    ncl = rng.randint(1, 7)
    cover = []
    for _ in range(ncl):
        s = rng.choice(menu)
        c = rng.sample(range(n), s)
        cover.append(c)
    if rng.random() < 0.3:
        rng.shuffle(cover)
    return cover


def generate(rng, tier):
    maxc = 2 if tier == "quick" else 3
    for k in range(1, maxc + 1):
        for cs in itertools.product(SUBSETS4, repeat=k):
            for base in (0, 1):
                yield {"cover": [[v + base for v in c] for c in cs], "path": (k + base) % 2}
    nrand = 700 if tier == "quick" else 6000
    for i in range(nrand):
        cov = _random_cover(rng)
        base = rng.randint(0, 1)
        c = {"cover": _compress(cov, base), "path": rng.randint(0, 1)}
        if i % 4 == 0:
            # a second loader object is built (and stays alive) before the first one is read
            c["other"] = _compress(_random_cover(rng), rng.randint(0, 1))
        yield c
    # malformed stream
    nbad = 200 if tier == "quick" else 1500
    for _ in range(nbad):
        cov = _random_cover(rng)
        kind = rng.randint(0, 5)
        if kind == 0:      # gap
            cov = [[v * 2 for v in c] for c in cov]
        elif kind == 1:    # ids from >= 2
            cov = _compress(cov, rng.randint(2, 4))
        elif kind == 2:    # negative ids
            cov = [[v - rng.randint(1, 3) for v in c] for c in cov]
        elif kind == 3:    # an empty clique
            cov = _compress(cov, rng.randint(0, 1))
            cov.insert(rng.randint(0, len(cov)), [])
        elif kind == 4:    # repeated vertex inside a clique
            cov = _compress(cov, rng.randint(0, 1))
            c = rng.choice(cov)
            c.append(c[0])
        else:              # uncompressed (random gaps)
            cov = [[v + rng.randint(0, 1) for v in c] for c in cov]
        yield {"cover": cov, "path": rng.randint(0, 1)}


def impl(case):
    from gcmpy.joint_degree.joint_degree_loaders.joint_degree_cover import JointDegreeCover
    from gcmpy.joint_degree.joint_degree_distribution import JointDegreeDistribution
    from gcmpy.names.joint_degree_names import JointDegreeNames
    cover = copy.deepcopy(case["cover"])
    with oracles.forbid_random():
        if case.get("path", 0) == 0:
            jd = JointDegreeCover({JointDegreeNames.COVER: cover})
        else:
            jd = JointDegreeDistribution.load_joint_degree(
                {JointDegreeNames.JOINT_DEGREE_TYPE: "cover", JointDegreeNames.COVER: cover})
    other = None
    if case.get("other"):
        with oracles.forbid_random():
            other = JointDegreeCover({JointDegreeNames.COVER: copy.deepcopy(case["other"])})
    jdd = []
    for k, v in jd.jdd.items():
        tag = 1 if (isinstance(k, tuple) and all(type(x) is int for x in k)) else 0
        jdd.append([[int(x) for x in k], core.q_tree(v), tag])
    return {"sizes": [int(s) for s in jd.motif_sizes], "jdd": jdd, "cover_unchanged": cover == case["cover"],
            "n_sizes_type": type(jd.motif_sizes).__name__}


def model_calls(case, impl_obs):
    return [("c08_run", case["cover"])]


def model_obs(case, raws):
    r = raws[0]
    if r[0] == -1:
        return ["!exc", ERR.get(r[1], str(r[1]))]
    return {"sizes": r[1], "rows": r[2], "jdd": [[k, q] for k, q in r[3]]}


def compare(case, io, mo):
    if core.is_exc(io) or core.is_exc(mo):
        if core.is_exc(io) and core.is_exc(mo):
            return None if io[1] == mo[1] else f"exception class: impl {io[1]} model {mo[1]}"
        return f"impl {io if core.is_exc(io) else 'returned'} / model {mo if core.is_exc(mo) else 'returned'}"
    if io["sizes"] != mo["sizes"]:
        return f"motif_sizes: impl {io['sizes']} model {mo['sizes']}"
    im = {tuple(k): core.tree_q(q) for k, q, _ in io["jdd"]}
    mm = {tuple(k): core.tree_q(q) for k, q in mo["jdd"]}
    if set(im) != set(mm):
        return f"jdd keys: impl {sorted(im)} model {sorted(mm)}"
    for k in mm:
        if not core.close(im[k], mm[k]):
            return f"jdd[{k}]: impl {float(im[k])} model {mm[k]}"
    if not all(t for _, _, t in io["jdd"]):
        return "a jdd key is not a tuple of ints"
    if not io["cover_unchanged"]:
        return "the caller's cover was mutated"
    return None


def check_calls(case, io):
    if core.is_exc(io) or not is_valid(case["cover"]):
        return []
    return [("c08_check", [case["cover"], io["sizes"], [[k, q] for k, q, _ in io["jdd"]]])]


def check_verdict(case, io, raws):
    if not is_valid(case["cover"]):
        return None
    if core.is_exc(io):
        return f"implementation raised {io[1]} on a valid cover"
    if not all(t for _, _, t in io["jdd"]):
        return "a jdd key is not a tuple of ints"
    if not raws or raws[0] != 1:
        return "c08_check (sizes = occurring clique sizes ascending; jdd = empirical law of per-vertex counts) rejected"
    return None


def nontrivial_key(case, io):
    cov = case["cover"]
    if not is_valid(cov) or core.is_exc(io):
        return None
    sizes = sorted({len(c) for c in cov})
    if len(sizes) >= 2 or sizes != list(range(1, sizes[-1] + 1)):
        return [cov, case.get("path", 0)]
    return None


def shrink(case):
    cov = case["cover"]
    extra = {"other": case["other"]} if case.get("other") else {}
    for i in range(len(cov)):
        yield dict({"cover": cov[:i] + cov[i + 1:], "path": case.get("path", 0)}, **extra)
    for i, c in enumerate(cov):
        if len(c) > 1:
            for j in range(len(c)):
                c2 = c[:j] + c[j + 1:]
                new = cov[:i] + [c2] + cov[i + 1:]
                if is_valid(case["cover"]):
                    ids = sorted({v for cc in new for v in cc})
                    base = case_base(case["cover"])
                    m = {v: k + base for k, v in enumerate(ids)}
                    new = [[m[v] for v in cc] for cc in new]
                yield dict({"cover": new, "path": case.get("path", 0)}, **extra)
    if case.get("path", 0) == 1:
        yield {"cover": cov, "path": 0}
    if case.get("other"):
        oc = case["other"]
        for i in range(len(oc)):
            if len(oc) > 1:
                yield dict(case, other=oc[:i] + oc[i + 1:])


def case_base(cov):
    return min(v for c in cov for v in c)


def describe(case, io):
    return {"cover": case["cover"], "path(0=direct,1=dispatcher)": case.get("path", 0),
            "impl": io if core.is_exc(io) else {"sizes": io["sizes"], "jdd": [[k, str(Fraction(*q))] for k, q, _ in io["jdd"]][:8]}}


def histogram(cases):
    h = {"valid": 0, "malformed": 0, "one_based": 0, "nonadjacent_sizes": 0, "dispatcher_path": 0, "max_cliques": 0}
    for c in cases:
        cov = c["cover"]
        if is_valid(cov):
            h["valid"] += 1
            if case_base(cov) == 1:
                h["one_based"] += 1
            s = sorted({len(x) for x in cov})
            if s != list(range(s[0], s[-1] + 1)):
                h["nonadjacent_sizes"] += 1
        else:
            h["malformed"] += 1
        h["dispatcher_path"] += c.get("path", 0)
        h["max_cliques"] = max(h["max_cliques"], len(cov))
    return h
