"""C08 — JointDegreeCover vs the Gallina model (Model/Cover.v) and the verified checker c08_check."""
import copy
import itertools
from fractions import Fraction

from harness import core, oracles

ID = "C08"
RULE = ("clique covers as lists of vertex-id lists: exhaustive over all ordered covers of <= 2 (quick) / <= 3 (thorough) "
        "cliques drawn from the non-empty subsets of a 4-vertex universe, 0- and 1-based (gapped ones form the malformed "
        "stream), then seeded random covers on 2..9 vertices with size menus incl. non-adjacent sizes ({2,4},{2,5},{1,3,6}), "
        "clique sizes up to 16 ({2,8},{3,9},{2,10,12},...), overlapping cliques, both bases, both construction paths; in a "
        "quarter of the random cases a SECOND loader object is constructed and kept alive before the first is read; THE "
        "CALLER KEEPS USING ITS CLIQUE LISTS: in a third of the valid exhaustive / hub covers and 40% of the random ones a second "
        "cover `first[drop:] + extra` (drop in 0..2; 1-3 further cliques over old and up to 3 new vertices; the inner lists are the "
        "very objects the first loader received) is loaded afterwards through the other construction path, compared with the "
        "model and judged by c08_check against the second cover AS WRITTEN (the first loader is read again too); HUB covers: "
        "one or two vertices in 100..600 cliques of one size (127/128/129, 255/256/257, 511/512/513, ...; stars of 2-cliques "
        "and fans of 3-/4-cliques over few leaves, a second size through the same hub, randomly relabelled), and 1 (quick) / 3 "
        "(thorough) covers with a vertex in 65535..70000 three-cliques; SAMPLING STEP on a third of the valid random covers, "
        "a fifth of the exhaustive ones and half of the hub covers: sample_jds_from_jdd(N), N in 1..9, scripted random.choices "
        "indices and random.randrange answers, in 40% of them concentrated on ONE row (the same vertex picked repeatedly, "
        "certain for N = 1), observed as in C05 and judged by the verified C05 checker against the loader's reported jdd and "
        "motif sizes; malformed: id gaps, ids starting at >= 2, negative ids, "
        "empty cover, empty clique, repeated vertex. Compared: motif_sizes, the jdd as a key->value map (floats within 1e-9 "
        "of the model's exact rational), exception class, random calls while constructing (none expected; answered by a "
        "lenient oracle, not fatal), the sample (choices question, randrange ranges and answers, returned sequence, tuple "
        "type tags, jdd untouched by sampling) against Model/Sample.v. Non-trivial = valid cover (contiguous ids from 0/1) "
        "with >= 2 distinct clique sizes or a missing size below the largest; distinct by (cover, path)")
EXHAUSTIVE = {"quick": True, "thorough": True}
EXPLANATION = ("general theorems (all covers) in Props/C08.v; the correspondence is exhaustive over small covers and random "
               "beyond; the verified checker c08_check (sizes = ascending set of occurring clique sizes; jdd = empirical law "
               "of the per-vertex count tuples) judges every implementation output on valid covers; where a case has a sampling "
               "step the verified checker c05_check (Props/C05.v: N rows, nothing removed, minimal stubs, every column total "
               "divisible by the reported clique size) judges the drawn sample as well")
ASSUMPTIONS = ["Python's sorted/set/min/len, collections.Counter and dict insertion order behave as modelled",
               "float division count/n is within 1e-9 (relative) of the exact rational"]
TRUSTED = ["Python builtins sorted, set, min, max(key=len), zip, any, collections.Counter: modelled, not verified",
           "sampling step: CPython random.choices / randrange as in C05 (selection rule modelled there, uniformity trusted)"]
TECHNIQUE = ("Coq proof (literal model of the loader proved to satisfy the counting specification for all valid covers; "
             "verified checker) + model/implementation correspondence")
LEVEL_TEXT = (
    "General theorems in coq/Props/C08.v for every cover whose vertex ids are contiguous from 0 or 1 and whose cliques are "
    "non-empty and duplicate-free: the reported motif sizes are the ascending duplicate-free list of occurring clique "
    "sizes; the loader keeps exactly one column per occurring size; row v, column j = number of cover cliques of size "
    "motif_sizes[j] containing v; the exposed jdd is the empirical law of those rows (sums to 1); column totals = "
    "size * number of cliques of that size (clique-size profile). The checker c08_check is proved equivalent to the "
    "Prop-level specification and is run on every implementation output; the model is tied to joint_degree_cover.py by "
    "exhaustive small + random correspondence incl. the malformed (gapped ids) stream.")
LEVEL_NOTE = ("Trusted: Coq kernel; extraction + OCaml driver + Python harness for the correspondence; Python builtins "
              "(sorted, set, Counter) modelled, not verified. No axioms.")

ERR = {1: "IndexError", 2: "ZeroDivisionError", 3: "ValueError"}
SUBSETS4 = [list(c) for r in range(1, 5) for c in itertools.combinations(range(4), r)]


def is_valid(cover):
    if not cover or any(len(c) == 0 for c in cover):
        return False
    if any(len(set(c)) != len(c) for c in cover):
        return False
    ids = sorted({v for c in cover for v in c})
    return ids[0] in (0, 1) and ids == list(range(ids[0], ids[0] + len(ids)))


def corpus():
    out = []
    for cov in ([[0, 1], [1, 2, 3, 4]],                      # DESIGN section 3 replay (sizes {2,4})
                [[1, 2], [2, 3, 4, 5, 6]],                   # sizes {2,5}, 1-based
                [[0], [1, 2, 3], [0, 1, 2, 3, 4, 5]],        # sizes {1,3,6}
                [[0, 1, 2], [2, 3, 4], [0, 4]],
                [[2, 1], [3, 1, 2], [3, 4]],
                [[0, 1], [1, 3]],                            # gap -> IndexError
                [[2, 3]],                                    # ids from 2
                [[0, -1]],                                   # negative id wraps
                [],                                          # empty cover -> ValueError
                [[0, 0, 1]]):
        for path in (0, 1):
            out.append({"cover": cov, "path": path})
    big = [list(range(8)), [7, 8]]
    out.append({"cover": big, "path": 0})                                       # sizes {2,8}
    out.append({"cover": [[0, 1], [1, 2, 3]], "path": 0, "other": [[0, 1, 2, 3], [3, 4]]})  # two live loaders
    # the caller refines a loaded 1-based cover (`base + extra`, inner lists shared) and loads the refinement
    out.append({"cover": [[1, 2, 3], [3, 4, 5], [5, 6, 7], [1, 7]], "path": 0,
                "then": {"drop": 0, "extra": [[7, 8], [8, 9, 1, 4]]}})
    out.append({"cover": [[0, 1, 2], [2, 3]], "path": 1, "then": {"drop": 1, "extra": [[3, 4], [0, 4, 1]]}})
    return out


def _compress(cover, base):
    ids = sorted({v for c in cover for v in c})
    m = {v: i + base for i, v in enumerate(ids)}
    return [[m[v] for v in c] for c in cover]


MENUS = [[2], [3], [2, 3], [2, 4], [2, 5], [1, 3, 6], [1, 2], [3, 4, 5], [2, 3, 4], [1, 6], [4], [2, 6], [1, 2, 3, 4, 5, 6],
         # sizes >= 8: a Python set of small ints stops iterating in ascending order there
         [2, 8], [3, 9], [8, 9], [2, 10, 12], [5, 8, 11], [2, 16], [7, 8], [3, 8, 16]]


def _random_cover(rng):
    n = rng.randint(2, 9) if rng.random() < 0.7 else rng.randint(9, 17)
    menu = [s for s in rng.choice(MENUS) if s <= n] or [min(2, n)]
    ncl = rng.randint(1, 7)
    cover = []
    for _ in range(ncl):
        s = rng.choice(menu)
        c = rng.sample(range(n), s)
        cover.append(c)
    if rng.random() < 0.3:
        rng.shuffle(cover)
    return cover


# counts at which a narrow integer type wraps or changes width (int8 / uint8 / int16-ish tables, one-byte counters)
HUB_DEGREES = [100, 127, 128, 129, 200, 255, 256, 257, 258, 300, 383, 384, 511, 512, 513, 600]


def _hub_cover(rng, huge=False):
    """one (sometimes two) vertices lying in 100..600 cover cliques of ONE size: a star of 2-cliques (as many leaves as
    cliques) or a fan of 3-/4-cliques through the hub over few leaves (all (s-1)-subsets of ~25 leaves), optionally a second
    batch of another size through the same hub, a second hub, and a few ordinary cliques; labels are a random bijection"""
    deg = rng.choice(HUB_DEGREES) if rng.random() < 0.8 else rng.randint(100, 600)
    if huge:
        deg = rng.choice([65535, 65536, 65537, 70000])
    cover = []
    nxt = [1]

    def fresh(k):
        out = list(range(nxt[0], nxt[0] + k))
        nxt[0] += k
        return out

    def batch(hub, d, s):
        if s == 2:
            return [[hub, v] for v in fresh(d)]
        m = s
        while _ncomb(m, s - 1) < d:
            m += 1
        leaves = fresh(m)
        subs = list(itertools.islice(itertools.combinations(leaves, s - 1), 0, None))
        return [[hub] + list(c) for c in rng.sample(subs, d)]

    s1 = 3 if huge else rng.choice([2, 2, 3, 3, 4])
    cover += batch(0, deg, s1)
    if rng.random() < 0.5:          # another size through the same hub (below or above the threshold)
        s2 = rng.choice([s for s in (2, 3, 4, 5) if s != s1])
        cover += batch(0, rng.choice([1, 3, 40, 256, 260]) if not huge else 3, s2)
    if rng.random() < 0.3 and not huge:   # a second hub, other degree
        h2 = fresh(1)[0]
        cover += batch(h2, rng.choice(HUB_DEGREES), rng.choice([2, 3]))
    n = nxt[0]
    for _ in range(rng.randint(0, 3)):
        s = rng.choice([1, 2, 3, 5, 6, 9])
        if s <= n:
            cover.append(rng.sample(range(n), s))
    perm = list(range(n))
    rng.shuffle(perm)
    cover = [[perm[v] for v in c] for c in cover]
    for c in cover:
        if rng.random() < 0.5:
            rng.shuffle(c)
    if rng.random() < 0.5:
        rng.shuffle(cover)
    return cover


def _ncomb(m, k):
    out = 1
    for i in range(k):
        out = out * (m - i) // (i + 1)
    return out


def _sample_step(rng, cover):
    """the last sentence of C08: draw N joint degrees from the cover-derived distribution; scripted random.choices answer
    (indices, reduced modulo the number of keys) and random.randrange answers for the hand-shaking fix-up, in a good share
    of the cases REPEATING one vertex (N small / answers concentrated on one row)"""
    sizes = sorted({len(c) for c in cover})
    N = rng.choice([1, 1, 2, 2, 3, 4, 6, 9])
    rs = [rng.randrange(N) for _ in range(sum(sizes) + 1)]
    if rng.random() < 0.4:
        j = rng.randrange(N)
        rs = [j if rng.random() < 0.75 else r for r in rs]
    return {"N": N, "draws": [rng.randrange(1000) for _ in range(N)], "rs": rs}


def _second(cover, then):
    """the cover the caller builds for the SECOND loader, as the caller wrote it: the clique lists of the first cover
    (from position `drop` on) followed by further cliques"""
    return [list(c) for c in cover[then.get("drop", 0):]] + [list(c) for c in then["extra"]]


def _then_step(rng, cover):
    """THE CALLER KEEPS USING ITS CLIQUE LISTS AFTER LOADING: a refinement `base + extra` (shallow: the inner lists are the
    very objects the first loader received), sometimes a sub-cover + extra; extra cliques use old vertices and up to 3 new
    ones (contiguous after the old ids, so that the second cover is valid in the same base as written)"""
    ids = sorted({v for c in cover for v in c})
    b, n = ids[0], len(ids)
    pool = list(range(b, b + n + rng.randint(0, 3)))
    extra = []
    for _ in range(rng.randint(1, 3)):
        extra.append(rng.sample(pool, rng.randint(1, min(len(pool), 5))))
    new = sorted({v for c in extra for v in c if v >= b + n})
    mp = {v: b + n + i for i, v in enumerate(new)}
    extra = [[mp.get(v, v) for v in c] for c in extra]
    then = {"drop": rng.choice([0, 0, 0, 1, 2]) if len(cover) > 1 else 0, "extra": extra}
    if not is_valid(_second(cover, then)):
        then["drop"] = 0
    return then


def generate(rng, tier):
    maxc = 2 if tier == "quick" else 3
    j = 0
    for k in range(1, maxc + 1):
        for cs in itertools.product(SUBSETS4, repeat=k):
            for base in (0, 1):
                j += 1
                c = {"cover": [[v + base for v in c] for c in cs], "path": (k + base) % 2}
                if j % 5 == 0 and is_valid(c["cover"]):
                    c["sample"] = _sample_step(rng, c["cover"])
                if j % 3 == 1 and is_valid(c["cover"]):
                    c["then"] = _then_step(rng, c["cover"])
                yield c
    nrand = 700 if tier == "quick" else 6000
    for i in range(nrand):
        cov = _random_cover(rng)
        base = rng.randint(0, 1)
        c = {"cover": _compress(cov, base), "path": rng.randint(0, 1)}
        if i % 4 == 0:
            # a second loader object is built (and stays alive) before the first one is read
            c["other"] = _compress(_random_cover(rng), rng.randint(0, 1))
        if i % 3 == 0:
            c["sample"] = _sample_step(rng, c["cover"])
        if i % 5 in (1, 2) and is_valid(c["cover"]):
            c["then"] = _then_step(rng, c["cover"])
        yield c
    # hub covers: a vertex in hundreds of cliques of one size
    for i in range(24 if tier == "quick" else 150):
        cov = _hub_cover(rng)
        c = {"cover": _compress(cov, rng.randint(0, 1)), "path": rng.randint(0, 1)}
        if i % 2 == 0:
            c["sample"] = _sample_step(rng, c["cover"])
        if i % 3 == 1 and is_valid(c["cover"]):
            c["then"] = _then_step(rng, c["cover"])
        yield c
    # ... and past the 16-bit threshold: a vertex in 65535..70000 three-cliques over ~375 leaves (about 6 s of driver time each)
    for i in range(1 if tier == "quick" else 3):
        yield {"cover": _compress(_hub_cover(rng, huge=True), i % 2), "path": i % 2}
    # malformed stream
    nbad = 200 if tier == "quick" else 1500
    for _ in range(nbad):
        cov = _random_cover(rng)
        kind = rng.randint(0, 5)
        if kind == 0:      # gap
            cov = [[v * 2 for v in c] for c in cov]
        elif kind == 1:    # ids from >= 2
            cov = _compress(cov, rng.randint(2, 4))
        elif kind == 2:    # negative ids
            cov = [[v - rng.randint(1, 3) for v in c] for c in cov]
        elif kind == 3:    # an empty clique
            cov = _compress(cov, rng.randint(0, 1))
            cov.insert(rng.randint(0, len(cov)), [])
        elif kind == 4:    # repeated vertex inside a clique
            cov = _compress(cov, rng.randint(0, 1))
            c = rng.choice(cov)
            c.append(c[0])
        else:              # uncompressed (random gaps)
            cov = [[v + rng.randint(0, 1) for v in c] for c in cov]
        yield {"cover": cov, "path": rng.randint(0, 1)}


class _Cap:
    """unscripted randrange calls (more stubs than the minimal patch) are answered 0, up to a bound"""

    def __init__(self):
        self.n = 0

    def __call__(self, kind, args):
        self.n += 1
        if kind != "randrange" or self.n > 300:
            raise oracles.OracleProtocol(f"unscripted {kind}")
        return 0


class _SampleScript(oracles.Script):
    """random.choices answers are indices reduced modulo the population (the number of keys is not known when the case is
    generated); a call asking for another k than scripted is answered anyway (padding / truncating)"""

    def choices(self, population, weights=None, *, cum_weights=None, k=1):
        population = list(population)
        idxs = list(self.take("choices", (population, weights, k)))
        idxs = [i % max(1, len(population)) for i in (idxs + [0] * k)[:k]]
        self.log.append(("choices", population, None if weights is None else list(weights), k, idxs))
        return [population[i] for i in idxs]


def _sample(jd, st):
    """one sample_jds_from_jdd(N) call on the cover loader, observed as C05 observes it"""
    script = _SampleScript([("choices", list(st["draws"]))] + [("randrange", r) for r in st["rs"]], default=_Cap())
    try:
        with oracles.scripted(script):
            out = jd.sample_jds_from_jdd(st["N"])
    except Exception as e:  # noqa: BLE001
        return {"exc": type(e).__name__}
    calls = [e for e in script.log if e[0] == "choices"]
    obs = {"exc": None, "n_choices_calls": len(calls)}
    if calls:
        _, pop, wts, k, idxs = calls[0]
        obs["call"] = [[[int(x) for x in p_] for p_ in pop], [core.q_tree(w) for w in (wts or [])], int(k), list(idxs)]
    else:
        obs["call"] = [[], [], 0, []]
    obs["rlog"] = [[int(e[1]), int(e[2]), int(e[3])] for e in script.log if e[0] == "randrange"]
    obs["out_type"] = type(out).__name__
    obs["out"] = [[int(x) for x in e] for e in out]
    obs["tags"] = [1 if (type(e) is tuple and all(type(x) is int for x in e)) else 0 for e in out]
    return obs


def impl(case):
    from gcmpy.joint_degree.joint_degree_loaders.joint_degree_cover import JointDegreeCover
    from gcmpy.joint_degree.joint_degree_distribution import JointDegreeDistribution
    from gcmpy.names.joint_degree_names import JointDegreeNames
    cover = copy.deepcopy(case["cover"])
    # the loader is deterministic: any random call while constructing is answered (seeded fallback) and recorded
    script = oracles.LenientScript([], seed=len(case["cover"]))
    with oracles.lenient_scripted(script):
        if case.get("path", 0) == 0:
            jd = JointDegreeCover({JointDegreeNames.COVER: cover})
        else:
            jd = JointDegreeDistribution.load_joint_degree(
                {JointDegreeNames.JOINT_DEGREE_TYPE: "cover", JointDegreeNames.COVER: cover})
        other = None
        if case.get("other"):
            other = JointDegreeCover({JointDegreeNames.COVER: copy.deepcopy(case["other"])})
    def table(loader):
        rows = []
        for k, v in loader.jdd.items():
            tag = 1 if (isinstance(k, tuple) and all(type(x) is int for x in k)) else 0
            rows.append([[int(x) for x in k], core.q_tree(v), tag])
        return rows

    jdd = table(jd)
    obs = {"sizes": [int(s) for s in jd.motif_sizes], "jdd": jdd, "cover_unchanged": cover == case["cover"],
           "n_sizes_type": type(jd.motif_sizes).__name__, "random_calls_constructing": len(script.unexpected)}
    if case.get("sample") and is_valid(case["cover"]):
        obs["sample"] = _sample(jd, case["sample"])
        after = [[[int(x) for x in k], core.q_tree(v)] for k, v in jd.jdd.items()]
        obs["jdd_unchanged_by_sampling"] = after == [[k, q] for k, q, _ in jdd] and \
            [int(s) for s in jd.motif_sizes] == obs["sizes"]
    if case.get("then") and is_valid(case["cover"]):
        # the caller goes on using ITS objects: the second cover shares the inner clique lists with the first one; the
        # second loader is judged against the second cover AS THE CALLER WROTE IT
        th = case["then"]
        second = cover[th.get("drop", 0):] + copy.deepcopy(th["extra"])
        try:
            with oracles.lenient_scripted(oracles.LenientScript([], seed=1)):
                if case.get("path", 0) == 1:
                    jd2 = JointDegreeCover({JointDegreeNames.COVER: second})
                else:
                    jd2 = JointDegreeDistribution.load_joint_degree(
                        {JointDegreeNames.JOINT_DEGREE_TYPE: "cover", JointDegreeNames.COVER: second})
            obs["then"] = {"exc": None, "sizes": [int(x) for x in jd2.motif_sizes], "jdd": table(jd2),
                           "covers_unchanged": cover == case["cover"] and second == _second(case["cover"], th),
                           # the first loader, read again while the second one is alive
                           "first_again": [[int(x) for x in jd.motif_sizes], table(jd)] == [obs["sizes"], jdd]}
        except core.ImplTimeout:
            raise
        except Exception as e:  # noqa: BLE001
            obs["then"] = {"exc": type(e).__name__}
    del other
    return obs


def _has_then(case):
    return bool(case.get("then")) and is_valid(case["cover"])


def _has_sample(io):
    return isinstance(io, dict) and io.get("sample") is not None and io["sample"]["exc"] is None


def _c05_args(case, io):
    keys = [k for k, _, _ in io["jdd"]]
    wts = [q for _, q, _ in io["jdd"]]
    return keys, wts, io["sizes"], case["sample"]["N"]


def model_calls(case, impl_obs):
    calls = [("c08_run", case["cover"])]
    if _has_then(case):
        calls.append(("c08_run", _second(case["cover"], case["then"])))
    if _has_sample(impl_obs):
        # the sampling step of the model (Model/Sample.v) on the distribution and sizes the loader reports (these are tied
        # to the cover by the first call), with the oracle answers the implementation received
        keys, wts, sizes, N = _c05_args(case, impl_obs)
        calls.append(("c05_run", [keys, wts, sizes, N, impl_obs["sample"]["call"][3], case["sample"]["rs"]]))
    return calls


def model_obs(case, raws):
    r = raws[0]
    if r[0] == -1:
        return ["!exc", ERR.get(r[1], str(r[1]))]
    mo = {"sizes": r[1], "rows": r[2], "jdd": [[k, q] for k, q in r[3]]}
    nxt = 1
    if _has_then(case):
        rt = raws[1]
        mo["then"] = ["!exc", ERR.get(rt[1], str(rt[1]))] if rt[0] == -1 else \
            {"sizes": rt[1], "jdd": [[k, q] for k, q in rt[3]]}
        nxt = 2
    if len(raws) > nxt:
        r2 = raws[nxt]
        mo["sample"] = ["!exc", ERR.get(r2[1], str(r2[1]))] if r2[0] == -1 else {"call": r2[1], "out": r2[3], "log": r2[4]}
    return mo


def compare(case, io, mo):
    if core.is_exc(io) or core.is_exc(mo):
        if core.is_exc(io) and core.is_exc(mo):
            return None if io[1] == mo[1] else f"exception class: impl {io[1]} model {mo[1]}"
        return f"impl {io if core.is_exc(io) else 'returned'} / model {mo if core.is_exc(mo) else 'returned'}"
    d = _cmp_loader(io, mo, "")
    if d:
        return d
    if "then" in io:
        w = "second loader (the caller's clique lists re-used after the first loading): "
        it, mt = io["then"], mo.get("then")
        if it["exc"] is not None or mt is None or core.is_exc(mt):
            if not (it["exc"] is not None and core.is_exc(mt) and it["exc"] == mt[1]):
                return w + f"impl {'raised ' + it['exc'] if it['exc'] else 'returned'}, model {mt if core.is_exc(mt) else 'returned'}"
        else:
            d = _cmp_loader(it, mt, w)
            if d:
                return d
            if not it["covers_unchanged"]:
                return w + "the caller's covers were mutated"
            if not it["first_again"]:
                return w + "the first loader's jdd / motif sizes changed when the second loader was built"
    if not io["cover_unchanged"]:
        return "the caller's cover was mutated"
    if io["random_calls_constructing"]:
        return f"{io['random_calls_constructing']} random calls while constructing the (deterministic) cover loader"
    if "sample" in io:
        so = io["sample"]
        if so["exc"] is not None:
            return f"sampling from the cover-derived distribution raised {so['exc']}"
        sm = mo.get("sample")
        if sm is None or core.is_exc(sm):
            return f"sampling step: impl returned, model {sm}"
        N = case["sample"]["N"]
        if so["n_choices_calls"] != 1:
            return f"sampling step: {so['n_choices_calls']} choices calls (expected 1)"
        keys, wts, _, _ = _c05_args(case, io)
        pop, w, k, _ = so["call"]
        if pop != keys or [core.tree_q(x) for x in w] != [core.tree_q(x) for x in wts] or k != N:
            return f"sampling step: choices asked ({pop},{w},{k}), expected the jdd's keys/values and k={N}"
        if so["out"] != sm["out"]:
            return f"sampling step: returned sequence impl {so['out']} model {sm['out']}"
        if [x[2] for x in so["rlog"]] != [row for _, row in sm["log"]]:
            return f"sampling step: randrange answers used: impl {so['rlog']} model log {sm['log']}"
        if any(x[0] != 0 or x[1] != N for x in so["rlog"]):
            return f"sampling step: randrange asked for a range other than (0,{N}): {so['rlog']}"
        if not all(so["tags"]) or so["out_type"] != "list":
            return f"sampling step: type tags {so['out_type']} of {so['tags']}"
        if not io["jdd_unchanged_by_sampling"]:
            return "sampling modified the loader's jdd / motif sizes"
    return None


def _cmp_loader(io, mo, w):
    if io["sizes"] != mo["sizes"]:
        return w + f"motif_sizes: impl {io['sizes']} model {mo['sizes']}"
    im = {tuple(k): core.tree_q(q) for k, q, _ in io["jdd"]}
    mm = {tuple(k): core.tree_q(q) for k, q in mo["jdd"]}
    if set(im) != set(mm):
        return w + f"jdd keys: impl {sorted(im)} model {sorted(mm)}"
    for k in mm:
        if not core.close(im[k], mm[k]):
            return w + f"jdd[{k}]: impl {float(im[k])} model {mm[k]}"
    if not all(t for _, _, t in io["jdd"]):
        return w + "a jdd key is not a tuple of ints"
    return None


C05_CLAUSES = ["valid-shape (one column per reported size, sizes positive)", "choices-call (the jdd's keys, values, k=N)",
               "rows(length N, non-negative, never below the draw)",
               "columns(added = (s - S mod s) mod s, total divisible by the reported clique size)",
               "randrange-log(range (0,N), per-row gain = number of answers)"]


def check_calls(case, io):
    if core.is_exc(io) or not is_valid(case["cover"]):
        return []
    calls = [("c08_check", [case["cover"], io["sizes"], [[k, q] for k, q, _ in io["jdd"]]])]
    if _has_sample(io):
        # the verified C05 checker judges the sample against the REPORTED distribution and the REPORTED motif sizes
        keys, wts, sizes, N = _c05_args(case, io)
        so = io["sample"]
        calls.append(("c05_check", [keys, wts, sizes, N, so["call"], so["rlog"], so["out"]]))
    if _then_judged(case, io):
        # LAST call: the second loader's output against the second cover as the caller wrote it
        it = io["then"]
        calls.append(("c08_check", [_second(case["cover"], case["then"]), it["sizes"], [[k, q] for k, q, _ in it["jdd"]]]))
    return calls


def _then_judged(case, io):
    return _has_then(case) and isinstance(io, dict) and "then" in io and io["then"]["exc"] is None \
        and is_valid(_second(case["cover"], case["then"]))


def check_verdict(case, io, raws):
    if not is_valid(case["cover"]):
        return None
    if core.is_exc(io):
        return f"implementation raised {io[1]} on a valid cover"
    if not all(t for _, _, t in io["jdd"]):
        return "a jdd key is not a tuple of ints"
    if not raws or raws[0] != 1:
        return "c08_check (sizes = occurring clique sizes ascending; jdd = empirical law of per-vertex counts) rejected"
    if "sample" in io:
        so = io["sample"]
        if so["exc"] is not None:
            if so["exc"] in ("OracleProtocol", "Timeout"):
                return None      # another random protocol: a correspondence matter (compare / search)
            return f"sampling {case['sample']['N']} joint degrees from the cover-derived distribution raised {so['exc']}"
        if len(raws) < 2 or not isinstance(raws[1], list):
            return "sampling step: checker produced no verdict"
        v = raws[1]
        if v[0] != 1:
            bad = [C05_CLAUSES[i] for i, b in enumerate(v[1:]) if b != 1]
            return ("sample from the cover-derived distribution is not realisable with the reported clique sizes: c05_check "
                    "rejected: " + "; ".join(bad))
        if not all(so["tags"]):
            return f"sampling step: entry {so['tags'].index(0)} of the sample is not a tuple of ints"
    if _has_then(case) and "then" in io and is_valid(_second(case["cover"], case["then"])):
        w = "second loader, built from the caller's own clique lists after the first loading (cover as written: " \
            f"{_second(case['cover'], case['then'])[:8]}): "
        it = io["then"]
        if it["exc"] is not None:
            return w + f"raised {it['exc']} on a valid cover"
        if not all(t for _, _, t in it["jdd"]):
            return w + "a jdd key is not a tuple of ints"
        if raws[-1] != 1:
            return w + "c08_check (sizes = occurring clique sizes ascending; jdd = empirical law of per-vertex counts) rejected"
    return None


def nontrivial_key(case, io):
    cov = case["cover"]
    if not is_valid(cov) or core.is_exc(io):
        return None
    sizes = sorted({len(c) for c in cov})
    if len(sizes) >= 2 or sizes != list(range(1, sizes[-1] + 1)):
        return [cov, case.get("path", 0)]
    return None


def shrink(case):
    if case.get("sample"):
        yield {k: v for k, v in case.items() if k != "sample"}
        st = case["sample"]
        if st["N"] > 1:
            N = st["N"] - 1
            yield dict(case, sample={"N": N, "draws": st["draws"][:N], "rs": [min(r, N - 1) for r in st["rs"]]})
        if any(st["rs"]):
            yield dict(case, sample=dict(st, rs=[0] * len(st["rs"])))
        if any(st["draws"]):
            yield dict(case, sample=dict(st, draws=[0] * len(st["draws"])))
    th = case.get("then")
    if th:
        yield {k: v for k, v in case.items() if k != "then"}
        if th.get("drop", 0):
            yield dict(case, then=dict(th, drop=0))
        for i in range(len(th["extra"])):
            if len(th["extra"]) > 1:
                yield dict(case, then=dict(th, extra=th["extra"][:i] + th["extra"][i + 1:]))
    for c in _shrink_cover(case):
        if th:
            if not (is_valid(c["cover"]) and is_valid(_second(c["cover"], th))):
                continue
            c["then"] = th
        if case.get("sample"):
            if not is_valid(c["cover"]):
                continue
            st = case["sample"]
            need = sum({len(x) for x in c["cover"]}) + 1
            c["sample"] = dict(st, rs=(st["rs"] + [0] * need)[:max(need, len(st["rs"]))])
        yield c


def _shrink_cover(case):
    cov = case["cover"]
    extra = {"other": case["other"]} if case.get("other") else {}
    if len(cov) > 3000:
        return          # a 65536-clique hub: every evaluation costs seconds, report it as it is
    if len(cov) > 40:   # hub covers: drop blocks of cliques first (ids re-compressed)
        n = len(cov)
        for parts in (2, 4, 8, 16):
            step = (n + parts - 1) // parts
            for a in range(0, n, step):
                new = cov[:a] + cov[a + step:]
                if new and is_valid(cov):
                    new = _compress(new, case_base(cov))
                yield dict({"cover": new, "path": case.get("path", 0)}, **extra)
    for i in range(len(cov)):
        yield dict({"cover": cov[:i] + cov[i + 1:], "path": case.get("path", 0)}, **extra)
    for i, c in enumerate(cov):
        if len(c) > 1:
            for j in range(len(c)):
                c2 = c[:j] + c[j + 1:]
                new = cov[:i] + [c2] + cov[i + 1:]
                if is_valid(case["cover"]):
                    ids = sorted({v for cc in new for v in cc})
                    base = case_base(case["cover"])
                    m = {v: k + base for k, v in enumerate(ids)}
                    new = [[m[v] for v in cc] for cc in new]
                yield dict({"cover": new, "path": case.get("path", 0)}, **extra)
    if case.get("path", 0) == 1:
        yield {"cover": cov, "path": 0}
    if case.get("other"):
        oc = case["other"]
        for i in range(len(oc)):
            if len(oc) > 1:
                yield dict(case, other=oc[:i] + oc[i + 1:])


def case_base(cov):
    return min(v for c in cov for v in c)


def describe(case, io):
    return {"cover": case["cover"], "path(0=direct,1=dispatcher)": case.get("path", 0),
            "second_cover_sharing_the_clique_lists": _second(case["cover"], case["then"]) if case.get("then") else None,
            "second_loader": None if core.is_exc(io) or "then" not in io else
            (io["then"]["exc"] or {"sizes": io["then"]["sizes"],
                                   "jdd": [[k, str(Fraction(*q))] for k, q, _ in io["then"]["jdd"]][:8]}),
            "impl": io if core.is_exc(io) else {"sizes": io["sizes"], "jdd": [[k, str(Fraction(*q))] for k, q, _ in io["jdd"]][:8]}}


def histogram(cases):
    h = {"valid": 0, "malformed": 0, "one_based": 0, "nonadjacent_sizes": 0, "dispatcher_path": 0, "max_cliques": 0,
         "sampling_step": 0, "second_loader_from_the_callers_clique_lists": 0, "max_cliques_of_one_size_through_a_vertex": 0, "vertex_in_>=256_cliques_of_one_size": 0}
    for c in cases:
        cov = c["cover"]
        if is_valid(cov):
            h["valid"] += 1
            if case_base(cov) == 1:
                h["one_based"] += 1
            s = sorted({len(x) for x in cov})
            if s != list(range(s[0], s[-1] + 1)):
                h["nonadjacent_sizes"] += 1
        else:
            h["malformed"] += 1
        h["dispatcher_path"] += c.get("path", 0)
        h["max_cliques"] = max(h["max_cliques"], len(cov))
        h["sampling_step"] += 1 if c.get("sample") else 0
        h["second_loader_from_the_callers_clique_lists"] += 1 if c.get("then") else 0
        if len(cov) >= 100:
            import collections
            m = max(collections.Counter((v, len(x)) for x in cov for v in x).values())
            h["max_cliques_of_one_size_through_a_vertex"] = max(h["max_cliques_of_one_size_through_a_vertex"], m)
            h["vertex_in_>=256_cliques_of_one_size"] += 1 if m >= 256 else 0
    return h
