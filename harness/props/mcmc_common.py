"""Shared machinery of C11 / C12: clean motif networks, targets, the instrumented run of the real
MarkovChainMonteCarloRewiring under scripted randomness, canonical forms, wire encodings.

A *network* in a case is JSON: {"jds": [[..]..], "edges": [[a, b, t, m] ..], "names": [topology names]}
(vertices 0..N-1, t = index into names, m = motif id).  The implementation side rebuilds a
gcmpy Network from it (nodes first, then the edges in the listed order) so G.edges() order is
reproducible; the order the real code then sees is logged and handed to the model."""
import contextlib
import itertools
import sys
from fractions import Fraction

from harness import oracles

NAMES_CLIQUES = ["2-clique", "3-clique"]
NAMES_ALL = ["2-clique", "3-clique", "4-cycle", "d-outer", "d-inner"]

EXC_CODES = {1: "ErrorMarkovChainMonteCarloRewiring", 2: "KeyError", 3: "IndexError", 4: "NetworkXError",
             9: "OracleInvalid"}

# motif kinds: local edge list over positions, topology name per edge, jd column per position
MOTIFS = {
    "2c": {"n": 2, "edges": [(0, 1)], "topo": ["2-clique"], "col": ["2-clique"] * 2},
    "3c": {"n": 3, "edges": [(0, 1), (0, 2), (1, 2)], "topo": ["3-clique"] * 3, "col": ["3-clique"] * 3},
    "c4": {"n": 4, "edges": [(0, 1), (1, 2), (2, 3), (0, 3)], "topo": ["4-cycle"] * 4, "col": ["4-cycle"] * 4},
    # the diamond of gcmpy's own custom-motif test: positions 1,2 have degree 3, positions 0,3 degree 2
    "dia": {"n": 4, "edges": [(0, 1), (1, 2), (2, 3), (3, 1), (0, 2)],
            "topo": ["d-outer"] * 4 + ["d-inner"], "col": ["d-inner", "d-outer", "d-outer", "d-inner"]},
}


# ------------------------------------------------------------------ building clean networks
def assemble(n, motifs, names):
    """motifs: list of (kind, [vertices]).  Returns the network dict or None when not clean
    (motif on repeated vertices, or a vertex pair used twice)."""
    jds = [[0] * len(names) for _ in range(n)]
    edges = []
    seen = set()
    for mid, (kind, vs) in enumerate(motifs):
        spec = MOTIFS[kind]
        if len(set(vs)) != spec["n"]:
            return None
        for pos, v in enumerate(vs):
            jds[v][names.index(spec["col"][pos])] += 1
        for (i, j), tn in zip(spec["edges"], spec["topo"]):
            a, b = vs[i], vs[j]
            p = (min(a, b), max(a, b))
            if p in seen:
                return None
            seen.add(p)
            edges.append([a, b, names.index(tn), mid])
    return {"jds": jds, "edges": edges, "names": list(names)}


def random_clean_network(rng, n, kinds, n_motifs, names, tries=200):
    """constructive: place motifs on random distinct vertices avoiding used pairs"""
    motifs = []
    seen = set()
    for _ in range(n_motifs):
        kind = rng.choice(kinds)
        spec = MOTIFS[kind]
        if spec["n"] > n:
            continue
        for _ in range(tries):
            vs = rng.sample(range(n), spec["n"])
            ps = [(min(vs[i], vs[j]), max(vs[i], vs[j])) for i, j in spec["edges"]]
            if not any(p in seen for p in ps):
                seen.update(ps)
                motifs.append((kind, vs))
                break
    rng.shuffle(motifs)
    return assemble(n, motifs, names)


def generator_network(rng, n, max2, max3, tries=60):
    """a 2-/3-clique network from the REAL generator (GCMAlgorithmNetwork) under a scripted shuffle;
    non-clean outcomes are rejected"""
    from gcmpy.gcm_algorithm.gcm_algorithm_network import GCMAlgorithmNetwork
    from gcmpy.motif_generators.clique_motif import clique_motif
    from gcmpy.names.gcm_algorithm_names import GCMAlgorithmNames
    from gcmpy.names.network_names import NetworkNames
    for _ in range(tries):
        jds = [[rng.randint(0, max2), rng.randint(0, max3)] for _ in range(n)]
        # handshake: column sums divisible by motif sizes
        while sum(j[0] for j in jds) % 2:
            jds[rng.randrange(n)][0] += 1
        while sum(j[1] for j in jds) % 3:
            jds[rng.randrange(n)][1] += 1
        s2 = sum(j[0] for j in jds)
        s3 = sum(j[1] for j in jds)
        p2 = list(range(s2))
        p3 = list(range(s3))
        rng.shuffle(p2)
        rng.shuffle(p3)
        params = {GCMAlgorithmNames.MOTIF_SIZES: [2, 3], GCMAlgorithmNames.EDGE_NAMES: NAMES_CLIQUES,
                  GCMAlgorithmNames.BUILD_FUNCTIONS: [clique_motif, clique_motif]}
        script = oracles.Script([("shuffle", p2), ("shuffle", p3)])
        with oracles.scripted(script):
            net = GCMAlgorithmNetwork(params).random_clustered_graph([tuple(j) for j in jds])
        G = net.G
        # clean <=> no self loop, no pair used twice (edge count = stub count), motifs on distinct vertices
        n_edges_expected = s2 // 2 + s3
        if G.number_of_edges() != n_edges_expected or any(a == b for a, b in G.edges()):
            continue
        edges = []
        for a, b, d in G.edges(data=True):
            edges.append([a, b, NAMES_CLIQUES.index(d[NetworkNames.TOPOLOGY]), d[NetworkNames.MOTIF_IDS]])
        return {"jds": [list(j) for j in jds], "edges": edges, "names": list(NAMES_CLIQUES)}
    return None


def make_network(net):
    """the gcmpy Network object of a case network"""
    from gcmpy.network.network import Network
    from gcmpy.names.network_names import NetworkNames
    N = Network()
    G = N.G
    G.graph["name"] = "case-network"
    # identity is not position: the vertices are inserted in a case-dependent order (natural / reversed / shuffled),
    # their labels stay 0..N-1
    import random as _r
    n = len(net["jds"])
    order = list(range(n))
    sel = (7 * len(net["edges"]) + n) % 3
    if sel == 1:
        order.reverse()
    elif sel == 2:
        _r.Random(1000 + n + len(net["edges"])).shuffle(order)
    for i in order:
        jd = net["jds"][i]
        G.add_node(i, **{})
        # annotations are tuples for generator-made networks, but a caller may legitimately store lists:
        # half of the case networks carry LIST-valued joint degrees (shared by reference through G.copy())
        as_list = (len(net["edges"]) + len(net["jds"])) % 2 == 1
        G.nodes[i][NetworkNames.JOINT_DEGREE] = list(jd) if as_list else tuple(jd)
        G.nodes[i]["label"] = f"v{i}"          # data the code must leave alone
    for k, (a, b, t, m) in enumerate(net["edges"]):
        G.add_edge(a, b)
        G.edges[a, b][NetworkNames.TOPOLOGY] = net["names"][t]
        G.edges[a, b][NetworkNames.MOTIF_IDS] = m
        G.edges[a, b]["w"] = 100 + k
    return N


def deep_snapshot(G):
    """everything a caller can see of its own graph: graph attributes, nodes and edges with ALL attribute
    data in iteration order, adjacency order"""
    def items(d):
        return sorted((repr(k), repr(v)) for k, v in d.items())
    return [items(G.graph),
            [[repr(n), items(d)] for n, d in G.nodes(data=True)],
            [[repr(a), repr(b), items(d)] for a, b, d in G.edges(data=True)],
            [[repr(n), [repr(x) for x in G.adj[n]]] for n in G.nodes()]]


# ------------------------------------------------------------------ targets
def excess(jd, t):
    k = list(jd)
    k[t] -= 1
    return k


def pairing_key(net, a, b, t):
    return excess(net["jds"][a], t) + excess(net["jds"][b], t)


def random_target(rng, net, drop=0.0, zero=0.0, absent_topology=False):
    """symmetric dyadic target with support on all pairings of the excess keys met per topology;
    a random symmetric subset of pairings NOT present in the network is deleted (drop) or set to
    0.0 (zero).  Returns list per topology: list of [key, [num, den]] or None (topology missing)."""
    nt = len(net["names"])
    keys = [[] for _ in range(nt)]
    present = [set() for _ in range(nt)]
    for a, b, t, _m in net["edges"]:
        ka, kb = tuple(excess(net["jds"][a], t)), tuple(excess(net["jds"][b], t))
        for k in (ka, kb):
            if k not in keys[t]:
                keys[t].append(k)
        present[t].add((ka, kb))
        present[t].add((kb, ka))
    tg = []
    for t in range(nt):
        items = []
        ks = sorted(keys[t])
        for i, k1 in enumerate(ks):
            for k2 in ks[i:]:
                w = Fraction(rng.randint(1, 15), 16)
                if (k1, k2) not in present[t]:
                    u = rng.random()
                    if u < drop:
                        continue
                    if u < drop + zero:
                        w = Fraction(0)
                items.append([list(k1 + k2), [w.numerator, w.denominator]])
                if k1 != k2:
                    items.append([list(k2 + k1), [w.numerator, w.denominator]])
        tg.append(items)
    if absent_topology and nt > 1:
        used = {t for _a, _b, t, _m in net["edges"]}
        free = [t for t in range(nt) if t not in used]
        if free:
            tg[free[0]] = None
    return tg


def corners_of(net):
    """{(motif id, vertex): [edge index ...]}: the edges of one vertex inside one motif (what get_all_edges returns)"""
    out = {}
    for k, (a, b, _t, m) in enumerate(net["edges"]):
        out.setdefault((m, a), []).append(k)
        out.setdefault((m, b), []).append(k)
    return out


def grid_target(rng, net, drop=0.0, zero=0.0):
    """symmetric dyadic target whose support is, per topology t, the full grid over the keys jd(v) - e_i for every
    end point v of a t-edge and EVERY slot i of a topology that shares a corner with t (t itself included): the keys a
    WRONG slot would produce (C12-r3-3: topology index hoisted out of the per-edge loop; d-outer slot decremented for a
    d-inner edge) are then PRESENT with positive weight instead of raising the KeyError that silently rejects the swap.
    As in random_target a random symmetric subset of the pairings absent from the network is deleted / set to 0.0."""
    nt = len(net["names"])
    co = [{t} for t in range(nt)]
    for ks in corners_of(net).values():
        ts = {net["edges"][k][2] for k in ks}
        for t in ts:
            co[t] |= ts
    keys = [set() for _ in range(nt)]
    present = [set() for _ in range(nt)]
    for a, b, t, _m in net["edges"]:
        for v in (a, b):
            for i in co[t]:
                keys[t].add(tuple(excess(net["jds"][v], i)))
        ka, kb = tuple(excess(net["jds"][a], t)), tuple(excess(net["jds"][b], t))
        present[t].add((ka, kb))
        present[t].add((kb, ka))
    tg = []
    for t in range(nt):
        items = []
        ks = sorted(keys[t])
        if len(ks) > 28:      # keep the wire small: the proper keys and a sample of the others
            proper = {k for pr in present[t] for k in pr}
            rest = [k for k in ks if k not in proper]
            ks = sorted(proper | set(rng.sample(rest, max(0, min(len(rest), 28 - len(proper))))))
        for i, k1 in enumerate(ks):
            for k2 in ks[i:]:
                w = Fraction(rng.randint(1, 15), 16)
                if (k1, k2) not in present[t]:
                    u = rng.random()
                    if u < drop:
                        continue
                    if u < drop + zero:
                        w = Fraction(0)
                items.append([list(k1 + k2), [w.numerator, w.denominator]])
                if k1 != k2:
                    items.append([list(k2 + k1), [w.numerator, w.denominator]])
        tg.append(items)
    return tg


def mixed_queries(net, rng, limit):
    """method-level queries aimed at MIXED corners (one vertex's edges inside one motif carry >= 2 topologies, e.g. a
    diamond's outer + inner edge): every pair of such corners of two different motifs with the same topology
    multiset, every choice of the drawn edges; sampled down to `limit`"""
    cs = []
    for (m, v), ks in corners_of(net).items():
        ts = sorted(net["edges"][k][2] for k in ks)
        if len(set(ts)) >= 2:
            cs.append((m, v, ks, ts))
    qs = []
    for (m0, u0, k0, t0), (m1, v0, k1, t1) in itertools.product(cs, cs):
        if m0 == m1 or u0 == v0 or t0 != t1:
            continue
        for a in k0:
            for b in k1:
                qs.append((u0, net["edges"][a][:2], v0, net["edges"][b][:2]))
    if len(qs) > limit:
        qs = rng.sample(qs, limit)
    return [[u0, list(e0), v0, list(e1), [rng.randrange(0, 64), 64]] for u0, e0, v0, e1 in qs]


DIAMOND_NAMES = [["d-outer", "d-inner"], ["d-inner", "d-outer"], ["2-clique", "d-outer", "d-inner"],
                 ["d-inner", "3-clique", "d-outer"], ["d-outer", "2-clique", "d-inner", "3-clique"]]


def diamond_net(rng):
    """clean network made mostly of diamonds (their position-0 and position-2 corners mix d-outer and d-inner edges),
    2-4 topology names in varying order, vertices in several diamonds at different positions (many joint degrees);
    12-26 vertices and 0.4-0.55 motifs per vertex: enough room for suitable corner pairs"""
    names = rng.choice(DIAMOND_NAMES)
    kinds = ["dia"] * 4 + (["2c"] if "2-clique" in names else []) + (["3c"] if "3-clique" in names else [])
    net = None
    for _ in range(20):
        n = rng.randint(12, 26)
        net = random_clean_network(rng, n, kinds, max(3, int(n * rng.uniform(0.4, 0.55))), names)
        if net is not None and sum(1 for e in net["edges"] if names[e[2]] == "d-inner") >= 2:
            return net
    return net


# pairings absent from the network are deleted / zeroed SPARINGLY in the mixed-corner cases: a swap is only decided by
# random.random() when all 4-6 looked-up pairings have positive weight; a wrong key is exposed either by the Metropolis
# ratio (any weights) or, when the true pairing is one of the deleted ones, by an edge created with zero weight
MIXED_DROP, MIXED_ZERO = 0.4, 0.3


_DECOYS = []


def impl_target(net, tg):
    from gcmpy.names.tools_names import ToolsNames
    from gcmpy.tools.joint_excess_joint_degree_matrices import JointExcessJointDegreeMatrices
    ejks = {}
    # the insertion order of the name-keyed dict is not part of the interface: reversed for half the targets
    idx = list(range(len(tg)))
    if sum(len(items or []) for items in tg) % 2 == 1:
        idx.reverse()
    for t in idx:
        items = tg[t]
        if items is None:
            continue
        ejks[net["names"][t]] = {tuple(k): float(Fraction(q[0], q[1])) for k, q in items}
    # a decoy matrices object with the SAME topology names in another order was used earlier in this process and is
    # still alive (state shared between instances or keyed by bare name would leak into the real one)
    global _DECOYS
    try:
        rev = list(reversed(net["names"]))
        decoy = JointExcessJointDegreeMatrices({ToolsNames.EJKS: {n: dict(ejks.get(n, {})) for n in rev},
                                                ToolsNames.EDGE_NAMES: rev})
        for n in rev:
            decoy.get_topology_index(n)
        _DECOYS = [decoy]
    except Exception:  # noqa: BLE001 - the decoy's own outcome is irrelevant
        pass
    return JointExcessJointDegreeMatrices({ToolsNames.EJKS: ejks, ToolsNames.EDGE_NAMES: list(net["names"])})


def wire_target(tg):
    return [[] if items is None else [[k, q] for k, q in items] for items in tg]


def wire_net(net):
    return [net["jds"], net["edges"]]


# ------------------------------------------------------------------ canonical snapshots
def canon_graph(G, names):
    """[nodes, edges] of an nx graph: nodes = joint degrees of vertices 0..N-1 (a marker entry is
    appended when the vertex set is not exactly 0..N-1), edges sorted [min, max, topology index, id]"""
    from gcmpy.names.network_names import NetworkNames
    n = G.number_of_nodes()
    nodes = []
    ok = set(G.nodes()) == set(range(n))
    for i in (range(n) if ok else sorted(G.nodes(), key=repr)):
        jd = G.nodes[i].get(NetworkNames.JOINT_DEGREE)
        if isinstance(jd, (tuple, list)) and all(isinstance(x, int) for x in jd):
            nodes.append(list(jd))
        else:
            nodes.append([-999])
    if not ok:
        nodes.append([-998])
    edges = []
    for a, b, d in G.edges(data=True):
        t = d.get(NetworkNames.TOPOLOGY)
        m = d.get(NetworkNames.MOTIF_IDS)
        ti = names.index(t) if t in names else 97
        if not (isinstance(a, int) and isinstance(b, int)):
            a, b = -1, -1
        edges.append([min(a, b), max(a, b), ti, m if isinstance(m, int) else -997])
    edges.sort()
    return [nodes, edges]


def canon_net(net):
    return [[list(j) for j in net["jds"]], sorted([min(a, b), max(a, b), t, m] for a, b, t, m in net["edges"])]


# ------------------------------------------------------------------ instrumented run
class Recorder:
    """scripted random.choice / random.random with separate answer streams; logs the unified
    event sequence (draws, corner lists, uniform draws) the model replays"""

    def __init__(self, choices, randoms, names, every_draw):
        self.choices = choices
        self.randoms = randoms
        self.ci = 0
        self.ri = 0
        self.events = []
        self.names = names
        self.every_draw = every_draw
        self.G = None
        self.ds = None
        self.pending = False
        self.last = None
        self.states = []   # [graph edges canonical, draw-set list, draw-set dict consistent?]
        self.frames = []   # (top, bottom) seen by random.random()

    # random entry points.  Index draws are primitive-agnostic: choice / randrange / randint all take the
    # next answer of the index stream (mod n); which member was drawn is logged by the DrawSet.draw wrapper
    # from the RESULT, so `random.choice(seq)` and `seq[random.randrange(len(seq))]` are the same to the check
    def index(self, n, seq=None):
        if self.ci >= len(self.choices):
            raise oracles.OracleProtocol("index script exhausted")
        i = self.choices[self.ci] % n
        self.ci += 1
        return i

    def choice(self, seq):
        if len(seq) == 0:
            raise IndexError("Cannot choose from an empty sequence")
        return seq[self.index(len(seq), seq)]

    def randrange(self, a, b=None, step=1):
        if b is None:
            a, b = 0, a
        if b <= a:
            raise ValueError("empty range for randrange()")
        return a + self.index(b - a)

    def randint(self, a, b):
        return self.randrange(a, b + 1)

    def random(self):
        if self.ri >= len(self.randoms):
            raise oracles.OracleProtocol("random script exhausted")
        n, d = self.randoms[self.ri]
        self.ri += 1
        self.events.append([2, [n, d]])
        fr = sys._getframe(1)
        self.frames.append((fr.f_locals.get("top"), fr.f_locals.get("bottom")))
        return n / d

    def shuffle(self, x):
        raise oracles.OracleProtocol("unexpected shuffle")

    def choices(self, *a, **k):
        raise oracles.OracleProtocol("unexpected choices")

    def snapshot_if_needed(self, force=False):
        if self.G is None:
            return
        if not (self.pending or self.every_draw or force):
            return
        self.pending = False
        g = canon_graph(self.G, self.names)
        if g != self.last:
            self.last = g
            dsl = None
            if self.ds is not None:
                dsl = [list(e) for e in self.ds._edges]
                okmap = (len(self.ds._edge_hashmap) == len(self.ds._edges) and
                         all(self.ds._edge_hashmap.get(e) == i for i, e in enumerate(self.ds._edges)))
                if not okmap:
                    dsl = dsl + [[-1, -1]]
            self.states.append([g, dsl])


class Adaptive(Recorder):
    """generation-time oracle: answers draws so that promising corner pairs are met often; the answers it
    gave become the static script of the case (choices are then replayed verbatim)"""

    def __init__(self, rng, n_choices, randoms, names):
        Recorder.__init__(self, [], randoms, names, False)
        self.rng = rng
        self.budget = n_choices
        self.e0 = None
        self.prev_random = True

    def promising(self, e0, e1):
        from gcmpy.names.network_names import NetworkNames as NN
        G = self.G
        try:
            d0, d1 = G.edges[e0], G.edges[e1]
            if d0[NN.TOPOLOGY] != d1[NN.TOPOLOGY] or d0[NN.MOTIF_IDS] == d1[NN.MOTIF_IDS]:
                return False
            u0, v0 = e0[0], e1[0]
            if G.nodes[u0][NN.JOINT_DEGREE] == G.nodes[v0][NN.JOINT_DEGREE]:
                return False
            if any(G.edges[e][NN.MOTIF_IDS] == d1[NN.MOTIF_IDS] for e in G.edges(u0)):
                return False
            if any(G.edges[e][NN.MOTIF_IDS] == d0[NN.MOTIF_IDS] for e in G.edges(v0)):
                return False
            c0 = [e[1] for e in G.edges(u0) if G.edges[e][NN.MOTIF_IDS] == d0[NN.MOTIF_IDS]]
            c1 = [e[1] for e in G.edges(v0) if G.edges[e][NN.MOTIF_IDS] == d1[NN.MOTIF_IDS]]
            if len(c0) != len(c1):
                return False
            if any(G.has_edge(u0, x) for x in c1) or any(G.has_edge(v0, x) for x in c0):
                return False
            if len(c0) == 1 and G.nodes[c0[0]][NN.JOINT_DEGREE] == G.nodes[c1[0]][NN.JOINT_DEGREE]:
                return False
            return True
        except Exception:  # noqa: BLE001
            return False

    def index(self, n, seq=None):
        if self.budget <= 0:
            raise oracles.OracleProtocol("index budget exhausted")
        self.budget -= 1
        i = self.rng.randrange(n)
        if seq is not None:
            outer = self.e0 is None or self.G is None or self.is_outer_draw()
            if not outer and self.rng.random() < 0.75:
                cands = [j for j, e in enumerate(seq) if self.promising(self.e0, e)]
                if cands:
                    i = self.rng.choice(cands)
            elif outer and self.G is not None and len(seq) <= 80 and self.rng.random() < 0.7:
                cands = [j for j, e in enumerate(seq) if any(self.promising(e, f) for f in seq)]
                if cands:
                    i = self.rng.choice(cands)
            if outer:
                self.e0 = seq[i]
        self.prev_random = False
        self.choices.append(i)
        self.ci += 1
        return i

    def random(self):
        self.prev_random = True
        return Recorder.random(self)

    def is_outer_draw(self):
        """is this draw the `e0 = EdgeSet.draw()` of rewire()? (read from the calling source line)"""
        import linecache
        fr = sys._getframe(2)
        for _ in range(8):
            if fr is None:
                break
            if fr.f_code.co_name == "rewire":
                return "e0" in linecache.getline(fr.f_code.co_filename, fr.f_lineno)
            fr = fr.f_back
        return self.prev_random


@contextlib.contextmanager
def patched_random(rec):
    """route every `random` entry point gcmpy could use to the recorder"""
    import random as _random
    names = ["shuffle", "choice", "randrange", "randint", "random", "choices"]
    saved = {n: getattr(_random, n) for n in names}
    for n in names:
        setattr(_random, n, getattr(rec, n))
    try:
        yield rec
    finally:
        for n in names:
            setattr(_random, n, saved[n])


def _one_call(mc, N, names, rec, votes):
    """one instrumented rewire() call on an existing object; returns the observation of this call"""
    import gcmpy.tools.draw_set as ds_mod
    before = canon_graph(N.G, names)
    deep_before = deep_snapshot(N.G)
    start_order = [[min(a, b), max(a, b)] for a, b in N.G.edges()]
    orig_gae = mc.get_all_edges
    orig_sc = mc.swap_condition

    def gae(G, u0, edge):
        if rec.G is None:
            rec.G = G
            rec.last = canon_graph(G, names)
        r = orig_gae(G, u0, edge)
        rec.events.append([1, [e[1] if e[0] == u0 else e[0] for e in r]])
        return r

    def sc(*a, **k):
        r = orig_sc(*a, **k)
        if r:
            rec.pending = True
            try:
                votes.append(id_variant(a[0], a[1], a[2], a[3], a[4], mc._proposal_edges))
            except Exception:  # noqa: BLE001
                votes.append(2)
        return r

    mc.get_all_edges = gae
    mc.swap_condition = sc
    orig_draw = ds_mod.DrawSet.draw
    first_order = []

    def draw(self):
        if rec.ds is None:
            rec.ds = self
            first_order.extend(list(e) for e in self._edges)
        rec.snapshot_if_needed()
        e = orig_draw(self)
        i = self._edge_hashmap.get(e) if isinstance(self._edge_hashmap, dict) else None
        if not (isinstance(i, int) and 0 <= i < len(self._edges) and self._edges[i] == e):
            i = self._edges.index(e) if e in self._edges else -1
        rec.events.append([0, i])
        return e

    ds_mod.DrawSet.draw = draw
    status = [0]
    final = None
    Gout = None
    try:
        with patched_random(rec):
            try:
                Gout = mc.rewire()
                final = canon_graph(Gout, names)
                same_object = Gout is N.G
                if rec.G is None:
                    rec.G = Gout
                rec.pending = True
                if rec.G is Gout:
                    rec.snapshot_if_needed(force=True)
                elif final != rec.last:
                    rec.states.append([final, None])
                if same_object:
                    status = [3]
            except oracles.OracleProtocol:
                status = [1]
                rec.pending = True
                rec.snapshot_if_needed(force=True)
            except BaseException as e:  # noqa: BLE001
                if isinstance(e, (KeyboardInterrupt, SystemExit)) or type(e).__name__ == "ImplTimeout":
                    raise
                status = [2, type(e).__name__]
    finally:
        ds_mod.DrawSet.draw = orig_draw
        try:
            del mc.get_all_edges
            del mc.swap_condition
        except AttributeError:
            pass
    after = canon_graph(N.G, names)
    obs = {"status": status, "events": rec.events, "order": first_order or start_order,
           "states": rec.states, "final": final, "before": before, "after": after,
           "deep_unchanged": deep_snapshot(N.G) == deep_before,
           "frames": [[_fq(a), _fq(b)] for a, b in rec.frames], "choices_used": list(rec.choices)[:rec.ci]}
    return obs, Gout


def relabel_net(net, perm):
    """the same network with vertex v renamed perm[v] (joint degrees move with their vertices)"""
    jds = [None] * len(net["jds"])
    for v, jd in enumerate(net["jds"]):
        jds[perm[v]] = list(jd)
    edges = [[perm[a], perm[b], t, m] for a, b, t, m in net["edges"]]
    return {"jds": jds, "edges": edges, "names": list(net["names"])}


def second_net(case_net, second):
    if second and second.get("swapnet_perm"):
        return relabel_net(case_net, second["swapnet_perm"])
    return case_net


def run_rewire(net, tg, slimit, climit, choices, randoms, every_draw=True, adaptive=None, second=None):
    """the observation of a scripted rewire() run on the real code.  second = {"choices", "randoms", "relink"}:
    rewire() is called a SECOND time on the same object (after the caller, if relink, made the returned
    graph the object's network) and observed the same way under obs["second"]."""
    from gcmpy.names.tools_names import ToolsNames
    from gcmpy.tools.markov_chain_monte_carlo_rewiring import MarkovChainMonteCarloRewiring
    names = net["names"]
    N = make_network(net)
    params = {ToolsNames.NETWORK: N, ToolsNames.EJKS: impl_target(net, tg)}
    if slimit is not None:
        params[ToolsNames.SEARCH_LIMIT] = slimit
    if climit is not None:
        params[ToolsNames.CONVERGENCE_LIMIT] = climit
    mc = MarkovChainMonteCarloRewiring(params)
    limits = [mc._search_limit, mc._convergence_limit]
    if not all(isinstance(x, int) for x in limits):
        limits = [-1, -1]
    votes = []
    rec = Adaptive(adaptive, len(choices), randoms, names) if adaptive is not None else \
        Recorder(choices, randoms, names, every_draw)
    obs, Gout = _one_call(mc, N, names, rec, votes)
    obs["limits"] = limits
    if second is not None and obs["status"][0] in (0, 1, 3):
        if second.get("swapnet_perm"):
            # the caller hands the SAME rewiring object another network through the public setter
            N = make_network(relabel_net(net, second["swapnet_perm"]))
            mc.network = N
        elif second.get("relink") and Gout is not None:
            N.G = Gout            # the caller adopts the rewired graph and rewires again
        rec2 = Recorder(second["choices"], second["randoms"], names, every_draw)
        obs2, _ = _one_call(mc, N, names, rec2, votes)
        obs2["limits"] = [mc._search_limit, mc._convergence_limit]
        obs2["input"] = obs2["before"]
        obs["second"] = obs2
    obs["variant"] = variant_of(votes)
    if "second" in obs:
        obs["second"]["variant"] = obs["variant"]
    return obs


def id_variant(G, e0s, e1s, u0, v0, proposals):
    """which motif id do the proposal edges carry?  0 = the id of the corner the focal vertex LEAVES behind
    (crossed ids, /repo as it is), 1 = the id of the motif the focal vertex JOINS (repaired), 2 = neither"""
    from gcmpy.names.network_names import NetworkNames as NN
    id0 = G.edges[e0s[0]][NN.MOTIF_IDS]
    id1 = G.edges[e1s[0]][NN.MOTIF_IDS]
    if id0 == id1 or u0 == v0 or not proposals:
        return -1   # the two rules coincide: no information
    crossed = fixed = True
    for p in proposals:
        f = p._new_edge[0]
        own, other = (id0, id1) if f == u0 else (id1, id0)
        crossed = crossed and p._motif_id == own
        fixed = fixed and p._motif_id == other
    return 0 if crossed else 1 if fixed else 2


def variant_of(votes):
    """None = undetermined (mixed / third behaviour); no accepted swap fits either variant -> 0"""
    votes = [v for v in votes if v != -1]
    if not votes:
        return 0
    if all(v == 0 for v in votes):
        return 0
    if all(v == 1 for v in votes):
        return 1
    return None


def _fq(x):
    if isinstance(x, (int, float)) and x == x and abs(x) != float("inf"):
        f = Fraction(x)
        return [f.numerator, f.denominator]
    return None


def net_in_order(net, order):
    """the network with its edge list in the order the real DrawSet was filled (G.edges() order)"""
    byp = {(min(a, b), max(a, b)): [min(a, b), max(a, b), t, m] for a, b, t, m in net["edges"]}
    out = []
    for a, b in order:
        out.append(byp[(min(a, b), max(a, b))])
    if len(out) != len(net["edges"]):
        return None
    return out


def gedges_order(net):
    """G.edges() order of the rebuilt network (what rewire() feeds the DrawSet)"""
    N = make_network(net)
    return [[min(a, b), max(a, b)] for a, b in N.G.edges()]


def enc_key(n, a, b):
    return min(a, b) * n + max(a, b)


# ------------------------------------------------------------------ method level
def method_queries(net, rng, limit):
    """(u0, e0, v0, e1) over all edges and both focal vertices, sampled down to `limit`"""
    foc = []
    for a, b, _t, _m in net["edges"]:
        foc.append((a, (a, b)))
        foc.append((b, (a, b)))
    qs = list(itertools.product(foc, foc))
    if len(qs) > limit:
        qs = rng.sample(qs, limit)
    out = []
    for (u0, e0), (v0, e1) in qs:
        out.append([u0, list(e0), v0, list(e1), [rng.randrange(0, 64), 64]])
    return out


def run_methods(net, tg, queries):
    from gcmpy.names.tools_names import ToolsNames
    from gcmpy.tools.markov_chain_monte_carlo_rewiring import MarkovChainMonteCarloRewiring
    N = make_network(net)
    mc = MarkovChainMonteCarloRewiring({ToolsNames.NETWORK: N, ToolsNames.EJKS: impl_target(net, tg),
                                        ToolsNames.CONVERGENCE_LIMIT: 1})
    G = N.G
    before = canon_graph(G, net["names"])
    out = []
    for u0, e0, v0, e1, r in queries:
        rec = Recorder([], [r], net["names"], False)
        item = {}
        try:
            c0 = mc.get_all_edges(G, u0, tuple(e0))
            c1 = mc.get_all_edges(G, v0, tuple(e1))
            item["c0"] = [e[1] for e in c0]
            item["c1"] = [e[1] for e in c1]
            item["focal_first"] = all(e[0] == u0 for e in c0) and all(e[0] == v0 for e in c1)
            item["suitable"] = bool(mc.is_edge_choice_suitable(G, u0, v0, c0, c1))
            try:
                with oracles.scripted(rec):
                    dec = mc.swap_condition(G, c0, c1, u0, v0)
                item["decision"] = bool(dec)
                item["called_random"] = rec.ri
                item["top_bot"] = [_fq(rec.frames[0][0]), _fq(rec.frames[0][1])] if rec.frames else None
                props = []
                for p in mc._proposal_edges:
                    a, b = p._new_edge
                    t = p._topology
                    props.append([min(a, b), max(a, b), net["names"].index(t) if t in net["names"] else 97,
                                  p._motif_id, a])
                item["props"] = props
                if rec.ri and c0 and c1:
                    item["variant"] = id_variant(G, c0, c1, u0, v0, mc._proposal_edges)
            except BaseException as e:  # noqa: BLE001
                if type(e).__name__ == "ImplTimeout":
                    raise
                item["swap_exc"] = type(e).__name__
        except BaseException as e:  # noqa: BLE001
            if type(e).__name__ == "ImplTimeout":
                raise
            item["exc"] = type(e).__name__
        out.append(item)
    return {"items": out, "unchanged": canon_graph(G, net["names"]) == before,
            "variant": variant_of([i["variant"] for i in out if "variant" in i])}


# ================================================================== case level (shared by c11.py / c12.py)
def is_exc(obs):
    return isinstance(obs, list) and len(obs) >= 1 and obs[0] == "!exc"


def obs_variant(obs):
    """0 crossed ids / 1 repaired ids / None undetermined, as observed on the implementation"""
    if is_exc(obs):
        return 0
    return obs.get("variant")


def impl(case):
    if case["kind"] == "run":
        return run_rewire(case["net"], case["tg"], case["slimit"], case["climit"], case["choices"],
                          case["randoms"], every_draw=case.get("every_draw", True), second=case.get("second"))
    return run_methods(case["net"], case["tg"], case["queries"])


def _opt(x):
    return [] if x is None else [x]


def model_calls(case, obs, run_entry="c11_run"):
    net = case["net"]
    if case["kind"] == "run":
        if not case.get("model", True):
            return []
        if is_exc(obs) or not obs.get("order"):
            order = gedges_order(net)
            events = [] if is_exc(obs) else obs["events"]
        else:
            order, events = obs["order"], obs["events"]
        es = net_in_order(net, order)
        if es is None:
            es = [[min(a, b), max(a, b), t, m] for a, b, t, m in net["edges"]]
        calls = [(run_entry, [net["jds"], es, wire_target(case["tg"]), _opt(case["slimit"]), _opt(case["climit"]),
                              events, obs_variant(obs) or 0])]
        if not is_exc(obs) and "second" in obs:
            o2 = obs["second"]
            byp = {(e[0], e[1]): e for e in o2["input"][1]}
            es2 = [byp[(min(a, b), max(a, b))] for a, b in o2["order"] if (min(a, b), max(a, b)) in byp]
            if len(es2) != len(o2["input"][1]):
                es2 = o2["input"][1]
            calls.append((run_entry, [second_net(net, case.get("second"))["jds"], es2, wire_target(case["tg"]), _opt(case["slimit"]),
                                      _opt(case["climit"]), o2["events"], obs_variant(obs) or 0]))
        return calls
    if is_exc(obs):
        return []
    g0 = canon_net(net)
    qs = []
    cq = []
    mids = {(min(a, b), max(a, b)): m for a, b, _t, m in net["edges"]}
    for (u0, e0, v0, e1, r), it in zip(case["queries"], obs["items"]):
        qs.append([u0, v0, it.get("c0", []), it.get("c1", []), r])
        cq.append([u0, mids[(min(e0), max(e0))]])
        cq.append([v0, mids[(min(e1), max(e1))]])
    return [("mcmc_methods", [g0[0], g0[1], wire_target(case["tg"]), qs, obs_variant(obs) or 0]),
            ("mcmc_corners", [g0[1], cq])]


def model_obs(case, raws):
    if case["kind"] == "run":
        if not raws:
            return None
        def dec(raw):
            st, fin, states, limits = raw
            status = [st[0]] if st[0] != 2 else [2, EXC_CODES.get(st[1], str(st[1]))]
            return {"status": status, "limits": limits, "final": sorted(fin[0]),
                    "states": [[sorted(s[0]), s[1]] for s in states]}
        m = dec(raws[0])
        if len(raws) > 1:
            m["second"] = dec(raws[1])
        return m
    if not raws:
        return None
    return {"methods": raws[0], "corners": raws[1]}


def compare(case, obs, mobs):
    if case["kind"] == "run":
        if mobs is None:
            return None if not is_exc(obs) or not case.get("valid", True) else f"implementation raised {obs[1]}"
        if is_exc(obs):
            return f"implementation raised {obs[1]} (model: status {mobs['status']}, limits {mobs['limits']})"
        if obs.get("variant") is None:
            return "motif ids of the proposal edges follow neither the crossed nor the repaired rule"
        d = _compare_one(case, obs, mobs, "")
        if d is None and "second" in obs:
            if "second" not in mobs:
                return "second rewire() call: no model answer"
            d = _compare_one(case, obs["second"], mobs["second"], "second rewire() call on the same object: ")
        return d
    # methods
    if is_exc(obs):
        return f"implementation raised {obs[1]}"
    if mobs is None:
        return "no model answer"
    if not obs["unchanged"]:
        return "method calls modified the graph"
    if obs.get("variant") is None:
        return "motif ids of the proposal edges follow neither the crossed nor the repaired rule"
    for qi, (q, it, mm) in enumerate(zip(case["queries"], obs["items"], mobs["methods"])):
        mc0, mc1 = mobs["corners"][2 * qi], mobs["corners"][2 * qi + 1]
        tag = f"query {qi} (u0={q[0]} e0={q[1]} v0={q[2]} e1={q[3]})"
        if "exc" in it:
            return f"{tag}: implementation raised {it['exc']}"
        if sorted(it["c0"]) != sorted(mc0) or sorted(it["c1"]) != sorted(mc1):
            return f"{tag}: get_all_edges impl {it['c0']} / {it['c1']} model {mc0} / {mc1}"
        if not it["focal_first"]:
            return f"{tag}: get_all_edges did not put the focal vertex first"
        if mm[0] == -1:
            return f"{tag}: model could not read the corner attributes"
        msuit, kind, top, bot, props, dec = mm
        if bool(msuit) != it["suitable"]:
            return f"{tag}: is_edge_choice_suitable impl {it['suitable']} model {bool(msuit)}"
        if "swap_exc" in it:
            if kind != 2 or EXC_CODES.get(top) != it["swap_exc"]:
                return f"{tag}: swap_condition raised {it['swap_exc']}, model kind {kind} {top}"
            continue
        if kind == 2:
            return f"{tag}: model raises {EXC_CODES.get(top)}, swap_condition returned {it['decision']}"
        if it["called_random"] != (1 if kind == 1 else 0):
            return f"{tag}: random.random() calls impl {it['called_random']} model kind {kind}"
        if it["decision"] != bool(dec):
            return f"{tag}: decision impl {it['decision']} model {bool(dec)}"
        if kind == 1:
            from harness.core import close
            tb = it["top_bot"]
            if tb is None or tb[0] is None or tb[1] is None:
                return f"{tag}: numerator/denominator not observable"
            if not close(Fraction(tb[0][0], tb[0][1]), Fraction(top[0], top[1])) or \
                    not close(Fraction(tb[1][0], tb[1][1]), Fraction(bot[0], bot[1])):
                return f"{tag}: top/bottom impl {tb} model {top} {bot}"
            ip = [p[:4] for p in it["props"]]
            if ip != props:
                return f"{tag}: proposal edges impl {ip} model {props}"
            foc = [p[4] for p in it["props"]]
            if foc != [q[0], q[2]] * (len(foc) // 2):
                return f"{tag}: proposal edges do not keep the focal vertex first"
    return None


def _compare_one(case, obs, mobs, tag):
    n = len(case["net"]["jds"])
    ist = obs["status"]
    if ist == [3]:
        ist = [0]
    if ist != mobs["status"]:
        return f"{tag}status: impl {obs['status']} model {mobs['status']}"
    if obs["limits"] != mobs["limits"]:
        return f"{tag}limits [search, convergence]: impl {obs['limits']} model {mobs['limits']}"
    if len(obs["states"]) != len(mobs["states"]):
        return f"{tag}number of graph changes: impl {len(obs['states'])} model (accepted swaps) {len(mobs['states'])}"
    for i, ((g, dsl), (mes, mds)) in enumerate(zip(obs["states"], mobs["states"])):
        if g[1] != mes:
            d1 = [e for e in g[1] if e not in mes]
            d2 = [e for e in mes if e not in g[1]]
            return f"{tag}graph after change {i}: impl-only edges {d1[:6]} model-only edges {d2[:6]}"
        jds_here = (second_net(case["net"], case.get("second")) if tag.startswith("second") else case["net"])["jds"]
        if g[0] != [list(j) for j in jds_here]:
            return f"{tag}graph after change {i}: node annotations differ"
        if dsl is not None and [enc_key(n, a, b) for a, b in dsl] != mds:
            return f"{tag}draw set after change {i}: impl {dsl[:8]}.. model {mds[:8]}.."
    if obs["final"] is not None and obs["final"][1] != mobs["final"]:
        return f"{tag}returned graph differs from the model's final graph"
    if obs["before"] != obs["after"] or not obs.get("deep_unchanged", True):
        return f"{tag}the input network object was modified by rewire() (attribute data / iteration order included)"
    return None


def accepted_items(case, obs):
    """(query, item) of the method-level queries the implementation found suitable AND accepted"""
    out = []
    if is_exc(obs):
        return out
    for q, it in zip(case["queries"], obs["items"]):
        if it.get("suitable") and it.get("decision") and "props" in it:
            out.append((q, it))
    return out


def swap_tree(case, q, it):
    g0 = canon_net(case["net"])
    return [g0[0], g0[1], q[0], q[2], it["c0"], it["c1"], [p[:4] for p in it["props"]]]


def second_obs(obs):
    return None if is_exc(obs) else obs.get("second")


def run_graphs(obs):
    gs = [s[0] for s in obs["states"]]
    if obs["final"] is not None and (not gs or gs[-1] != obs["final"]):
        gs.append(obs["final"])
    return gs


# ------------------------------------------------------------------ generators
def rand_scripts(rng, n_choices, n_randoms, p_zero=0.5):
    choices = [rng.randrange(0, 1 << 20) for _ in range(n_choices)]
    randoms = [[0, 1] if rng.random() < p_zero else [rng.randrange(0, 64), 64] for _ in range(n_randoms)]
    return choices, randoms


def small_net(rng, flavour=None):
    flavour = flavour or rng.choice(["cliques", "cliques", "mixed", "gen", "cycles"])
    if flavour == "gen":
        net = generator_network(rng, rng.randint(6, 14), 2, 2)
        if net is not None and net["edges"]:
            return net
        flavour = "cliques"
    if flavour == "cliques":
        n = rng.randint(6, 18)
        return random_clean_network(rng, n, ["2c", "3c"], rng.randint(3, max(3, (3 * n) // 4)), NAMES_CLIQUES)
    if flavour == "cycles":
        n = rng.randint(8, 18)
        return random_clean_network(rng, n, ["2c", "c4", "c4", "3c"], rng.randint(3, max(3, n // 2)), NAMES_ALL)
    n = rng.randint(8, 18)
    return random_clean_network(rng, n, ["2c", "3c", "c4", "dia", "dia"], rng.randint(3, max(3, n // 2)), NAMES_ALL)


def gen_run(rng, drop, zero, big=False, mixed=False):
    if mixed:
        net = diamond_net(rng)
        tg = grid_target(rng, net, drop=drop * MIXED_DROP * rng.random(), zero=zero * MIXED_ZERO * rng.random())
    else:
        net = small_net(rng)
        tg = random_target(rng, net, drop=drop * rng.random(), zero=zero * rng.random(),
                           absent_topology=(drop > 0 and rng.random() < 0.2))
    sl = rng.choice([0, 1, 2, 3, 5, 5, 25, 25, 25, 25, None, None])
    cl = rng.choice([0, 1, 2, 5, 10, 30, 30, 30, None])
    ch, ra = rand_scripts(rng, rng.choice([40, 150, 400]) * (3 if big else 1), rng.choice([3, 20, 60]))
    if rng.random() < 0.8:
        ch = adaptive_choices(rng, net, tg, sl, cl, ch, ra)
    case = {"kind": "run", "net": net, "tg": tg, "slimit": sl, "climit": cl, "choices": ch, "randoms": ra,
            "valid": True, "every_draw": True, "model": True}
    if rng.random() < 0.3:
        # a history on ONE object: rewire() is called again, on the unchanged network or on the rewired one
        ch2, ra2 = rand_scripts(rng, rng.choice([40, 150]), rng.choice([3, 20]))
        case["second"] = {"choices": ch2, "randoms": ra2, "relink": rng.random() < 0.6}
        if rng.random() < 0.5:
            perm = list(range(len(net["jds"])))
            rng.shuffle(perm)
            case["second"]["swapnet_perm"] = perm
            case["second"]["relink"] = False
    return case


def adaptive_choices(rng, net, tg, sl, cl, ch, ra):
    """run the real code once with the adaptive oracle; its answers (padded with the random tail) are the script"""
    try:
        o = run_rewire(net, tg, sl, cl, ch, ra, every_draw=False, adaptive=rng)
        used = o["choices_used"]
    except BaseException as e:  # noqa: BLE001
        if isinstance(e, (KeyboardInterrupt, SystemExit)) or type(e).__name__ == "ImplTimeout":
            raise
        return ch
    return used + ch[len(used):]


def gen_methods(rng, drop, zero, nq):
    net = small_net(rng)
    tg = random_target(rng, net, drop=drop * rng.random(), zero=zero * rng.random())
    return {"kind": "methods", "net": net, "tg": tg, "queries": method_queries(net, rng, nq), "valid": True}


def gen_mixed_methods(rng, drop, zero, nq):
    """diamond networks + grid targets + queries aimed at mixed-topology corners (plus a few undirected ones)"""
    net = diamond_net(rng)
    tg = grid_target(rng, net, drop=drop * MIXED_DROP * rng.random(), zero=zero * MIXED_ZERO * rng.random())
    qs = mixed_queries(net, rng, nq) + method_queries(net, rng, max(4, nq // 4))
    return {"kind": "methods", "net": net, "tg": tg, "queries": qs, "valid": True}


def gen_invalid(rng):
    """inputs outside the property's hypotheses: only the error correspondence is checked"""
    net = small_net(rng, "cliques")
    tg = random_target(rng, net)
    which = rng.choice(["zero-present", "short-jd"])
    if which == "zero-present":
        # weight 0.0 on pairings that exist -> denominator 0 -> ErrorMarkovChainMonteCarloRewiring
        for items in tg:
            for it in items:
                if rng.random() < 0.6:
                    it[1] = [0, 1]
    else:
        # joint degree tuples shorter than the number of topologies -> IndexError on 3-clique edges
        net = dict(net)
        net["jds"] = [j[:1] for j in net["jds"]]
        tg2 = []
        for items in tg:
            d = {}
            for k, q in items:
                d.setdefault(tuple(k[:1] + k[2:3]), q)
            tg2.append([[list(k), q] for k, q in d.items()])
        tg = tg2
    ch, ra = rand_scripts(rng, 200, 30)
    return {"kind": "run", "net": net, "tg": tg, "slimit": 25, "climit": 5, "choices": ch, "randoms": ra,
            "valid": False, "every_draw": True, "model": True}


def gen_long(rng, n, swaps, kinds, names, drop=0.0, zero=0.0, model=False):
    net = random_clean_network(rng, n, kinds, int(n * rng.uniform(0.7, 1.1)), names)
    tg = random_target(rng, net, drop=drop, zero=zero)
    ch, ra = rand_scripts(rng, swaps * 120, swaps * 12, p_zero=0.3)
    return {"kind": "run", "net": net, "tg": tg, "slimit": rng.choice([20, 25, None]), "climit": swaps,
            "choices": ch, "randoms": ra, "valid": True, "every_draw": False, "model": model}


# the section-3 replays
def corpus_cases():
    out = []
    # C11a: params without CONVERGENCE_LIMIT / SEARCH_LIMIT
    net = assemble(9, [("3c", [0, 1, 2]), ("3c", [3, 4, 5]), ("2c", [6, 7]), ("2c", [2, 8]), ("2c", [5, 6])],
                   NAMES_CLIQUES)
    tg = _flat_target(net)
    n1 = make_order_index(net)
    out.append({"kind": "run", "net": net, "tg": tg, "slimit": None, "climit": None,
                "choices": [0, 3, 3, 1, 5, 7, 2, 4, 6, 0, 1, 2, 3, 4, 5, 6, 7, 8, 9, 10] * 6,
                "randoms": [[0, 1]] * 12, "valid": True, "every_draw": True, "model": True, "name": "C11a"})
    # C11b: one accepted swap between two triangles (first draw (0,1), second (3,4))
    out.append({"kind": "run", "net": net, "tg": tg, "slimit": 25, "climit": 0,
                "choices": [n1[(2, 8)], n1[(5, 6)], n1[(0, 1)], n1[(5, 6)], n1[(3, 4)]] + [0, 1, 2, 3] * 8,
                "randoms": [[0, 1]] * 3, "valid": True, "every_draw": True, "model": True,
                "name": "C11b"})
    # C11c: two triangles sharing vertex 0; e0 = (0,1) (u0 = 0), e1 = (3,4) (v0 = 3, u0 in its motif)
    net2 = assemble(7, [("3c", [0, 1, 2]), ("3c", [0, 3, 4]), ("2c", [5, 6]), ("2c", [1, 5])], NAMES_CLIQUES)
    tg2 = _flat_target(net2)
    n2 = make_order_index(net2)
    out.append({"kind": "run", "net": net2, "tg": tg2, "slimit": 25, "climit": 0,
                "choices": [n2[(0, 1)], n2[(3, 4)]] + [n2[(0, 1)], n2[(5, 6)]] * 30, "randoms": [[0, 1]] * 4,
                "valid": True, "every_draw": True, "model": True, "name": "C11c"})
    for c in list(out):
        if c.get("name") in ("C11b", "C11c"):
            qs = []
            foc = []
            for a, b, _t, _m in c["net"]["edges"]:
                foc += [(a, (a, b)), (b, (a, b))]
            for (u0, e0), (v0, e1) in itertools.product(foc, foc):
                qs.append([u0, list(e0), v0, list(e1), [0, 1]])
            out.append({"kind": "methods", "net": c["net"], "tg": c["tg"], "queries": qs, "valid": True,
                        "name": c["name"] + "-methods"})
    return out


def make_order_index(net):
    return {(a, b): i for i, (a, b) in enumerate(map(tuple, gedges_order(net)))}


def _flat_target(net):
    """full-support symmetric target with distinct dyadic weights (deterministic)"""
    import random as _r
    return random_target(_r.Random(12345), net)


def generate(rng, tier, drop, zero):
    q = tier == "quick"
    for _ in range(140 if q else 1200):
        yield gen_run(rng, drop, zero)
    for _ in range(40 if q else 300):
        yield gen_methods(rng, drop, zero, 80 if q else 200)
    # mixed-topology corners (diamond outer + inner) with grid targets: wrong-slot keys are present in the target
    for _ in range(24 if q else 200):
        yield gen_mixed_methods(rng, drop, zero, 60 if q else 150)
    for _ in range(24 if q else 200):
        yield gen_run(rng, drop, zero, mixed=True)
    for _ in range(6 if q else 40):
        yield gen_invalid(rng)
    for _ in range(10 if q else 60):
        yield gen_run(rng, drop, zero, big=True)
    # long real runs: the checker judges every intermediate graph
    for _ in range(2 if q else 6):
        yield gen_long(rng, rng.randint(40, 60), 120 if q else 600, ["2c", "3c"], NAMES_CLIQUES, drop, zero,
                       model=True)
    yield gen_long(rng, 40, 100 if q else 400, ["2c", "3c", "c4", "dia"], NAMES_ALL, drop, zero, model=True)
    if not q:
        yield gen_long(rng, 150, 1000, ["2c", "3c"], NAMES_CLIQUES, drop, zero, model=True)
        yield gen_long(rng, 200, 600, ["2c", "3c", "c4", "dia"], NAMES_ALL, drop, zero, model=False)
        yield gen_long(rng, 600, 2000, ["2c", "3c"], NAMES_CLIQUES, drop, zero, model=False)


def search_batches(rng, drop, zero):
    """after a broken correspondence: long real runs on 40-600-vertex networks, judged by the checker"""
    yield [gen_long(rng, 40, 300, ["2c", "3c"], NAMES_CLIQUES, drop, zero) for _ in range(4)]
    yield [gen_long(rng, 40, 300, ["2c", "3c", "c4", "dia"], NAMES_ALL, drop, zero) for _ in range(4)]
    yield [gen_methods(rng, drop, zero, 400) for _ in range(40)]
    yield [gen_mixed_methods(rng, drop, zero, 300) for _ in range(40)]
    yield [gen_run(rng, drop, zero, big=True) for _ in range(200)]
    yield [gen_long(rng, 150, 800, ["2c", "3c"], NAMES_CLIQUES, drop, zero) for _ in range(2)]
    yield [gen_long(rng, 600, 2000, ["2c", "3c"], NAMES_CLIQUES, drop, zero)]


def nontrivial_key(case, obs):
    if is_exc(obs):
        return None
    if case["kind"] == "run":
        return [case["net"]["edges"], obs["events"][:200], len(obs["states"])] if obs["states"] else None
    acc = accepted_items(case, obs)
    return [case["net"]["edges"], len(acc)] if acc else None


def shrink(case):
    if case["kind"] == "run":
        ch, ra = case["choices"], case["randoms"]
        for k in (len(ch) // 2, (3 * len(ch)) // 4, len(ch) - 1):
            if 0 < k < len(ch):
                c = dict(case)
                c["choices"] = ch[:k]
                yield c
        for k in (len(ra) // 2, len(ra) - 1):
            if 0 < k < len(ra):
                c = dict(case)
                c["randoms"] = ra[:k]
                yield c
    else:
        qs = case["queries"]
        if len(qs) > 1:
            h = len(qs) // 2
            for part in (qs[:h], qs[h:]):
                c = dict(case)
                c["queries"] = part
                yield c


def describe(case, obs):
    d = {"kind": case["kind"], "vertices": len(case["net"]["jds"]), "edges": len(case["net"]["edges"]),
         "topologies": case["net"]["names"]}
    if is_exc(obs):
        d["impl"] = obs
    elif case["kind"] == "run":
        d.update({"limits": obs["limits"], "status(0=finished,1=script exhausted,2=raised)": obs["status"],
                  "oracle_events": len(obs["events"]), "accepted_swaps": len(obs["states"])})
    else:
        d.update({"queries": len(case["queries"]), "suitable": sum(1 for i in obs["items"] if i.get("suitable")),
                  "accepted": len(accepted_items(case, obs))})
    return d


def histogram(cases):
    h = {"run": 0, "methods": 0, "invalid_inputs": 0, "default_limits": 0, "long_runs": 0, "max_vertices": 0}
    for c in cases:
        h[c["kind"]] += 1
        if not c.get("valid", True):
            h["invalid_inputs"] += 1
        if c["kind"] == "run" and (c["climit"] is None or c["slimit"] is None):
            h["default_limits"] += 1
        if c["kind"] == "run" and not c.get("every_draw", True):
            h["long_runs"] += 1
        if c.get("second"):
            h["two_calls_on_one_object"] = h.get("two_calls_on_one_object", 0) + 1
        h["max_vertices"] = max(h["max_vertices"], len(c["net"]["jds"]))
        for k in ("4-cycle", "d-outer"):
            if k in c["net"]["names"] and any(c["net"]["names"][e[2]] == k for e in c["net"]["edges"]):
                h["with_" + k] = h.get("with_" + k, 0) + 1
    return h
