"""Shared machinery of C11 / C12: clean motif networks, targets, the instrumented run of the real
MarkovChainMonteCarloRewiring under scripted randomness, canonical forms, wire encodings.

A *network* in a case is JSON: {"jds": [[..]..], "edges": [[a, b, t, m] ..], "names": [topology names]}
(vertices 0..N-1, t = index into names, m = motif id).  The implementation side rebuilds a
gcmpy Network from it (nodes first, then the edges in the listed order) so G.edges() order is
reproducible; the order the real code then sees is logged and handed to the model."""
import itertools
import sys
from fractions import Fraction

from harness import oracles

NAMES_CLIQUES = ["2-clique", "3-clique"]
NAMES_ALL = ["2-clique", "3-clique", "4-cycle", "d-outer", "d-inner"]

EXC_CODES = {1: "ErrorMarkovChainMonteCarloRewiring", 2: "KeyError", 3: "IndexError", 4: "NetworkXError",
             9: "OracleInvalid"}

# motif kinds: local edge list over positions, topology name per edge, jd column per position
MOTIFS = {
    "2c": {"n": 2, "edges": [(0, 1)], "topo": ["2-clique"], "col": ["2-clique"] * 2},
    "3c": {"n": 3, "edges": [(0, 1), (0, 2), (1, 2)], "topo": ["3-clique"] * 3, "col": ["3-clique"] * 3},
    "c4": {"n": 4, "edges": [(0, 1), (1, 2), (2, 3), (0, 3)], "topo": ["4-cycle"] * 4, "col": ["4-cycle"] * 4},
    # the diamond of gcmpy's own custom-motif test: positions 1,2 have degree 3, positions 0,3 degree 2
    "dia": {"n": 4, "edges": [(0, 1), (1, 2), (2, 3), (3, 1), (0, 2)],
            "topo": ["d-outer"] * 4 + ["d-inner"], "col": ["d-inner", "d-outer", "d-outer", "d-inner"]},
}


# ------------------------------------------------------------------ building clean networks
def assemble(n, motifs, names):
    """motifs: list of (kind, [vertices]).  Returns the network dict or None when not clean
    (motif on repeated vertices, or a vertex pair used twice)."""
    jds = [[0] * len(names) for _ in range(n)]
    edges = []
    seen = set()
    for mid, (kind, vs) in enumerate(motifs):
        spec = MOTIFS[kind]
        if len(set(vs)) != spec["n"]:
            return None
        for pos, v in enumerate(vs):
            jds[v][names.index(spec["col"][pos])] += 1
        for (i, j), tn in zip(spec["edges"], spec["topo"]):
            a, b = vs[i], vs[j]
            p = (min(a, b), max(a, b))
            if p in seen:
                return None
            seen.add(p)
            edges.append([a, b, names.index(tn), mid])
    return {"jds": jds, "edges": edges, "names": list(names)}


def random_clean_network(rng, n, kinds, n_motifs, names, tries=200):
    """constructive: place motifs on random distinct vertices avoiding used pairs"""
    motifs = []
    seen = set()
    for _ in range(n_motifs):
        kind = rng.choice(kinds)
        spec = MOTIFS[kind]
        if spec["n"] > n:
            continue
        for _ in range(tries):
            vs = rng.sample(range(n), spec["n"])
            ps = [(min(vs[i], vs[j]), max(vs[i], vs[j])) for i, j in spec["edges"]]
            if not any(p in seen for p in ps):
                seen.update(ps)
                motifs.append((kind, vs))
                break
    rng.shuffle(motifs)
    return assemble(n, motifs, names)


def generator_network(rng, n, max2, max3, tries=60):
    """a 2-/3-clique network from the REAL generator (GCMAlgorithmNetwork) under a scripted shuffle;
    non-clean outcomes are rejected"""
    from gcmpy.gcm_algorithm.gcm_algorithm_network import GCMAlgorithmNetwork
    from gcmpy.motif_generators.clique_motif import clique_motif
    from gcmpy.names.gcm_algorithm_names import GCMAlgorithmNames
    from gcmpy.names.network_names import NetworkNames
    for _ in range(tries):
        jds = [[rng.randint(0, max2), rng.randint(0, max3)] for _ in range(n)]
        # handshake: column sums divisible by motif sizes
        while sum(j[0] for j in jds) % 2:
            jds[rng.randrange(n)][0] += 1
        while sum(j[1] for j in jds) % 3:
            jds[rng.randrange(n)][1] += 1
        s2 = sum(j[0] for j in jds)
        s3 = sum(j[1] for j in jds)
        p2 = list(range(s2))
        p3 = list(range(s3))
        rng.shuffle(p2)
        rng.shuffle(p3)
        params = {GCMAlgorithmNames.MOTIF_SIZES: [2, 3], GCMAlgorithmNames.EDGE_NAMES: NAMES_CLIQUES,
                  GCMAlgorithmNames.BUILD_FUNCTIONS: [clique_motif, clique_motif]}
        script = oracles.Script([("shuffle", p2), ("shuffle", p3)])
        with oracles.scripted(script):
            net = GCMAlgorithmNetwork(params).random_clustered_graph([tuple(j) for j in jds])
        G = net.G
        # clean <=> no self loop, no pair used twice (edge count = stub count), motifs on distinct vertices
        n_edges_expected = s2 // 2 + s3
        if G.number_of_edges() != n_edges_expected or any(a == b for a, b in G.edges()):
            continue
        edges = []
        for a, b, d in G.edges(data=True):
            edges.append([a, b, NAMES_CLIQUES.index(d[NetworkNames.TOPOLOGY]), d[NetworkNames.MOTIF_IDS]])
        return {"jds": [list(j) for j in jds], "edges": edges, "names": list(NAMES_CLIQUES)}
    return None


def make_network(net):
    """the gcmpy Network object of a case network"""
    from gcmpy.network.network import Network
    from gcmpy.names.network_names import NetworkNames
    N = Network()
    G = N.G
    for i, jd in enumerate(net["jds"]):
        G.add_node(i, **{})
        G.nodes[i][NetworkNames.JOINT_DEGREE] = tuple(jd)
    for a, b, t, m in net["edges"]:
        G.add_edge(a, b)
        G.edges[a, b][NetworkNames.TOPOLOGY] = net["names"][t]
        G.edges[a, b][NetworkNames.MOTIF_IDS] = m
    return N


# ------------------------------------------------------------------ targets
def excess(jd, t):
    k = list(jd)
    k[t] -= 1
    return k


def pairing_key(net, a, b, t):
    return excess(net["jds"][a], t) + excess(net["jds"][b], t)


def random_target(rng, net, drop=0.0, zero=0.0, absent_topology=False):
    """symmetric dyadic target with support on all pairings of the excess keys met per topology;
    a random symmetric subset of pairings NOT present in the network is deleted (drop) or set to
    0.0 (zero).  Returns list per topology: list of [key, [num, den]] or None (topology missing)."""
    nt = len(net["names"])
    keys = [[] for _ in range(nt)]
    present = [set() for _ in range(nt)]
    for a, b, t, _m in net["edges"]:
        ka, kb = tuple(excess(net["jds"][a], t)), tuple(excess(net["jds"][b], t))
        for k in (ka, kb):
            if k not in keys[t]:
                keys[t].append(k)
        present[t].add((ka, kb))
        present[t].add((kb, ka))
    tg = []
    for t in range(nt):
        items = []
        ks = sorted(keys[t])
        for i, k1 in enumerate(ks):
            for k2 in ks[i:]:
                w = Fraction(rng.randint(1, 15), 16)
                if (k1, k2) not in present[t]:
                    u = rng.random()
                    if u < drop:
                        continue
                    if u < drop + zero:
                        w = Fraction(0)
                items.append([list(k1 + k2), [w.numerator, w.denominator]])
                if k1 != k2:
                    items.append([list(k2 + k1), [w.numerator, w.denominator]])
        tg.append(items)
    if absent_topology and nt > 1:
        used = {t for _a, _b, t, _m in net["edges"]}
        free = [t for t in range(nt) if t not in used]
        if free:
            tg[free[0]] = None
    return tg


def impl_target(net, tg):
    from gcmpy.names.tools_names import ToolsNames
    from gcmpy.tools.joint_excess_joint_degree_matrices import JointExcessJointDegreeMatrices
    ejks = {}
    for t, items in enumerate(tg):
        if items is None:
            continue
        ejks[net["names"][t]] = {tuple(k): float(Fraction(q[0], q[1])) for k, q in items}
    return JointExcessJointDegreeMatrices({ToolsNames.EJKS: ejks, ToolsNames.EDGE_NAMES: list(net["names"])})


def wire_target(tg):
    return [[] if items is None else [[k, q] for k, q in items] for items in tg]


def wire_net(net):
    return [net["jds"], net["edges"]]


# ------------------------------------------------------------------ canonical snapshots
def canon_graph(G, names):
    """[nodes, edges] of an nx graph: nodes = joint degrees of vertices 0..N-1 (a marker entry is
    appended when the vertex set is not exactly 0..N-1), edges sorted [min, max, topology index, id]"""
    from gcmpy.names.network_names import NetworkNames
    n = G.number_of_nodes()
    nodes = []
    ok = set(G.nodes()) == set(range(n))
    for i in (range(n) if ok else sorted(G.nodes(), key=repr)):
        jd = G.nodes[i].get(NetworkNames.JOINT_DEGREE)
        if isinstance(jd, (tuple, list)) and all(isinstance(x, int) for x in jd):
            nodes.append(list(jd))
        else:
            nodes.append([-999])
    if not ok:
        nodes.append([-998])
    edges = []
    for a, b, d in G.edges(data=True):
        t = d.get(NetworkNames.TOPOLOGY)
        m = d.get(NetworkNames.MOTIF_IDS)
        ti = names.index(t) if t in names else 97
        if not (isinstance(a, int) and isinstance(b, int)):
            a, b = -1, -1
        edges.append([min(a, b), max(a, b), ti, m if isinstance(m, int) else -997])
    edges.sort()
    return [nodes, edges]


def canon_net(net):
    return [[list(j) for j in net["jds"]], sorted([min(a, b), max(a, b), t, m] for a, b, t, m in net["edges"])]


# ------------------------------------------------------------------ instrumented run
class Recorder:
    """scripted random.choice / random.random with separate answer streams; logs the unified
    event sequence (draws, corner lists, uniform draws) the model replays"""

    def __init__(self, choices, randoms, names, every_draw):
        self.choices = choices
        self.randoms = randoms
        self.ci = 0
        self.ri = 0
        self.events = []
        self.names = names
        self.every_draw = every_draw
        self.G = None
        self.ds = None
        self.pending = False
        self.last = None
        self.states = []   # [graph edges canonical, draw-set list, draw-set dict consistent?]
        self.frames = []   # (top, bottom) seen by random.random()

    # random entry points
    def choice(self, seq):
        if len(seq) == 0:
            raise IndexError("Cannot choose from an empty sequence")
        if self.ci >= len(self.choices):
            raise oracles.OracleProtocol("choice script exhausted")
        self.snapshot_if_needed()
        i = self.choices[self.ci] % len(seq)
        self.ci += 1
        self.events.append([0, i])
        return seq[i]

    def random(self):
        if self.ri >= len(self.randoms):
            raise oracles.OracleProtocol("random script exhausted")
        n, d = self.randoms[self.ri]
        self.ri += 1
        self.events.append([2, [n, d]])
        fr = sys._getframe(1)
        self.frames.append((fr.f_locals.get("top"), fr.f_locals.get("bottom")))
        return n / d

    def shuffle(self, x):
        raise oracles.OracleProtocol("unexpected shuffle")

    def randrange(self, *a):
        raise oracles.OracleProtocol("unexpected randrange")

    def choices(self, *a, **k):
        raise oracles.OracleProtocol("unexpected choices")

    def snapshot_if_needed(self, force=False):
        if self.G is None:
            return
        if not (self.pending or self.every_draw or force):
            return
        self.pending = False
        g = canon_graph(self.G, self.names)
        if g != self.last:
            self.last = g
            dsl = None
            if self.ds is not None:
                dsl = [list(e) for e in self.ds._edges]
                okmap = (len(self.ds._edge_hashmap) == len(self.ds._edges) and
                         all(self.ds._edge_hashmap.get(e) == i for i, e in enumerate(self.ds._edges)))
                if not okmap:
                    dsl = dsl + [[-1, -1]]
            self.states.append([g, dsl])


def run_rewire(net, tg, slimit, climit, choices, randoms, every_draw=True):
    """returns the observation of one scripted rewire() run on the real code"""
    import gcmpy.tools.draw_set as ds_mod
    from gcmpy.names.tools_names import ToolsNames
    from gcmpy.tools.markov_chain_monte_carlo_rewiring import MarkovChainMonteCarloRewiring
    N = make_network(net)
    before = canon_graph(N.G, net["names"])
    params = {ToolsNames.NETWORK: N, ToolsNames.EJKS: impl_target(net, tg)}
    if slimit is not None:
        params[ToolsNames.SEARCH_LIMIT] = slimit
    if climit is not None:
        params[ToolsNames.CONVERGENCE_LIMIT] = climit
    mc = MarkovChainMonteCarloRewiring(params)
    limits = [mc._search_limit, mc._convergence_limit]
    if not all(isinstance(x, int) for x in limits):
        limits = [-1, -1]
    rec = Recorder(choices, randoms, net["names"], every_draw)

    orig_gae = mc.get_all_edges
    orig_sc = mc.swap_condition

    def gae(G, u0, edge):
        if rec.G is None:
            rec.G = G
            rec.last = canon_graph(G, net["names"])
            rec.initial = rec.last
        r = orig_gae(G, u0, edge)
        rec.events.append([1, [e[1] if e[0] == u0 else e[0] for e in r]])
        return r

    def sc(*a, **k):
        r = orig_sc(*a, **k)
        if r:
            rec.pending = True
        return r

    mc.get_all_edges = gae
    mc.swap_condition = sc
    orig_draw = ds_mod.DrawSet.draw
    first_order = []

    def draw(self):
        if rec.ds is None:
            rec.ds = self
            first_order.extend(list(e) for e in self._edges)
        return orig_draw(self)

    ds_mod.DrawSet.draw = draw
    status = [0]
    final = None
    try:
        with oracles.scripted(rec):
            try:
                Gout = mc.rewire()
                final = canon_graph(Gout, net["names"])
                same_object = Gout is N.G
                if rec.G is None:
                    rec.G = Gout
                rec.pending = True
                if rec.G is Gout:
                    rec.snapshot_if_needed(force=True)
                elif final != rec.last:
                    rec.states.append([final, None])
                if same_object:
                    status = [3]
            except oracles.OracleProtocol:
                status = [1]
                rec.pending = True
                rec.snapshot_if_needed(force=True)
            except BaseException as e:  # noqa: BLE001
                if isinstance(e, (KeyboardInterrupt, SystemExit)) or type(e).__name__ == "ImplTimeout":
                    raise
                status = [2, type(e).__name__]
    finally:
        ds_mod.DrawSet.draw = orig_draw
    after = canon_graph(N.G, net["names"])
    return {"status": status, "limits": limits, "events": rec.events, "order": first_order,
            "states": rec.states, "final": final, "before": before, "after": after,
            "frames": [[_fq(a), _fq(b)] for a, b in rec.frames]}


def _fq(x):
    if isinstance(x, (int, float)) and x == x and abs(x) != float("inf"):
        f = Fraction(x)
        return [f.numerator, f.denominator]
    return None


def net_in_order(net, order):
    """the network with its edge list in the order the real DrawSet was filled (G.edges() order)"""
    byp = {(min(a, b), max(a, b)): [min(a, b), max(a, b), t, m] for a, b, t, m in net["edges"]}
    out = []
    for a, b in order:
        out.append(byp[(min(a, b), max(a, b))])
    if len(out) != len(net["edges"]):
        return None
    return out


def gedges_order(net):
    """G.edges() order of the rebuilt network (what rewire() feeds the DrawSet)"""
    N = make_network(net)
    return [[min(a, b), max(a, b)] for a, b in N.G.edges()]


def enc_key(n, a, b):
    return min(a, b) * n + max(a, b)


# ------------------------------------------------------------------ method level
def method_queries(net, rng, limit):
    """(u0, e0, v0, e1) over all edges and both focal vertices, sampled down to `limit`"""
    foc = []
    for a, b, _t, _m in net["edges"]:
        foc.append((a, (a, b)))
        foc.append((b, (a, b)))
    qs = list(itertools.product(foc, foc))
    if len(qs) > limit:
        qs = rng.sample(qs, limit)
    out = []
    for (u0, e0), (v0, e1) in qs:
        out.append([u0, list(e0), v0, list(e1), [rng.randrange(0, 64), 64]])
    return out


def run_methods(net, tg, queries):
    from gcmpy.names.tools_names import ToolsNames
    from gcmpy.tools.markov_chain_monte_carlo_rewiring import MarkovChainMonteCarloRewiring
    N = make_network(net)
    mc = MarkovChainMonteCarloRewiring({ToolsNames.NETWORK: N, ToolsNames.EJKS: impl_target(net, tg),
                                        ToolsNames.CONVERGENCE_LIMIT: 1})
    G = N.G
    before = canon_graph(G, net["names"])
    out = []
    for u0, e0, v0, e1, r in queries:
        rec = Recorder([], [r], net["names"], False)
        item = {}
        try:
            c0 = mc.get_all_edges(G, u0, tuple(e0))
            c1 = mc.get_all_edges(G, v0, tuple(e1))
            item["c0"] = [e[1] for e in c0]
            item["c1"] = [e[1] for e in c1]
            item["focal_first"] = all(e[0] == u0 for e in c0) and all(e[0] == v0 for e in c1)
            item["suitable"] = bool(mc.is_edge_choice_suitable(G, u0, v0, c0, c1))
            try:
                with oracles.scripted(rec):
                    dec = mc.swap_condition(G, c0, c1, u0, v0)
                item["decision"] = bool(dec)
                item["called_random"] = rec.ri
                item["top_bot"] = [_fq(rec.frames[0][0]), _fq(rec.frames[0][1])] if rec.frames else None
                props = []
                for p in mc._proposal_edges:
                    a, b = p._new_edge
                    t = p._topology
                    props.append([min(a, b), max(a, b), net["names"].index(t) if t in net["names"] else 97,
                                  p._motif_id, a])
                item["props"] = props
            except BaseException as e:  # noqa: BLE001
                if type(e).__name__ == "ImplTimeout":
                    raise
                item["swap_exc"] = type(e).__name__
        except BaseException as e:  # noqa: BLE001
            if type(e).__name__ == "ImplTimeout":
                raise
            item["exc"] = type(e).__name__
        out.append(item)
    return {"items": out, "unchanged": canon_graph(G, net["names"]) == before}
