"""C07 — split-degree and delta loaders vs the Gallina model (Model/Split.v).

The implementation is run through three paths (constructor, a second create_jdd() on the same
object, the JointDegreeDistribution.load_joint_degree dispatch which itself calls create_jdd a second
time); every observed table is (a) compared with the model's table (keys exactly, values via
core.close) and (b) judged by the verified checker c07_check, which encodes the property itself
(support, mass per degree, division within a degree, total 1)."""
import itertools
from fractions import Fraction

from harness import core

ID = "C07"
RULE = ("case = (loader in {split-degree, delta}, probs over 1..4 clique topologies, motif_sizes, degree range "
        "[lo,hi) within 0..13, target degree inside / outside / adjacent to the range, fp as a look-up table); "
        "probs and fp are dyadic floats handed to the model as exact rationals; corpus = the DESIGN section-3 "
        "replay; then EVERY case of a small domain (quick: <=2 topologies, lo<=1, width<=2, probs in {0,1/2,1}, fp in "
        "{1/4,1/2}, every target position; thorough: <=3 topologies, lo<=2, fp in {0,1/4,1/2}); then a structured "
        "enumeration over (loader, #topologies, lo, width, target position) and seeded "
        "random cases, then a malformed stream (no topology, empty motif_sizes, W_k = 0, all-zero fp, empty range) "
        "whose expected result is the model's exception class; each case observes three tables (constructor, "
        "second create_jdd() on the same object, load_joint_degree dispatch); non-trivial = no exception, at "
        "least two degrees in the range and at least one degree with two or more admissible splits; distinct by "
        "the full case")
EXHAUSTIVE = {"quick": True, "thorough": True}
EXPLANATION = ("general theorems (all fp, all probability vectors, all ranges, all targets) in Props/C07.v for the "
               "model; the model is tied to the code by comparing whole tables on every case of a small domain "
               "(exhaustive: <=2 (quick) / <=3 (thorough) topologies, range width <=2, probs in {0,1/2,1}, fp in "
               "{1/4,1/2} / {0,1/4,1/2}, every target position), structured + random inputs up to degree 13 and a "
               "malformed stream, and "
               "the verified checker c07_check judges every table the implementation returns (tolerance 1e-9 for "
               "floating point; the checker is proved equivalent to the Prop-level Spec for every tolerance)")
ASSUMPTIONS = [
    "fp is a pure look-up table (the code calls it once per degree per create_jdd)",
    "IEEE double arithmetic of pow, *, /, sum stays within 1e-9 (absolute) of the exact rational value on the "
    "generated inputs (dyadic inputs, |value| <= 64)",
    "degree bounds are non-negative integers (range(lo, hi) with lo >= 0)",
]
TRUSTED = ["CPython dict (insertion ordered, one entry per key), float -> exact Fraction conversion"]
TECHNIQUE = ("Coq proof (structural induction on the recursive split generator, key-disjointness by the edge-count "
             "function, exact rational algebra over Q) + verified checker on the implementation's tables "
             "+ model/implementation correspondence")
LEVEL_TEXT = (
    "General theorems in coq/Props/C07.v for the executable model of both loaders (all degree functions, all "
    "probability vectors, all ranges, all targets, no size bound): the generator enumerates exactly the vectors "
    "of length T with sum_i (i+1) jd_i = k, without repetition, keys of different degrees never collide; under "
    "the hypotheses the code needs (at least one topology, W_k <> 0 at every split degree, non-empty motif_sizes "
    "for the delta loader, F = sum fp <> 0) the table has exactly the admissible keys, the mass at degree k is "
    "fp k / F, within a degree it is divided as weight / W_k, the total is 1; delta: the only key at k <> target "
    "is (k,0,...,0) with value fp k / F, the target degree is split, a target outside the range means no split "
    "at all. The verified checker c07_check is proved equivalent to the Spec for every tolerance and is run on "
    "every table the real code returns; the model is proved to satisfy it for all valid inputs.")
LEVEL_NOTE = ("Trusted: Coq kernel; extraction (ExtrOcamlBasic) + OCaml driver + Python harness for the "
              "correspondence; floating point enters only through the tolerance 1e-9 of the checker / comparison. "
              "Negative degree bounds are outside the modelled domain. No axioms.")

EPS = [1, 10 ** 9]
ERR = {1: "ZeroDivisionError", 2: "IndexError"}


# ------------------------------------------------------------------ cases
def _q(fr):
    fr = Fraction(fr)
    return [fr.numerator, fr.denominator]


def _case(mode, probs, sizes, lo, hi, target, fps, tag=""):
    return {"mode": mode, "probs": [_q(p) for p in probs], "motif_sizes": list(sizes), "lo": lo, "hi": hi,
            "target": target, "fps": [_q(f) for f in fps], "tag": tag}


def corpus():
    fps = [Fraction(1.0 / (k + 1)) for k in range(1, 5)]
    h = Fraction(1, 2)
    out = [
        _case(0, [h, h], [2, 3], 1, 5, 0, fps, "design-3 replay (split)"),
        _case(1, [h, h], [2, 3], 1, 5, 3, fps, "design-3 replay (delta, target inside)"),
        _case(1, [h, h], [2, 3], 1, 5, 4, fps, "delta, target = last degree"),
        _case(1, [h, h], [2, 3], 1, 5, 1, fps, "delta, target = first degree"),
        _case(1, [h, h], [2, 3], 1, 5, 5, fps, "delta, target = hi (outside)"),
        _case(1, [h, h], [2, 3], 1, 5, -1, fps, "delta, negative target"),
        _case(0, [Fraction(3, 4), Fraction(1, 4), Fraction(1, 2)], [2, 3, 4], 0, 7, 0,
              [Fraction(j, 8) for j in (1, 0, 3, 2, 0, 5, 1)], "three topologies, zero fp inside"),
        _case(1, [Fraction(3, 4), Fraction(1, 4), Fraction(1, 2)], [2, 3], 2, 8, 6,
              [Fraction(j, 8) for j in (1, 2, 3, 2, 4, 5)], "delta with len(motif_sizes) != len(probs)"),
    ]
    return out


def _rand_probs(rng, T):
    ps = []
    for i in range(T):
        r = rng.random()
        if r < 0.08:
            ps.append(Fraction(0))
        elif r < 0.16:
            ps.append(Fraction(1))
        else:
            ps.append(Fraction(rng.randint(1, 15), 16))
    if rng.random() < 0.85 and ps[0] == 0:
        ps[0] = Fraction(rng.randint(1, 15), 16)
    return ps


def _rand_fps(rng, n):
    r = rng.random()
    fps = []
    for _ in range(n):
        if rng.random() < 0.15:
            fps.append(Fraction(0))
        else:
            fps.append(Fraction(rng.randint(1, 31), 32))
    if r < 0.1:
        # signed degree function, kept away from F = 0
        sg = [f * rng.choice([1, 1, -1]) for f in fps]
        if abs(sum(sg)) >= Fraction(1, 4):
            fps = sg
    elif r < 0.2:
        # non-dyadic floats (1/(k+1)-like), still exact rationals for the model
        fps = [Fraction(1.0 / rng.randint(1, 40)) for _ in range(n)]
    return fps


def _rand_case(rng, maxw, maxhi):
    mode = rng.choice([0, 1])
    T = rng.choice([1, 2, 2, 3, 3, 4])
    lo = rng.randint(0, 8)
    hi = min(maxhi, lo + rng.randint(1, maxw))
    if T == 4:
        hi = min(hi, 11)
    if hi <= lo:
        hi = lo + 1
    probs = _rand_probs(rng, T)
    sizes = [i + 2 for i in range(T)]
    if mode == 1 and rng.random() < 0.15:
        sizes = [i + 2 for i in range(rng.randint(1, 4))]
    target = rng.randint(lo - 2, hi + 1)
    fps = _rand_fps(rng, hi - lo)
    return _case(mode, probs, sizes, lo, hi, target, fps)


def _malformed(rng):
    h = Fraction(1, 2)
    out = []
    # no topology at all: k // 0
    out.append(_case(0, [], [], 1, 4, 0, [h, h, h], "T=0 split"))
    out.append(_case(1, [], [2], 1, 4, 2, [h, h, h], "T=0 delta target inside"))
    out.append(_case(1, [], [2], 1, 4, 7, [h, h, h], "T=0 delta target outside (no split, fine)"))
    # empty motif_sizes in the delta loader
    out.append(_case(1, [h], [], 1, 4, 1, [h, h, h], "M=0 delta, first k is the target"))
    out.append(_case(1, [h], [], 1, 4, 3, [h, h, h], "M=0 delta"))
    out.append(_case(1, [h], [], 2, 3, 2, [h], "M=0 delta, range = {target}: fine"))
    out.append(_case(1, [], [], 1, 4, 2, [h, h, h], "T=0 and M=0"))
    # W_k = 0
    out.append(_case(0, [0, h], [2, 3], 2, 5, 0, [h, h, h], "p0=0: W_3 = 0"))
    out.append(_case(0, [0, h], [2, 3], 2, 3, 0, [h], "p0=0 but k=2 splits as (0,1): fine"))
    out.append(_case(0, [0, 0, 0], [2, 3, 4], 0, 1, 0, [h], "all probs 0, k=0: weight 0^0 = 1, fine"))
    out.append(_case(0, [0, 0, 0], [2, 3, 4], 0, 3, 0, [h, h, h], "all probs 0"))
    out.append(_case(1, [0, h], [2, 3], 1, 5, 3, [h, h, h, h], "delta, W_target = 0"))
    out.append(_case(1, [0, h], [2, 3], 1, 5, 7, [h, h, h, h], "delta, probs unusable but target outside"))
    # F = 0
    out.append(_case(0, [h, h], [2, 3], 1, 4, 0, [0, 0, 0], "all-zero fp"))
    out.append(_case(1, [h, h], [2, 3], 1, 4, 2, [0, 0, 0], "all-zero fp delta"))
    # empty range
    out.append(_case(0, [h, h], [2, 3], 3, 3, 0, [], "empty range"))
    out.append(_case(1, [h, h], [2, 3], 5, 2, 3, [], "reversed range"))
    for _ in range(12):
        c = _rand_case(rng, 4, 9)
        k = rng.randint(0, 3)
        if k == 0:
            c["probs"][0] = [0, 1]
        elif k == 1:
            c["fps"] = [[0, 1] for _ in c["fps"]]
        elif k == 2:
            c["probs"] = [[0, 1] for _ in c["probs"]]
        else:
            c["motif_sizes"] = []
        c["tag"] = "malformed-random"
        out.append(c)
    return out


def _exhaustive(tier):
    """every case of a small domain: loader x T x lo x width x probs in P^T x fp in Q^width x every target
    position (delta); quick: T<=2, lo<=1, width<=2, P={0,1/2,1}, Q={1/4,1/2}; thorough: T<=3, lo<=2, P as
    before for T<=2 and {1/2,1} beyond, Q={0,1/4,1/2}"""
    quick = tier == "quick"
    h, q, z, one = Fraction(1, 2), Fraction(1, 4), Fraction(0), Fraction(1)
    for T in ([1, 2] if quick else [1, 2, 3]):
        P = [z, h, one] if T <= 2 else [h, one]
        Qs = [q, h] if quick else [z, q, h]
        for lo in ([0, 1] if quick else [0, 1, 2]):
            for w in [1, 2]:
                hi = lo + w
                for probs in itertools.product(P, repeat=T):
                    for fps in itertools.product(Qs, repeat=w):
                        sizes = [i + 2 for i in range(T)]
                        yield _case(0, probs, sizes, lo, hi, 0, fps, "exhaustive")
                        for target in range(lo - 1, hi + 1):
                            yield _case(1, probs, sizes, lo, hi, target, fps, "exhaustive")


def generate(rng, tier):
    quick = tier == "quick"
    for c in _exhaustive(tier):
        yield c
    # structured enumeration: loader x topologies x lo x width x target position
    widths = [1, 2, 4] if quick else [1, 2, 3, 5]
    los = [0, 1, 3] if quick else [0, 1, 2, 5]
    for mode, T, lo, w in itertools.product([0, 1], [1, 2, 3, 4], los, widths):
        hi = lo + w
        targets = [0] if mode == 0 else sorted({lo - 1, lo, hi - 1, hi, (lo + hi) // 2})
        for target in targets:
            probs = _rand_probs(rng, T)
            probs[0] = probs[0] if probs[0] != 0 else Fraction(1, 2)
            yield _case(mode, probs, [i + 2 for i in range(T)], lo, hi, target, _rand_fps(rng, w), "enum")
    for c in _malformed(rng):
        yield c
    n = 500 if quick else 6000
    for _ in range(n):
        yield _rand_case(rng, 5 if quick else 7, 12 if quick else 14)
    if not quick:
        for c in _malformed(rng):
            yield c


# ------------------------------------------------------------------ implementation
def _table(jdd):
    rows = []
    for k, v in jdd.items():
        if not isinstance(k, tuple) or not all(isinstance(x, int) and not isinstance(x, bool) and x >= 0 for x in k):
            raise TypeError(f"key {k!r} is not a tuple of non-negative ints")
        rows.append([list(k), core.q_tree(v)])
    rows.sort(key=lambda r: (len(r[0]), r[0]))
    return rows


def impl(case):
    from gcmpy.joint_degree.joint_degree_distribution import JointDegreeDistribution
    from gcmpy.joint_degree.joint_degree_loaders.joint_degree_delta import JointDegreeDelta
    from gcmpy.joint_degree.joint_degree_loaders.joint_degree_split_degree import JointDegreeSplitDegree
    from gcmpy.names.joint_degree_names import JointDegreeNames as N

    lo, hi = case["lo"], case["hi"]
    tab = {lo + i: float(Fraction(n, d)) for i, (n, d) in enumerate(case["fps"])}
    calls = []

    def fp(k):
        calls.append(k)
        return tab.get(k, 0.0)

    def params():
        p = {N.FP: fp, N.PROBS: [float(Fraction(n, d)) for n, d in case["probs"]],
             N.MOTIF_SIZES: list(case["motif_sizes"]), N.LOW_HIGH_DEGREE_BOUND: (lo, hi)}
        if case["mode"] == 1:
            p[N.TARGET_K] = case["target"]
        return p

    cls = JointDegreeSplitDegree if case["mode"] == 0 else JointDegreeDelta
    # a decoy instance with other parameters first: state leaking between instances (class-level or
    # module-level caches) then shows up inside this one case, so that every replay is self-contained
    try:
        dp = params()
        dp[N.FP] = lambda k: 0.25 + 0.125 * (k % 3)
        dp[N.PROBS] = [0.375] + [0.625] * max(0, len(case["probs"]) - 1)
        dp[N.LOW_HIGH_DEGREE_BOUND] = (max(0, lo - 1), hi + 1)
        if case["mode"] == 1:
            dp[N.TARGET_K] = case["target"] + 1
        cls(dp)
    except Exception:  # noqa: BLE001 - the decoy's own outcome is irrelevant
        pass
    obj = cls(params())
    t1 = _table(obj.jdd)
    obj.create_jdd()
    t2 = _table(obj.jdd)
    p3 = params()
    p3[N.JOINT_DEGREE_TYPE] = "split_degree" if case["mode"] == 0 else "delta"
    obj3 = JointDegreeDistribution.load_joint_degree(p3)
    t3 = _table(obj3.jdd)
    return {"tables": [t1, t2, t3], "motif_sizes": list(obj3.motif_sizes)}


# ------------------------------------------------------------------ model
def _tree(case):
    return [case["mode"], case["probs"], len(case["motif_sizes"]), case["lo"], case["hi"], case["target"],
            case["fps"]]


def model_calls(case, impl_obs):
    return [("c07_run", _tree(case))]


def model_obs(case, raws):
    r = raws[0]
    if r[0] == -1:
        return ["!exc", ERR.get(r[1], f"code{r[1]}")]
    rows = [[k, v] for k, v in r[1]]
    rows.sort(key=lambda x: (len(x[0]), x[0]))
    return {"table": rows}


def _cmp_table(t, m, which):
    if [r[0] for r in t] != [r[0] for r in m]:
        tk, mk = [tuple(r[0]) for r in t], [tuple(r[0]) for r in m]
        extra = [k for k in tk if k not in mk][:4]
        missing = [k for k in mk if k not in tk][:4]
        return f"{which}: key sets differ (impl has {len(tk)}, model {len(mk)}; extra {extra}, missing {missing})"
    for (k, v), (_, q) in zip(t, m):
        if not core.close(core.tree_q(v), core.tree_q(q)):
            return f"{which}: value at {tuple(k)}: impl {float(core.tree_q(v))!r} model {q[0]}/{q[1]}"
    return None


def compare(case, impl_obs, model):
    ie, me = core.is_exc(impl_obs), core.is_exc(model)
    if ie or me:
        if ie and me:
            return None if impl_obs[1] == model[1] else f"exception class: impl {impl_obs[1]} model {model[1]}"
        return f"impl {'raised ' + impl_obs[1] if ie else 'returned a table'}, model " \
               f"{'raises ' + model[1] if me else 'returns a table'}"
    if isinstance(model, list):
        return f"model decode: {model}"
    for name, t in zip(("constructor", "second create_jdd()", "load_joint_degree"), impl_obs["tables"]):
        d = _cmp_table(t, model["table"], name)
        if d:
            return d
    if impl_obs["motif_sizes"] != case["motif_sizes"]:
        return "motif_sizes changed"
    return None


# ------------------------------------------------------------------ verified checker on the implementation's tables
def check_calls(case, impl_obs):
    base = _tree(case) + [EPS]
    if core.is_exc(impl_obs):
        return [("c07_check", base + [[]])]
    return [("c07_check", base + [t]) for t in impl_obs["tables"]]


def check_verdict(case, impl_obs, raws):
    if core.is_exc(impl_obs):
        if raws and raws[0] == 2:
            return None  # outside the hypotheses of the property: the exception class is compared instead
        return f"implementation raised {impl_obs[1]} on an input the property covers"
    names = ("constructor", "second create_jdd()", "load_joint_degree")
    for name, r in zip(names, raws):
        if r == 0:
            return f"c07_check rejected the table observed after {name}"
        if r not in (1, 2):
            return f"checker answered {r!r}"
    return None


def nontrivial_key(case, impl_obs):
    if core.is_exc(impl_obs):
        return None
    t = impl_obs["tables"][0]
    deg = {}
    for k, _ in t:
        d = sum((i + 1) * x for i, x in enumerate(k))
        deg[d] = deg.get(d, 0) + 1
    if len(deg) >= 2 and max(deg.values()) >= 2:
        c = dict(case)
        c.pop("tag", None)
        return c
    return None


def shrink(case):
    lo, hi = case["lo"], case["hi"]
    n = len(case["fps"])
    case = dict(case, tag="shrunk")
    if n > 1:
        yield dict(case, hi=hi - 1, fps=case["fps"][:-1])
        yield dict(case, lo=lo + 1, fps=case["fps"][1:])
    if len(case["probs"]) > 1:
        yield dict(case, probs=case["probs"][:-1], motif_sizes=case["motif_sizes"][:len(case["probs"]) - 1]
                   if len(case["motif_sizes"]) == len(case["probs"]) else case["motif_sizes"])
    if lo > 0:
        yield dict(case, lo=lo - 1, hi=hi - 1, target=case["target"] - 1)
    for i, p in enumerate(case["probs"]):
        if p != [1, 2]:
            ps = [list(x) for x in case["probs"]]
            ps[i] = [1, 2]
            yield dict(case, probs=ps)
    for i, f in enumerate(case["fps"]):
        if f != [1, 2]:
            fs = [list(x) for x in case["fps"]]
            fs[i] = [1, 2]
            yield dict(case, fps=fs)


def describe(case, impl_obs):
    d = {"loader": "split_degree" if case["mode"] == 0 else "delta",
         "probs": [f"{n}/{m}" for n, m in case["probs"]], "motif_sizes": case["motif_sizes"],
         "range": [case["lo"], case["hi"]], "fp": [f"{n}/{m}" for n, m in case["fps"]][:8]}
    if case["mode"] == 1:
        d["target"] = case["target"]
    if core.is_exc(impl_obs):
        d["raised"] = impl_obs[1]
    else:
        t = impl_obs["tables"][0]
        d["n_keys"] = len(t)
        d["table_head"] = [[k, float(core.tree_q(v))] for k, v in t[:6]]
    return d


def histogram(cases):
    h = {"split_degree": 0, "delta": 0, "delta_target_inside": 0, "delta_target_outside": 0,
         "len(motif_sizes)!=len(probs)": 0, "malformed_or_edge": 0}
    tops = {}
    width = {}
    for c in cases:
        h["split_degree" if c["mode"] == 0 else "delta"] += 1
        if c["mode"] == 1:
            h["delta_target_inside" if c["lo"] <= c["target"] < c["hi"] else "delta_target_outside"] += 1
            if len(c["motif_sizes"]) != len(c["probs"]):
                h["len(motif_sizes)!=len(probs)"] += 1
        if c.get("tag", "") not in ("", "enum", "exhaustive") and not c.get("tag", "").startswith("design") \
                and not c.get("tag", "").startswith("delta,"):
            h["malformed_or_edge"] += 1
        tops[len(c["probs"])] = tops.get(len(c["probs"]), 0) + 1
        w = max(0, c["hi"] - c["lo"])
        width[w] = width.get(w, 0) + 1
    h["exhaustive_small_domain"] = sum(1 for c in cases if c.get("tag") == "exhaustive")
    h["topologies"] = {str(k): v for k, v in sorted(tops.items())}
    h["range_width"] = {str(k): v for k, v in sorted(width.items())}
    h["max_hi"] = max((c["hi"] for c in cases), default=0)
    return h


def search(rng, tier, seeds):
    # the disagreeing cases first (they usually already fail the checker), then fresh thorough cases
    if seeds:
        yield list(seeds)
    batch = []
    for c in generate(rng, "thorough"):
        batch.append(c)
        if len(batch) == 300:
            yield batch
            batch = []
    if batch:
        yield batch
