"""C07 — split-degree and delta loaders vs the Gallina model (Model/Split.v).

The implementation is run through three paths (constructor, a second create_jdd() on the same
object, the JointDegreeDistribution.load_joint_degree dispatch which itself calls create_jdd a second
time), and both loaders are read again after a further loader with other parameters was built; every observed table is (a) compared with the model's table (keys exactly, values via
core.close) and (b) judged by the verified checker c07_check, which encodes the property itself
(support, mass per degree, division within a degree, total 1)."""
import itertools
from fractions import Fraction

from harness import core

ID = "C07"
RULE = ("case = (loader in {split-degree, delta}, probs over 1..4 clique topologies, motif_sizes, degree range "
        "[lo,hi) within 0..13, target degree inside / outside / adjacent to the range, fp as a look-up table); "
        "probs and fp are dyadic floats handed to the model as exact rationals; corpus = the DESIGN section-3 "
        "replay; then EVERY case of a small domain (quick: <=2 topologies, lo<=1, width<=2, probs in {0,1/2,1}, fp in "
        "{1/4,1/2}, every target position; thorough: <=3 topologies, lo<=2, fp in {0,1/4,1/2}); then a structured "
        "enumeration over (loader, #topologies, lo, width, target position) and seeded "
        "random cases, then a malformed stream (no topology, empty motif_sizes, W_k = 0, all-zero fp, empty range) "
        "whose expected result is the model's exception class; each case observes five tables (constructor, "
        "second create_jdd() on the same object, load_joint_degree dispatch, then - two loaders alive at once - the "
        "first loader's and the dispatched loader's jdd READ AGAIN, nothing called on them, after a further loader of "
        "the same class with other fp / probs / number of topologies / range was built directly and through the "
        "dispatch; the same re-reading follows every history step); a quarter of the random cases are "
        "HISTORIES on one object: the caller edits the same probs / motif_sizes / bound lists and fp's table in "
        "place and / or damages the returned table (clear, bogus entries, setter, mutating the rows the generator "
        "returned), then calls create_jdd() again - every table is judged against the current contents; the "
        "caller's input objects are compared before / after every call; non-trivial = no exception, at "
        "least two degrees in the range and at least one degree with two or more admissible splits; distinct by "
        "the full case")
EXHAUSTIVE = {"quick": True, "thorough": True}
EXPLANATION = ("general theorems (all fp, all probability vectors, all ranges, all targets) in Props/C07.v for the "
               "model; the model is tied to the code by comparing whole tables on every case of a small domain "
               "(exhaustive: <=2 (quick) / <=3 (thorough) topologies, range width <=2, probs in {0,1/2,1}, fp in "
               "{1/4,1/2} / {0,1/4,1/2}, every target position), structured + random inputs up to degree 13 and a "
               "malformed stream, and "
               "the verified checker c07_check judges every table the implementation returns (tolerance 1e-9 for "
               "floating point; the checker is proved equivalent to the Prop-level Spec for every tolerance)")
ASSUMPTIONS = [
    "fp is a pure look-up table (the code calls it once per degree per create_jdd)",
    "IEEE double arithmetic of pow, *, /, sum stays within 1e-9 (absolute) of the exact rational value on the "
    "generated inputs (dyadic inputs, |value| <= 64)",
    "degree bounds are non-negative integers (range(lo, hi) with lo >= 0)",
]
TRUSTED = ["CPython dict (insertion ordered, one entry per key), float -> exact Fraction conversion"]
TECHNIQUE = ("Coq proof (structural induction on the recursive split generator, key-disjointness by the edge-count "
             "function, exact rational algebra over Q) + verified checker on the implementation's tables "
             "+ model/implementation correspondence")
LEVEL_TEXT = (
    "General theorems in coq/Props/C07.v for the executable model of both loaders (all degree functions, all "
    "probability vectors, all ranges, all targets, no size bound): the generator enumerates exactly the vectors "
    "of length T with sum_i (i+1) jd_i = k, without repetition, keys of different degrees never collide; under "
    "the hypotheses the code needs (at least one topology, W_k <> 0 at every split degree, non-empty motif_sizes "
    "for the delta loader, F = sum fp <> 0) the table has exactly the admissible keys, the mass at degree k is "
    "fp k / F, within a degree it is divided as weight / W_k, the total is 1; delta: the only key at k <> target "
    "is (k,0,...,0) with value fp k / F, the target degree is split, a target outside the range means no split "
    "at all. The verified checker c07_check is proved equivalent to the Spec for every tolerance and is run on "
    "every table the real code returns; the model is proved to satisfy it for all valid inputs.")
LEVEL_NOTE = ("Trusted: Coq kernel; extraction (ExtrOcamlBasic) + OCaml driver + Python harness for the "
              "correspondence; floating point enters only through the tolerance 1e-9 of the checker / comparison. "
              "Negative degree bounds are outside the modelled domain. No axioms.")

EPS = [1, 10 ** 9]
ERR = {1: "ZeroDivisionError", 2: "IndexError"}


# ------------------------------------------------------------------ cases
def _q(fr):
    fr = Fraction(fr)
    return [fr.numerator, fr.denominator]


def _case(mode, probs, sizes, lo, hi, target, fps, tag=""):
    return {"mode": mode, "probs": [_q(p) for p in probs], "motif_sizes": list(sizes), "lo": lo, "hi": hi,
            "target": target, "fps": [_q(f) for f in fps], "tag": tag}


def corpus():
    fps = [Fraction(1.0 / (k + 1)) for k in range(1, 5)]
    h = Fraction(1, 2)
    out = [
        _case(0, [h, h], [2, 3], 1, 5, 0, fps, "design-3 replay (split)"),
        _case(1, [h, h], [2, 3], 1, 5, 3, fps, "design-3 replay (delta, target inside)"),
        _case(1, [h, h], [2, 3], 1, 5, 4, fps, "delta, target = last degree"),
        _case(1, [h, h], [2, 3], 1, 5, 1, fps, "delta, target = first degree"),
        _case(1, [h, h], [2, 3], 1, 5, 5, fps, "delta, target = hi (outside)"),
        _case(1, [h, h], [2, 3], 1, 5, -1, fps, "delta, negative target"),
        _case(0, [Fraction(3, 4), Fraction(1, 4), Fraction(1, 2)], [2, 3, 4], 0, 7, 0,
              [Fraction(j, 8) for j in (1, 0, 3, 2, 0, 5, 1)], "three topologies, zero fp inside"),
        _case(1, [Fraction(3, 4), Fraction(1, 4), Fraction(1, 2)], [2, 3], 2, 8, 6,
              [Fraction(j, 8) for j in (1, 2, 3, 2, 4, 5)], "delta with len(motif_sizes) != len(probs)"),
    ]
    q = Fraction(1, 4)
    base = _case(0, [h, q], [2, 3], 1, 4, 0, [h, q, h], "history: probs edited in place, then table damaged")
    base["history"] = [
        {"probs": [_q(q), _q(h)], "motif_sizes": [2, 3], "lo": 1, "hi": 4, "fps": [_q(h), _q(q), _q(h)],
         "damage": "none"},
        {"probs": [_q(q), _q(h)], "motif_sizes": [2, 3], "lo": 1, "hi": 4, "fps": [_q(h), _q(q), _q(h)],
         "damage": "bogus"},
        {"probs": [_q(h), _q(h), _q(q)], "motif_sizes": [2, 3, 4], "lo": 0, "hi": 6,
         "fps": [_q(Fraction(j, 8)) for j in (1, 2, 0, 3, 1, 1)], "damage": "rows"},
    ]
    out.append(base)
    d = _case(1, [h, q], [2, 3], 1, 5, 3, [h, q, h, q], "history: delta, bounds moved in place, returned table cleared")
    d["history"] = [
        {"probs": [_q(h), _q(q)], "motif_sizes": [2, 3], "lo": 2, "hi": 6, "fps": [_q(q), _q(h), _q(h), _q(q)],
         "damage": "clear"},
        {"probs": [_q(q), _q(q)], "motif_sizes": [2, 3], "lo": 2, "hi": 6, "fps": [_q(q), _q(h), _q(h), _q(q)],
         "damage": "setter"},
    ]
    out.append(d)
    return out


def _rand_probs(rng, T):
    ps = []
    for i in range(T):
        r = rng.random()
        if r < 0.08:
            ps.append(Fraction(0))
        elif r < 0.16:
            ps.append(Fraction(1))
        else:
            ps.append(Fraction(rng.randint(1, 15), 16))
    if rng.random() < 0.85 and ps[0] == 0:
        ps[0] = Fraction(rng.randint(1, 15), 16)
    return ps


def _rand_fps(rng, n):
    r = rng.random()
    fps = []
    for _ in range(n):
        if rng.random() < 0.15:
            fps.append(Fraction(0))
        else:
            fps.append(Fraction(rng.randint(1, 31), 32))
    if r < 0.1:
        # signed degree function, kept away from F = 0
        sg = [f * rng.choice([1, 1, -1]) for f in fps]
        if abs(sum(sg)) >= Fraction(1, 4):
            fps = sg
    elif r < 0.2:
        # non-dyadic floats (1/(k+1)-like), still exact rationals for the model
        fps = [Fraction(1.0 / rng.randint(1, 40)) for _ in range(n)]
    return fps


def _rand_case(rng, maxw, maxhi):
    mode = rng.choice([0, 1])
    T = rng.choice([1, 2, 2, 3, 3, 4])
    lo = rng.randint(0, 8)
    hi = min(maxhi, lo + rng.randint(1, maxw))
    if T == 4:
        hi = min(hi, 11)
    if hi <= lo:
        hi = lo + 1
    probs = _rand_probs(rng, T)
    sizes = [i + 2 for i in range(T)]
    if mode == 1 and rng.random() < 0.15:
        sizes = [i + 2 for i in range(rng.randint(1, 4))]
    target = rng.randint(lo - 2, hi + 1)
    fps = _rand_fps(rng, hi - lo)
    return _case(mode, probs, sizes, lo, hi, target, fps)


DAMAGE = ["none", "clear", "bogus", "rows", "setter"]


def _valid_phase(rng, mode, T_choices=(1, 2, 2, 3, 3, 4), maxhi=11):
    """a phase that certainly meets the hypotheses (p0 > 0, other probs >= 0, fp >= 0 not all zero, M >= 1):
    C07_hypotheses_of_probabilities"""
    T = rng.choice(T_choices)
    lo = rng.randint(0, 7)
    hi = min(maxhi, lo + rng.randint(1, 4))
    probs = _rand_probs(rng, T)
    if probs[0] == 0:
        probs[0] = Fraction(rng.randint(1, 15), 16)
    sizes = [i + 2 for i in range(T)]
    if mode == 1 and rng.random() < 0.2:
        sizes = [i + 2 for i in range(rng.randint(1, 4))]
    fps = [Fraction(rng.randint(0, 31), 32) for _ in range(hi - lo)]
    if sum(fps) == 0:
        fps[rng.randrange(len(fps))] = Fraction(1, 2)
    return {"probs": [_q(x) for x in probs], "motif_sizes": sizes, "lo": lo, "hi": hi, "fps": [_q(f) for f in fps]}


def _history_case(rng):
    """call, let the caller edit the SAME input objects in place and / or damage the returned table, call again"""
    mode = rng.choice([0, 1])
    ph0 = _valid_phase(rng, mode)
    steps = []
    prev = ph0
    for _ in range(rng.randint(1, 3)):
        r = rng.random()
        if r < 0.25:
            ph = dict(prev)                      # identical repeat (a cache keyed too coarsely must not matter)
        elif r < 0.5:
            ph = dict(prev)                      # only the probabilities change, in place, same length
            ps = _rand_probs(rng, len(prev["probs"]))
            if ps[0] == 0:
                ps[0] = Fraction(3, 16)
            ph["probs"] = [_q(x) for x in ps]
        elif r < 0.65:
            ph = dict(prev)                      # only fp's table changes
            fps = [Fraction(rng.randint(0, 31), 32) for _ in prev["fps"]]
            if sum(fps) == 0:
                fps[0] = Fraction(1, 4)
            ph["fps"] = [_q(f) for f in fps]
        else:
            ph = _valid_phase(rng, mode)         # everything changes (other T, other range)
        ph["damage"] = rng.choice(DAMAGE)
        steps.append(ph)
        prev = {k: v for k, v in ph.items() if k != "damage"}
    target = rng.randint(ph0["lo"] - 1, ph0["hi"])
    c = {"mode": mode, "probs": ph0["probs"], "motif_sizes": ph0["motif_sizes"], "lo": ph0["lo"], "hi": ph0["hi"],
         "target": target, "fps": ph0["fps"], "tag": "history", "history": steps}
    return c


def _malformed(rng):
    h = Fraction(1, 2)
    out = []
    # no topology at all: k // 0
    out.append(_case(0, [], [], 1, 4, 0, [h, h, h], "T=0 split"))
    out.append(_case(1, [], [2], 1, 4, 2, [h, h, h], "T=0 delta target inside"))
    out.append(_case(1, [], [2], 1, 4, 7, [h, h, h], "T=0 delta target outside (no split, fine)"))
    # empty motif_sizes in the delta loader
    out.append(_case(1, [h], [], 1, 4, 1, [h, h, h], "M=0 delta, first k is the target"))
    out.append(_case(1, [h], [], 1, 4, 3, [h, h, h], "M=0 delta"))
    out.append(_case(1, [h], [], 2, 3, 2, [h], "M=0 delta, range = {target}: fine"))
    out.append(_case(1, [], [], 1, 4, 2, [h, h, h], "T=0 and M=0"))
    # W_k = 0
    out.append(_case(0, [0, h], [2, 3], 2, 5, 0, [h, h, h], "p0=0: W_3 = 0"))
    out.append(_case(0, [0, h], [2, 3], 2, 3, 0, [h], "p0=0 but k=2 splits as (0,1): fine"))
    out.append(_case(0, [0, 0, 0], [2, 3, 4], 0, 1, 0, [h], "all probs 0, k=0: weight 0^0 = 1, fine"))
    out.append(_case(0, [0, 0, 0], [2, 3, 4], 0, 3, 0, [h, h, h], "all probs 0"))
    out.append(_case(1, [0, h], [2, 3], 1, 5, 3, [h, h, h, h], "delta, W_target = 0"))
    out.append(_case(1, [0, h], [2, 3], 1, 5, 7, [h, h, h, h], "delta, probs unusable but target outside"))
    # F = 0
    out.append(_case(0, [h, h], [2, 3], 1, 4, 0, [0, 0, 0], "all-zero fp"))
    out.append(_case(1, [h, h], [2, 3], 1, 4, 2, [0, 0, 0], "all-zero fp delta"))
    # empty range
    out.append(_case(0, [h, h], [2, 3], 3, 3, 0, [], "empty range"))
    out.append(_case(1, [h, h], [2, 3], 5, 2, 3, [], "reversed range"))
    for _ in range(12):
        c = _rand_case(rng, 4, 9)
        k = rng.randint(0, 3)
        if k == 0:
            c["probs"][0] = [0, 1]
        elif k == 1:
            c["fps"] = [[0, 1] for _ in c["fps"]]
        elif k == 2:
            c["probs"] = [[0, 1] for _ in c["probs"]]
        else:
            c["motif_sizes"] = []
        c["tag"] = "malformed-random"
        out.append(c)
    return out


def _exhaustive(tier):
    """every case of a small domain: loader x T x lo x width x probs in P^T x fp in Q^width x every target
    position (delta); quick: T<=2, lo<=1, width<=2, P={0,1/2,1}, Q={1/4,1/2}; thorough: T<=3, lo<=2, P as
    before for T<=2 and {1/2,1} beyond, Q={0,1/4,1/2}"""
    quick = tier == "quick"
    h, q, z, one = Fraction(1, 2), Fraction(1, 4), Fraction(0), Fraction(1)
    for T in ([1, 2] if quick else [1, 2, 3]):
        P = [z, h, one] if T <= 2 else [h, one]
        Qs = [q, h] if quick else [z, q, h]
        for lo in ([0, 1] if quick else [0, 1, 2]):
            for w in [1, 2]:
                hi = lo + w
                for probs in itertools.product(P, repeat=T):
                    for fps in itertools.product(Qs, repeat=w):
                        sizes = [i + 2 for i in range(T)]
                        yield _case(0, probs, sizes, lo, hi, 0, fps, "exhaustive")
                        for target in range(lo - 1, hi + 1):
                            yield _case(1, probs, sizes, lo, hi, target, fps, "exhaustive")


def generate(rng, tier):
    quick = tier == "quick"
    for c in _exhaustive(tier):
        yield c
    # structured enumeration: loader x topologies x lo x width x target position
    widths = [1, 2, 4] if quick else [1, 2, 3, 5]
    los = [0, 1, 3] if quick else [0, 1, 2, 5]
    for mode, T, lo, w in itertools.product([0, 1], [1, 2, 3, 4], los, widths):
        hi = lo + w
        targets = [0] if mode == 0 else sorted({lo - 1, lo, hi - 1, hi, (lo + hi) // 2})
        for target in targets:
            probs = _rand_probs(rng, T)
            probs[0] = probs[0] if probs[0] != 0 else Fraction(1, 2)
            yield _case(mode, probs, [i + 2 for i in range(T)], lo, hi, target, _rand_fps(rng, w), "enum")
    # large degrees (beyond CPython's small-int cache, 256) and numpy integer parameters: `k is target`,
    # `isinstance(x, int)`, uint8 tables ... only show there
    for j in range(3 if quick else 12):
        T = 2
        lo = rng.randint(254, 258)
        w = 2
        hi = lo + w
        target = [257 if lo <= 257 < hi else lo + 1, lo + 1, lo][j % 3]
        # unit probabilities keep the exact rationals of the model small at these degrees (weights are all 1)
        probs = [Fraction(1), Fraction(1)]
        c = _case(1, probs, [2, 3], lo, hi, target, [Fraction(1, 2), Fraction(1, 4)], "large-degrees")
        c["np_ints"] = j % 3
        yield c
    for j in range(6 if quick else 30):
        T = rng.choice([1, 2, 3])
        lo = rng.randint(0, 6)
        w = rng.randint(1, 4)
        probs = _rand_probs(rng, T)
        probs[0] = probs[0] if probs[0] != 0 else Fraction(1, 2)
        c = _case(1, probs, [i + 2 for i in range(T)], lo, lo + w, rng.randint(lo, lo + w - 1), _rand_fps(rng, w), "numpy-ints")
        c["np_ints"] = 1 + j % 2
        yield c
    for c in _malformed(rng):
        yield c
    n = 500 if quick else 6000
    for i in range(n):
        # a quarter of the random cases are histories on one object
        if i % 4 == 3:
            yield _history_case(rng)
        else:
            yield _rand_case(rng, 5 if quick else 7, 12 if quick else 14)
    if not quick:
        for c in _malformed(rng):
            yield c


# ------------------------------------------------------------------ implementation
def _table(jdd):
    rows = []
    for k, v in jdd.items():
        if not isinstance(k, tuple) or not all(isinstance(x, int) and not isinstance(x, bool) and x >= 0 for x in k):
            raise TypeError(f"key {k!r} is not a tuple of non-negative ints")
        rows.append([list(k), core.q_tree(v)])
    rows.sort(key=lambda r: (len(r[0]), r[0]))
    return rows


def _phases(case):
    """phase 0 = the case itself; later phases = what the caller turned the SAME input objects into"""
    base = {"probs": case["probs"], "motif_sizes": case["motif_sizes"], "lo": case["lo"], "hi": case["hi"],
            "fps": case["fps"], "damage": "none"}
    return [base] + [dict(ph) for ph in case.get("history", [])]


def _floats(qs):
    return [float(Fraction(n, d)) for n, d in qs]


def impl(case):
    from gcmpy.joint_degree.joint_degree_distribution import JointDegreeDistribution
    from gcmpy.joint_degree.joint_degree_loaders.joint_degree_delta import JointDegreeDelta
    from gcmpy.joint_degree.joint_degree_loaders.joint_degree_split_degree import JointDegreeSplitDegree
    from gcmpy.names.joint_degree_names import JointDegreeNames as N

    phases = _phases(case)
    hist = len(phases) > 1
    lo, hi = case["lo"], case["hi"]
    # the caller's objects: they stay the SAME objects through the whole history
    tab = {lo + i: x for i, x in enumerate(_floats(case["fps"]))}
    probs_obj = _floats(case["probs"])
    sizes_obj = list(case["motif_sizes"])
    bound_obj = [lo, hi] if hist else (lo, hi)   # a list when the caller is going to move the bounds in place

    def fp(k):
        return tab.get(k, 0.0)

    def params(own=True):
        p = {N.FP: fp, N.PROBS: probs_obj if own else list(probs_obj),
             N.MOTIF_SIZES: sizes_obj if own else list(sizes_obj),
             N.LOW_HIGH_DEGREE_BOUND: bound_obj if own else tuple(bound_obj)}
        if case["mode"] == 1:
            p[N.TARGET_K] = case["target"]
            if case.get("np_ints", 0) >= 1:
                import numpy as np
                p[N.TARGET_K] = (np.int64 if case["np_ints"] == 1 else np.int32)(case["target"])
        return p

    cls = JointDegreeSplitDegree if case["mode"] == 0 else JointDegreeDelta
    # a decoy instance with other parameters first: state leaking between instances (class-level or
    # module-level caches) then shows up inside this one case, so that every replay is self-contained
    try:
        dp = params(own=False)
        dp[N.FP] = lambda k: 0.25 + 0.125 * (k % 3)
        dp[N.PROBS] = [0.375] + [0.625] * max(0, len(case["probs"]) - 1)
        dp[N.LOW_HIGH_DEGREE_BOUND] = (max(0, lo - 1), hi + 1)
        if case["mode"] == 1:
            dp[N.TARGET_K] = case["target"] + 1
        cls(dp)
    except Exception:  # noqa: BLE001 - the decoy's own outcome is irrelevant
        pass

    out = []
    damaged = []
    alive = []   # every loader built after the judged one stays alive until the case ends

    def second_loader(ph, n):
        """a SECOND loader of the same class (and, every other time, of the other class / through the dispatch) with
        OTHER parameters (other fp, other probs, other number of topologies, other range), built from objects of its
        own while the judged loader is alive; its own outcome is irrelevant"""
        T = len(ph["probs"])
        T2 = max(1, T + (1 if n % 2 == 0 else -1))
        lo2 = max(0, ph["lo"] - 1) if n % 3 else ph["lo"] + 1
        if lo2 > 12:
            lo2 = 1 + n % 3   # keep the second loader cheap next to the large-degree cases
        p2 = {N.FP: (lambda k: 0.125 + 0.0625 * ((k + n) % 4)), N.PROBS: [0.625] + [0.25] * (T2 - 1),
              N.MOTIF_SIZES: [i + 2 for i in range(T2)], N.LOW_HIGH_DEGREE_BOUND: (lo2, lo2 + 3 + n % 2)}
        if case["mode"] == 1:
            p2[N.TARGET_K] = lo2 + 1
        try:
            alive.append(cls(p2))
            if n % 2:
                p2 = dict(p2)
                p2[N.JOINT_DEGREE_TYPE] = "split_degree" if case["mode"] == 0 else "delta"
                alive.append(JointDegreeDistribution.load_joint_degree(p2))
        except core.ImplTimeout:
            raise
        except Exception:  # noqa: BLE001
            pass

    def inputs_intact(ph, p0):
        """the code must leave the caller's objects exactly as the caller wrote them (content and order)"""
        want_b = [ph["lo"], ph["hi"]]
        if probs_obj != _floats(ph["probs"]):
            damaged.append(f"probs list changed to {probs_obj}")
        if sizes_obj != list(ph["motif_sizes"]):
            damaged.append(f"motif_sizes list changed to {sizes_obj}")
        if list(bound_obj) != want_b:
            damaged.append(f"degree bound changed to {list(bound_obj)}")
        if tab != {ph["lo"] + i: x for i, x in enumerate(_floats(ph["fps"]))}:
            damaged.append("fp's table changed")
        if p0 is not None:
            if list(p0.keys()) != p0_keys or p0[N.PROBS] is not probs_obj or p0[N.MOTIF_SIZES] is not sizes_obj \
                    or p0[N.FP] is not fp:
                damaged.append("params dict changed")

    # ---- phase 0: constructor, second create_jdd(), dispatch through load_joint_degree
    obj = None
    try:
        p0 = params()
        p0_keys = list(p0.keys())
        obj = cls(p0)
        t1 = _table(obj.jdd)
        obj.create_jdd()
        t2 = _table(obj.jdd)
        p3 = params(own=False)
        p3[N.JOINT_DEGREE_TYPE] = "split_degree" if case["mode"] == 0 else "delta"
        obj3 = JointDegreeDistribution.load_joint_degree(p3)
        t3 = _table(obj3.jdd)
        # TWO LOADERS ALIVE AT ONCE, THE FIRST ONE READ AGAIN: nothing is called on obj; what it exposes must still
        # be the table of ITS parameters after another loader (other parameters) was built in the same process
        second_loader(phases[0], 0)
        t4 = _table(obj.jdd)
        t5 = _table(obj3.jdd)
        out.append({"tables": [t1, t2, t3, t4, t5]})
        inputs_intact(phases[0], p0)
        if list(obj3.motif_sizes) != list(case["motif_sizes"]):
            damaged.append("motif_sizes property differs from the input")
    except core.ImplTimeout:
        raise
    except Exception as e:  # noqa: BLE001
        out.append({"exc": type(e).__name__})
        return {"phases": out, "damaged": damaged}

    # ---- later phases: the caller damages what was returned and / or edits the inputs IN PLACE, then asks the
    # SAME object again; every answer is judged against the model on the CURRENT contents
    for ph in phases[1:]:
        try:
            dmg = ph.get("damage", "none")
            if dmg == "clear":
                obj.jdd.clear()
            elif dmg == "bogus":
                d = obj.jdd
                for key in list(d)[:2]:
                    d[key] = d[key] * 3.0 + 1.0
                d[(97,) * max(1, len(sizes_obj))] = 5.0
            elif dmg == "rows":
                for k in range(bound_obj[0], bound_obj[1]):
                    rows = list(obj.get_valid_joint_degrees(k, len(probs_obj))) if probs_obj else []
                    for r in rows:
                        if r:
                            r[0] += 1
                            r.append(7)
                    del rows[:]
            elif dmg == "setter":
                obj.jdd = {(1,) * max(1, len(sizes_obj)): 1.0}
            probs_obj[:] = _floats(ph["probs"])
            sizes_obj[:] = list(ph["motif_sizes"])
            bound_obj[0], bound_obj[1] = ph["lo"], ph["hi"]
            tab.clear()
            tab.update({ph["lo"] + i: x for i, x in enumerate(_floats(ph["fps"]))})
            obj.create_jdd()
            ta = _table(obj.jdd)
            second_loader(ph, len(out))
            out.append({"tables": [ta, _table(obj.jdd)]})
            inputs_intact(ph, None)
        except core.ImplTimeout:
            raise
        except Exception as e:  # noqa: BLE001
            out.append({"exc": type(e).__name__})
            break
    return {"phases": out, "damaged": damaged}


# ------------------------------------------------------------------ model
def _tree(case, ph):
    return [case["mode"], ph["probs"], len(ph["motif_sizes"]), ph["lo"], ph["hi"], case["target"], ph["fps"]]


def _obs_phases(impl_obs):
    """the implementation's phases; a top-level exception (time-out, harness trouble) counts as phase 0"""
    if core.is_exc(impl_obs):
        return [{"exc": impl_obs[1]}]
    return impl_obs["phases"]


def model_calls(case, impl_obs):
    return [("c07_run", _tree(case, ph)) for ph in _phases(case)]


def model_obs(case, raws):
    out = []
    for r in raws:
        if r[0] == -1:
            out.append({"exc": ERR.get(r[1], f"code{r[1]}")})
        else:
            rows = [[k, v] for k, v in r[1]]
            rows.sort(key=lambda x: (len(x[0]), x[0]))
            out.append({"table": rows})
    return {"phases": out}


def _cmp_table(t, m, which):
    if [r[0] for r in t] != [r[0] for r in m]:
        tk, mk = [tuple(r[0]) for r in t], [tuple(r[0]) for r in m]
        extra = [k for k in tk if k not in mk][:4]
        missing = [k for k in mk if k not in tk][:4]
        return f"{which}: key sets differ (impl has {len(tk)}, model {len(mk)}; extra {extra}, missing {missing})"
    for (k, v), (_, q) in zip(t, m):
        if not core.close(core.tree_q(v), core.tree_q(q)):
            return f"{which}: value at {tuple(k)}: impl {float(core.tree_q(v))!r} model {q[0]}/{q[1]}"
    return None


NAMES0 = ("constructor", "second create_jdd()", "load_joint_degree",
          "reading the first loader again after a second loader with other parameters was built",
          "reading the load_joint_degree loader again after a second loader with other parameters was built")


def _names(i):
    return NAMES0 if i == 0 else (f"create_jdd() of history step {i}",
                                  f"reading the loader again after history step {i} and the construction of another "
                                  f"loader with other parameters")


def compare(case, impl_obs, model):
    if not isinstance(model, dict):
        return f"model decode: {model}"
    iph = _obs_phases(impl_obs)
    for i, (a, m) in enumerate(zip(iph, model["phases"])):
        ie, me = "exc" in a, "exc" in m
        if ie or me:
            if ie and me:
                if a["exc"] != m["exc"]:
                    return f"phase {i}: exception class: impl {a['exc']} model {m['exc']}"
                break  # both stop here
            return f"phase {i}: impl {'raised ' + a['exc'] if ie else 'returned a table'}, model " \
                   f"{'raises ' + m['exc'] if me else 'returns a table'}"
        for name, t in zip(_names(i), a["tables"]):
            d = _cmp_table(t, m["table"], name)
            if d:
                return d
    else:
        if len(iph) != len(model["phases"]):
            return f"{len(iph)} phases observed, {len(model['phases'])} expected"
    if not core.is_exc(impl_obs) and impl_obs["damaged"]:
        return "caller's inputs damaged: " + "; ".join(impl_obs["damaged"][:3])
    return None


# ------------------------------------------------------------------ verified checker on the implementation's tables
def check_calls(case, impl_obs):
    calls = []
    for ph, a in zip(_phases(case), _obs_phases(impl_obs)):
        base = _tree(case, ph) + [EPS]
        if "exc" in a:
            calls.append(("c07_check", base + [[]]))   # only to learn whether the hypotheses hold (answer 2 = no)
        else:
            calls += [("c07_check", base + [t]) for t in a["tables"]]
    return calls


def check_verdict(case, impl_obs, raws):
    pos = 0
    for i, a in enumerate(_obs_phases(impl_obs)):
        if "exc" in a:
            if raws[pos] == 2:
                return None  # outside the hypotheses of the property: the exception class is compared instead
            return f"implementation raised {a['exc']} on an input the property covers (phase {i})"
        for name in _names(i)[:len(a["tables"])]:
            r = raws[pos]
            pos += 1
            if r == 0:
                return f"c07_check rejected the table observed after {name}"
            if r not in (1, 2):
                return f"checker answered {r!r}"
    return None


def _tables0(impl_obs):
    if core.is_exc(impl_obs):
        return None
    a = impl_obs["phases"][0]
    return None if "exc" in a else a["tables"]


def nontrivial_key(case, impl_obs):
    ts = _tables0(impl_obs)
    if ts is None:
        return None
    t = ts[0]
    deg = {}
    for k, _ in t:
        d = sum((i + 1) * x for i, x in enumerate(k))
        deg[d] = deg.get(d, 0) + 1
    if len(deg) >= 2 and max(deg.values()) >= 2:
        c = dict(case)
        c.pop("tag", None)
        return c
    return None


def shrink(case):
    lo, hi = case["lo"], case["hi"]
    n = len(case["fps"])
    case = dict(case, tag="shrunk")
    hist = case.get("history") or []
    if hist:
        yield {k: v for k, v in case.items() if k != "history"}
        for i in range(len(hist)):
            yield dict(case, history=hist[:i] + hist[i + 1:])
        for i, ph in enumerate(hist):
            if ph.get("damage", "none") != "none":
                yield dict(case, history=hist[:i] + [dict(ph, damage="none")] + hist[i + 1:])
        return
    if n > 1:
        yield dict(case, hi=hi - 1, fps=case["fps"][:-1])
        yield dict(case, lo=lo + 1, fps=case["fps"][1:])
    if len(case["probs"]) > 1:
        yield dict(case, probs=case["probs"][:-1], motif_sizes=case["motif_sizes"][:len(case["probs"]) - 1]
                   if len(case["motif_sizes"]) == len(case["probs"]) else case["motif_sizes"])
    if lo > 0:
        yield dict(case, lo=lo - 1, hi=hi - 1, target=case["target"] - 1)
    for i, p in enumerate(case["probs"]):
        if p != [1, 2]:
            ps = [list(x) for x in case["probs"]]
            ps[i] = [1, 2]
            yield dict(case, probs=ps)
    for i, f in enumerate(case["fps"]):
        if f != [1, 2]:
            fs = [list(x) for x in case["fps"]]
            fs[i] = [1, 2]
            yield dict(case, fps=fs)


def describe(case, impl_obs):
    d = {"loader": "split_degree" if case["mode"] == 0 else "delta",
         "probs": [f"{n}/{m}" for n, m in case["probs"]], "motif_sizes": case["motif_sizes"],
         "range": [case["lo"], case["hi"]], "fp": [f"{n}/{m}" for n, m in case["fps"]][:8]}
    if case["mode"] == 1:
        d["target"] = case["target"]
    if case.get("history"):
        d["history"] = [{"damage": ph.get("damage"), "probs": [f"{n}/{m}" for n, m in ph["probs"]],
                         "motif_sizes": ph["motif_sizes"], "range": [ph["lo"], ph["hi"]]} for ph in case["history"]]
    ts = _tables0(impl_obs)
    if ts is None:
        d["raised"] = _obs_phases(impl_obs)[0].get("exc")
    else:
        d["n_keys"] = len(ts[0])
        d["table_head"] = [[k, float(core.tree_q(v))] for k, v in ts[0][:6]]
        d["later_phases"] = [("raised " + a["exc"]) if "exc" in a else len(a["tables"][0])
                             for a in impl_obs["phases"][1:]]
    return d


def histogram(cases):
    h = {"split_degree": 0, "delta": 0, "delta_target_inside": 0, "delta_target_outside": 0,
         "len(motif_sizes)!=len(probs)": 0, "malformed_or_edge": 0}
    tops = {}
    width = {}
    for c in cases:
        h["split_degree" if c["mode"] == 0 else "delta"] += 1
        if c["mode"] == 1:
            h["delta_target_inside" if c["lo"] <= c["target"] < c["hi"] else "delta_target_outside"] += 1
            if len(c["motif_sizes"]) != len(c["probs"]):
                h["len(motif_sizes)!=len(probs)"] += 1
        if c.get("tag", "") not in ("", "enum", "exhaustive") and not c.get("tag", "").startswith("design") \
                and not c.get("tag", "").startswith("delta,"):
            h["malformed_or_edge"] += 1
        tops[len(c["probs"])] = tops.get(len(c["probs"]), 0) + 1
        w = max(0, c["hi"] - c["lo"])
        width[w] = width.get(w, 0) + 1
    h["histories_on_one_object"] = sum(1 for c in cases if c.get("history"))
    h["history_steps"] = sum(len(c.get("history") or []) for c in cases)
    dm = {}
    for c in cases:
        for ph in c.get("history") or []:
            dm[ph.get("damage", "none")] = dm.get(ph.get("damage", "none"), 0) + 1
    h["history_damage_kinds"] = dm
    h["exhaustive_small_domain"] = sum(1 for c in cases if c.get("tag") == "exhaustive")
    h["topologies"] = {str(k): v for k, v in sorted(tops.items())}
    h["range_width"] = {str(k): v for k, v in sorted(width.items())}
    h["max_hi"] = max((c["hi"] for c in cases), default=0)
    return h


def search(rng, tier, seeds):
    # the disagreeing cases first (they usually already fail the checker), then fresh thorough cases
    if seeds:
        yield list(seeds)
    batch = []
    for c in generate(rng, "thorough"):
        batch.append(c)
        if len(batch) == 300:
            yield batch
            batch = []
    if batch:
        yield batch
