"""C06 — manual / empirical / marginal (direct, sampling) / function loaders vs Model/Loaders.v and the verified
checker c06_check.  Callables are look-up tables returning dyadic floats (default 0.0), so float products and sums are
exact and only the final divisions round (compared within 1e-9 of the model's exact rational)."""
import copy
import itertools
from fractions import Fraction

from harness import core, oracles

ID = "C06"
RULE = ("loader kinds manual / empirical / marginal-direct / marginal-sampling / function, each through direct construction "
        "and through JointDegreeDistribution.load_joint_degree (which calls create_jdd a second time): exhaustive small "
        "empirical sequences (all sequences of length <= 4 over 3 keys, motif sizes cycling through (2,2),(2,3),(3,5),(1,4) so "
        "that column totals are mostly NOT multiples of them) and all one-/two-dimensional marginal boxes with "
        "bounds in 0..3 on fixed tables (optional keys cycling through absent / explicit default), then seeded random tables "
        "(dyadic values, zeros included), 0-3 topologies, free motif sizes 1..9, boxes of "
        "<= 36 points incl. empty and inverted bounds, a share of manual/empirical keys with entries of 2**31..1e20, sampling "
        "with scripted random.choices (1-12 samples, all answers "
        "scripted, two rounds through the dispatcher); OPTIONAL KEYS for every loader: use_sampling absent / explicit False / "
        "explicit True and n_samples absent / given (marginal: direct mode for absent and for explicit False, with or "
        "without n_samples; sampling mode only with explicit True; the other loaders must ignore both keys), "
        "joint_degree_type also present on direct construction and given as enum or as string; malformed: all-zero marginal "
        "(ZeroDivisionError), fewer callables "
        "than bounds (IndexError), sampling without dimensions (ValueError). HISTORIES (a third of the exhaustive empirical "
        "sequences, 40% of the random valid cases, six corpus cases per path): after the loader was built the caller "
        "edits the objects the loader holds - the observed sequence / dictionary / motif sizes through the public "
        "accessors empirical_jds / jdd / motif_sizes (in the code these ARE the caller's own objects), the caller's bounds "
        "list and callable list in place - and calls create_jdd() again, 1-3 steps: same object with the SAME length "
        "(entries re-assigned), same object with another length (tail deleted / appended, dimension changed), a new or "
        "a new EQUAL object through the setter, the SAME callables answering differently, new callables in the same "
        "list, nothing changed, optionally the previously exposed jdd dict damaged first and the motif sizes changed, a "
        "quarter of the steps building a NEW loader from the same params dict instead of calling create_jdd(); "
        "every further answer is compared with the model of the CURRENT contents and judged by c06_check on the "
        "CURRENT contents. The oracle is lenient and primitive-agnostic: a "
        "call of any random primitive the documented behaviour does not make is answered from a seeded fallback and recorded "
        "(a correspondence difference), and the distribution finally exposed is still judged by the verified checker. "
        "Compared: the .jdd mapping as a key->value map, "
        "every logged choices call (population, weights, k), unexpected random calls, the caller's parameters before/after "
        "(observed sequence incl. entry types, dictionary, bounds, callables, motif sizes), key type tags, exception class. "
        "Non-trivial = valid case whose distribution has >= 2 keys; distinct by full case")
EXHAUSTIVE = {"quick": True, "thorough": True}
EXPLANATION = ("general theorems (all inputs) in Props/C06.v; sampling-limit clause partial (the result is proved to be the "
               "empirical law of the column-stacked oracle answers; the law of large numbers for the RNG oracle is not "
               "proved); correspondence exhaustive on small families + random; verified checker c06_check on every output, "
               "including every later create_jdd() of a history after the caller edited the held objects (judged "
               "against their current contents)")
ASSUMPTIONS = ["float products/sums of the dyadic table values are exact; each float division is within 1e-9 (relative)",
               "random.choices follows the weights (see C05); numpy.column_stack(...).tolist() transposes as modelled",
               "itertools.product enumerates the box (order irrelevant: maps are compared as maps)"]
TRUSTED = ["itertools.product, collections.Counter, numpy.column_stack/tolist, dict insertion semantics: modelled, not verified"]
PARTIAL = ['the clause "in the limit of many samples in sampling mode" (C06_full, a law of large numbers about the RNG oracle) is stated, not proved: proved is that sampling mode returns the empirical law of independent per-dimension weighted draws (C06_sampling_partial)', 'direct mode enumerates range(kmin, kmax) (upper bound excluded) while sampling mode draws from [kmin..kmax]: the two modes have different supports in the code itself; the specs follow the code', 'sampling mode: inputs on which CPython random.choices itself raises (all-zero or negative total weight -> ValueError; empty degree range kmax < kmin -> IndexError) are outside the model, which returns a table there (the scripted oracle does not reproduce CPython\'s validation); these inputs are outside the hypotheses of the property (non-negative marginals that are not all zero, non-empty ranges)']
TECHNIQUE = ("Coq proof (exact rational laws of the five loaders, product-of-sums normaliser, empirical law lemmas, "
             "dispatcher idempotence) + verified checker + model/implementation correspondence")
LEVEL_TEXT = (
    "General theorems in coq/Props/C06.v, for all inputs: manual = the given map; empirical value = count/N, support = the "
    "observed keys, duplicate-free, non-negative, sums to 1; marginal-direct: support = the half-open box prod [kmin,kmax) "
    "(the code's range(kmin,kmax)), value = prod f_i(k_i) / prod_i sum_{x in range_i} f_i(x) (normalised product of the "
    "marginals), non-negative and summing to 1 for non-negative marginals with non-zero mass; marginal-sampling: one "
    "choices(closed range, weights f_i, k=n) call per dimension and the result is the empirical law of the column-stacked "
    "answers, support inside the closed box; function: keys = the closed box, value fp(k), no normalisation; for every "
    "loader the dispatcher path (constructor + second create_jdd) returns what direct construction returns (sampling: for "
    "equal oracle answers). PARTIAL: 'in the limit of many samples' (law of large numbers about the RNG oracle) is not "
    "proved; C06_full keeps the statement. The checker c06_check is proved equivalent to the Prop-level law specification "
    "(tolerance 1e-9 where the code divides floats, exact otherwise) and runs on every implementation output.")
LEVEL_NOTE = ("Partial: sampling-mode convergence. Trusted: Coq kernel; extraction + driver + harness; itertools/Counter/numpy "
              "helpers modelled, not verified; float rounding bound 1e-9. No axioms.")

ERR = {1: "IndexError", 2: "ZeroDivisionError", 3: "ValueError"}
KINDS = ["manual", "empirical", "marginal", "marginal-sampling", "function"]


def fr(x):
    return Fraction(x[0], x[1])


def qt(x):
    return core.q_tree(Fraction(x))


def closed(b):
    return list(range(b[0], b[1] + 1))


def half(b):
    return list(range(b[0], b[1]))


def payload(case):
    k = case["kind"]
    if k == 0:
        return case["jdd"]
    if k == 1:
        return case["jds"]
    if k == 2:
        return [case["bounds"], case["tables"]]
    if k == 3:
        return [case["bounds"], case["tables"], case["n"]]
    return [case["bounds"], case["ftable"]]


def _tbl(t):
    return {k: fr(v) for k, v in t}


def is_valid(case):
    k = case["kind"]
    if k == 0:
        keys = [tuple(x[0]) for x in case["jdd"]]
        return len(set(keys)) == len(keys)
    if k == 1:
        return True
    if k == 2:
        b, ts = case["bounds"], case["tables"]
        if len(ts) < len(b):
            return False
        if any(len(half(x)) == 0 for x in b):
            return True          # empty box: empty map
        tot = Fraction(1)
        for x, t in zip(b, ts):
            d = _tbl(t)
            tot *= sum(d.get(v, Fraction(0)) for v in half(x))
        return tot != 0
    if k == 3:
        b, ts = case["bounds"], case["tables"]
        if len(b) == 0 or len(ts) < len(b) or case["n"] < 1:
            return False
        for x, t in zip(b, ts):
            d = _tbl(t)
            w = [d.get(v, Fraction(0)) for v in closed(x)]
            if not w or any(y < 0 for y in w) or sum(w) <= 0:
                return False
        return True
    keys = [tuple(x[0]) for x in case["ftable"]]
    return len(set(keys)) == len(keys)


# ------------------------------------------------------------------ generators
def _dy(rng, lo=0, hi=8):
    return Fraction(rng.randint(lo, hi), rng.choice([1, 2, 4, 8]))


def _table(rng, lo, hi, zero_p=0.2, neg=False):
    t = []
    for v in range(lo - 1, hi + 2):
        if rng.random() < 0.1:
            continue            # missing entry: the callable returns 0.0
        x = Fraction(0) if rng.random() < zero_p else _dy(rng, 1, 8)
        if neg and rng.random() < 0.2:
            x = -x
        t.append([v, qt(x)])
    return t


def _bounds(rng, d, closed_box, maxpts=36):
    while True:
        b = []
        for _ in range(d):
            lo = rng.randint(0, 3)
            hi = lo + rng.choice([0, 1, 1, 2, 2, 3, 4, -1] if not closed_box else [0, 0, 1, 1, 2, 3])
            b.append([lo, hi])
        pts = 1
        for x in b:
            pts *= max(1, len(closed(x)))
        if pts <= maxpts:
            return b


BIG = [2**31, 2**53 + 1, 10**16 + 1, 2**63, 2**64 + 3, 10**20 + 7]


def _entry(rng, hi, big):
    if big and rng.random() < 0.4:
        return rng.choice(BIG) + rng.randint(0, 2)
    return rng.randint(0, hi)


def _sizes(rng, T):
    """motif sizes: part of every loader's parameters, never part of the law"""
    return [rng.choice([1, 2, 2, 3, 3, 4, 5, 7, 9]) for _ in range(T)]


def _opts(rng, kind, n=None):
    """the OPTIONAL parameter keys, passed explicitly or left out: use_sampling absent / False / True and n_samples absent /
    given, for every loader (the marginal loader reads them: sampling mode iff use_sampling is present and True; all other
    loaders must ignore them); `type_key`: joint_degree_type also present on direct construction, as enum or string"""
    if kind == 3:
        o = {"use_sampling": "True", "n_samples": n}
    elif kind == 2:
        o = {"use_sampling": rng.choice(["absent", "False", "False"]),
             "n_samples": rng.choice(["absent", rng.randint(1, 12), rng.choice([0, 50, 1000])])}
    else:
        o = {"use_sampling": rng.choice(["absent", "absent", "False", "True"]),
             "n_samples": rng.choice(["absent", "absent", rng.randint(0, 12)])}
    o["type_key"] = rng.choice(["default", "default", "enum", "string"])
    return o


def _rand_manual(rng):
    T = rng.randint(1, 3)
    big = rng.random() < 0.15
    keys = []
    for _ in range(rng.randint(0, 6)):
        k = [_entry(rng, 4, big) for _ in range(T)]
        if k not in keys:
            keys.append(k)
    return {"kind": 0, "jdd": [[k, qt(_dy(rng, 0, 9))] for k in keys], "sizes": _sizes(rng, T)}


def _rand_empirical(rng):
    T = rng.randint(1, 3)
    big = rng.random() < 0.15
    pool = [[_entry(rng, 3, big) for _ in range(T)] for _ in range(rng.randint(1, 5))]
    # the motif sizes are free: column totals of an OBSERVED sequence need not be multiples of them
    return {"kind": 1, "jds": [list(rng.choice(pool)) for _ in range(rng.randint(0, 14))], "sizes": _sizes(rng, T)}


def _rand_direct(rng, bad=None, d=None):
    d = rng.randint(0, 3) if d is None else d
    b = _bounds(rng, d, False)
    ts = [_table(rng, x[0], max(x[1], x[0]), neg=(rng.random() < 0.1)) for x in b]
    if bad == "zero" and d > 0:
        i = rng.randrange(d)
        ts[i] = [[v, qt(0)] for v, _ in ts[i]]
    if bad == "short" and d > 0:
        ts = ts[:rng.randint(0, d - 1)]
    if bad is None and rng.random() < 0.15:
        ts.append(_table(rng, 0, 2))       # an extra, unused callable
    return {"kind": 2, "bounds": b, "tables": ts, "sizes": _sizes(rng, d)}


def _rand_sampling(rng, path, bad=None, d=None, n=None):
    d = rng.randint(1, 3) if d is None else d
    b = _bounds(rng, d, True)
    ts = []
    for x in b:
        while True:
            t = _table(rng, x[0], x[1], zero_p=0.15)
            dd = _tbl(t)
            if sum(dd.get(v, 0) for v in closed(x)) > 0:
                break
        ts.append(t)
    n = rng.randint(1, 12) if n is None else n
    if bad == "nodims":
        b, ts = [], []
    if bad == "short":
        ts = ts[:rng.randint(0, d - 1)]
    rounds = [[[rng.randrange(len(closed(x))) for _ in range(n)] for x in b] for _ in range(1 + path)]
    return {"kind": 3, "bounds": b, "tables": ts, "n": n, "rounds": rounds, "sizes": _sizes(rng, len(b))}


def _rand_function(rng, d=None):
    d = rng.randint(0, 3) if d is None else d
    b = _bounds(rng, d, True)
    box = list(itertools.product(*[closed(x) for x in b]))
    ft = []
    for k in box:
        if rng.random() < 0.1:
            continue
        x = _dy(rng, 0, 9)
        if rng.random() < 0.1:
            x = -x
        ft.append([list(k), qt(x)])
    if d and rng.random() < 0.3:          # a value just outside the box: must not appear
        k = [x[1] + 1 for x in b]
        ft.append([k, qt(_dy(rng, 1, 9))])
    return {"kind": 4, "bounds": b, "ftable": ft, "sizes": _sizes(rng, d)}


DATA = {0: ["jdd"], 1: ["jds"], 2: ["bounds", "tables"], 3: ["bounds", "tables", "rounds"], 4: ["bounds", "ftable"]}


def _then(rng, c):
    """HISTORY on the caller's own objects: after the loader was built the caller EDITS THE OBJECTS IT PASSED IN (the
    loaders hold them, they do not copy) and calls create_jdd() again; every further answer must be the law of the
    CURRENT contents.  One to three steps; `how` of a step:
      inplace        same object, new contents: list entries re-assigned one by one (same length), tail deleted / extended
                     (other length); dictionary values / keys changed in place; bounds entries re-assigned; the SAME
                     callables answer differently (their tables change)
      new_callables  as inplace, but the callables in the caller's list are replaced by new function objects
      setter         a NEW object through the public setter (empirical_jds / jdd / motif_sizes); loaders without a setter:
                     as inplace
      equal          nothing changes but the object: a new EQUAL object through the setter (or no change at all)
      repeat         nothing changes, create_jdd() once more
    `same_len` asks for new contents of the SAME length / dimension (the neighbour case of 'the list grew');
    `damage` : the caller also damages the previously exposed jdd dict first (loaders that build it themselves);
    `sizes`  : the motif sizes change too (in place or through the setter) - never part of the law;
    `reload` : instead of create_jdd() on the old loader, a NEW loader is built from the same params dict (same
               construction path; it replaces the old one for the following steps)."""
    k = c["kind"]
    steps = []
    cur = c
    for _ in range(rng.choice([1, 1, 2, 3])):
        how = rng.choice(["inplace", "inplace", "inplace", "new_callables", "setter", "equal", "repeat"])
        same_len = rng.random() < 0.6
        st = {"how": how, "damage": rng.random() < 0.3, "reload": rng.random() < 0.25}
        if how in ("equal", "repeat"):
            new = {f: copy.deepcopy(cur[f]) for f in DATA[k]}
        elif k == 0:
            jdd = copy.deepcopy(cur["jdd"])
            T = len(jdd[0][0]) if jdd else max(1, len(cur.get("sizes", [2])))
            for _ in range(rng.randint(1, 3)):
                r = rng.random()
                if jdd and r < 0.4:
                    jdd[rng.randrange(len(jdd))][1] = qt(_dy(rng, 0, 9))          # same keys, other value
                elif jdd and r < 0.7:
                    key = [rng.randint(5, 8) for _ in range(T)]                    # a key replaced (same length)
                    if key not in [x[0] for x in jdd]:
                        jdd[rng.randrange(len(jdd))][0] = key
                elif not same_len:
                    if jdd and rng.random() < 0.5:
                        del jdd[rng.randrange(len(jdd))]
                    else:
                        key = [rng.randint(5, 8) for _ in range(T)]
                        if key not in [x[0] for x in jdd]:
                            jdd.append([key, qt(_dy(rng, 0, 9))])
            new = {"jdd": jdd}
        elif k == 1:
            jds = copy.deepcopy(cur["jds"])
            T = len(jds[0]) if jds else max(1, len(cur.get("sizes", [2])))
            fresh = [[rng.randint(0, 6) for _ in range(T)] for _ in range(2)]
            for _ in range(rng.randint(1, 3)):
                if jds:
                    jds[rng.randrange(len(jds))] = list(rng.choice(fresh + jds))    # entries re-measured
            if not same_len:
                if jds and rng.random() < 0.5:
                    del jds[rng.randrange(len(jds)):]
                else:
                    jds += [list(rng.choice(fresh + jds)) for _ in range(rng.randint(1, 4))]
            new = {"jds": jds}
        elif k == 2:
            x = _rand_direct(rng, d=len(cur["bounds"]) if same_len else None)
            new = {"bounds": x["bounds"], "tables": x["tables"]}
            if same_len and rng.random() < 0.4:
                new["bounds"] = copy.deepcopy(cur["bounds"])                       # only the callables' behaviour changes
                new["tables"] = [_table(rng, b[0], max(b[1], b[0])) for b in new["bounds"]] + cur["tables"][len(cur["bounds"]):]
            elif same_len and rng.random() < 0.3 and len(cur["tables"]) >= len(cur["bounds"]):
                new["tables"] = copy.deepcopy(cur["tables"])                       # only the bounds change
        elif k == 3:
            x = _rand_sampling(rng, 0, d=len(cur["bounds"]) if same_len else None, n=c["n"])
            new = {"bounds": x["bounds"], "tables": x["tables"], "rounds": x["rounds"]}
        else:
            x = _rand_function(rng, d=len(cur["bounds"]) if same_len else None)
            new = {"bounds": x["bounds"], "ftable": x["ftable"]}
            if same_len and rng.random() < 0.4:
                new["bounds"] = copy.deepcopy(cur["bounds"])                       # only the callable's behaviour changes
                new["ftable"] = [[key, qt(_dy(rng, 0, 9))] for key, _ in cur["ftable"]]
        st.update(new)
        if rng.random() < 0.25 and cur.get("sizes"):
            sz = list(cur["sizes"])
            sz[rng.randrange(len(sz))] = rng.choice([2, 3, 4, 6])
            st["sizes"] = sz
        steps.append(st)
        cur = step_case(cur, st)
    c["then"] = steps
    return c


def step_case(cur, st):
    """the case describing the CURRENT contents after step st (direct construction, no history)"""
    k = cur["kind"]
    out = {"kind": k, "path": 0}
    for f in DATA[k] + (["n"] if k == 3 else []) + ["sizes"]:
        if f in st:
            out[f] = st[f]
        elif f in cur:
            out[f] = cur[f]
    if k == 3 and "rounds" in st:
        out["rounds"] = st["rounds"][:1]
    return out


def step_cases(case):
    out = []
    cur = case
    for st in case.get("then", []):
        cur = step_case(cur, st)
        out.append(cur)
    return out


FIXT = [[0, qt(Fraction(1, 2))], [1, qt(Fraction(1, 4))], [2, qt(Fraction(1, 8))], [3, qt(Fraction(3, 8))], [4, qt(1)]]


def corpus():
    out = []
    for path in (0, 1):
        out.append({"kind": 4, "path": path, "bounds": [[0, 1], [1, 2]],
                    "ftable": [[[0, 1], qt(Fraction(1, 2))], [[0, 2], qt(Fraction(1, 4))], [[1, 1], qt(Fraction(1, 8))],
                               [[1, 2], qt(Fraction(1, 8))]]})          # DESIGN section 3 replay: JointDegreeFunction(anything)
        out.append({"kind": 0, "path": path, "jdd": [[[1, 0], qt(Fraction(1, 2))], [[2, 1], qt(Fraction(1, 2))]]})
        out.append({"kind": 1, "path": path, "jds": [[1, 0], [2, 1], [2, 1], [1, 0], [0, 0]]})
        out.append({"kind": 2, "path": path, "bounds": [[0, 3], [1, 3]], "tables": [FIXT, FIXT]})
        out.append({"kind": 2, "path": path, "bounds": [[1, 3]], "tables": [[[1, qt(0)], [2, qt(0)], [3, qt(5)]]]})   # all-zero on [1,3)
        out.append({"kind": 3, "path": path, "bounds": [[0, 2], [1, 2]], "tables": [FIXT, FIXT], "n": 4,
                    "rounds": [[[0, 2, 2, 1], [1, 1, 0, 0]], [[2, 2, 0, 1], [0, 1, 0, 1]]][:1 + path]})
        # the optional keys passed explicitly with their default meaning: still the exact direct law
        for us, ns in (("False", "absent"), ("False", 7), ("absent", 7)):
            out.append({"kind": 2, "path": path, "bounds": [[0, 3], [1, 4]], "tables": [FIXT, FIXT[::-1]], "sizes": [2, 3],
                        "opts": {"use_sampling": us, "n_samples": ns, "type_key": "default"}})
        # observed sequences whose column totals are not multiples of the motif sizes
        out.append({"kind": 1, "path": path, "jds": [[2, 1], [0, 1], [2, 1], [1, 2]], "sizes": [3, 4]})
        out.append({"kind": 1, "path": path, "jds": [[5]], "sizes": [2],
                    "opts": {"use_sampling": "True", "n_samples": 3, "type_key": "enum"}})
        # histories: the caller edits the objects it passed in and calls create_jdd() again
        out.append({"kind": 1, "path": path, "jds": [[1, 0], [1, 0], [2, 1], [3, 0]], "sizes": [2, 3], "then": [
            {"how": "inplace", "damage": False, "jds": [[3, 0], [5, 1], [2, 1], [3, 0]]},                 # same length
            {"how": "inplace", "damage": True, "jds": [[3, 0], [5, 1], [2, 1], [3, 0], [4, 4], [4, 4]]},   # grew
            {"how": "setter", "damage": False, "jds": [[0, 2], [0, 2], [1, 1]]}]})                        # a new object
        out.append({"kind": 0, "path": path, "jdd": [[[1, 0], qt(Fraction(1, 2))], [[2, 1], qt(Fraction(1, 2))]], "then": [
            {"how": "inplace", "damage": False, "jdd": [[[1, 0], qt(Fraction(1, 4))], [[3, 3], qt(Fraction(3, 4))]]},
            {"how": "setter", "damage": False, "jdd": [[[0, 0], qt(1)]]}]})
        out.append({"kind": 2, "path": path, "bounds": [[0, 3], [1, 3]], "tables": [FIXT, FIXT], "sizes": [2, 3], "then": [
            {"how": "inplace", "damage": False, "bounds": [[0, 3], [1, 3]], "tables": [FIXT[::-1], FIXT[1:]]},
            {"how": "inplace", "damage": True, "bounds": [[1, 4], [0, 2]], "tables": [FIXT[::-1], FIXT[1:]], "sizes": [2, 4]},
            {"how": "new_callables", "damage": False, "bounds": [[1, 4]], "tables": [FIXT]}]})
        out.append({"kind": 4, "path": path, "bounds": [[0, 1]], "ftable": [[[0], qt(Fraction(1, 2))], [[1], qt(Fraction(1, 4))]],
                    "then": [{"how": "inplace", "damage": False, "bounds": [[0, 1]],
                              "ftable": [[[0], qt(Fraction(1, 8))], [[1], qt(3)]]},
                             {"how": "inplace", "damage": True, "bounds": [[1, 2]],
                              "ftable": [[[0], qt(Fraction(1, 8))], [[1], qt(3)]]}]})
        out.append({"kind": 3, "path": path, "bounds": [[0, 2], [1, 2]], "tables": [FIXT, FIXT], "n": 4,
                    "rounds": [[[0, 2, 2, 1], [1, 1, 0, 0]], [[2, 2, 0, 1], [0, 1, 0, 1]]][:1 + path],
                    "then": [{"how": "inplace", "damage": False, "bounds": [[1, 2], [0, 2]], "tables": [FIXT[::-1], FIXT],
                              "rounds": [[[1, 0, 0, 1], [2, 1, 0, 0]]]},
                             {"how": "repeat", "damage": True, "bounds": [[1, 2], [0, 2]], "tables": [FIXT[::-1], FIXT],
                              "rounds": [[[0, 0, 1, 1], [2, 2, 2, 0]]]}]})
    return out


def generate(rng, tier):
    # exhaustive: empirical sequences
    keys3 = [[0, 1], [1, 0], [2, 2]]
    maxlen = 4 if tier == "quick" else 6
    i = 0
    for n in range(0, maxlen + 1):
        for seq in itertools.product(range(3), repeat=n):
            i += 1
            c = {"kind": 1, "path": i % 2, "jds": [list(keys3[j]) for j in seq],
                 "sizes": [[2, 2], [2, 3], [3, 5], [1, 4]][(i // 2) % 4]}
            if n and i % 3 == 0:
                # history: the held sequence is corrected in place (same object; rotated keys = same length, or one
                # entry dropped / added), create_jdd() again
                m = (i // 3) % 3
                new = [list(keys3[(j + 1 + (p % 2)) % 3]) for p, j in enumerate(seq)]
                new = new if m == 0 else (new[:-1] if m == 1 else new + [[2, 2]])
                c["then"] = [{"how": "inplace", "damage": i % 2 == 0, "jds": new}]
            yield c
    # exhaustive: marginal boxes on the fixed table; the optional keys cycle through absent / explicit default
    OPT = [{"use_sampling": us, "n_samples": ns, "type_key": "default"}
           for us in ("absent", "False") for ns in ("absent", 5)]
    j = 0
    for lo1, hi1 in itertools.product(range(0, 4), repeat=2):
        j += 1
        yield {"kind": 2, "path": (lo1 + hi1) % 2, "bounds": [[lo1, hi1]], "tables": [FIXT], "opts": OPT[j % 4]}
        yield {"kind": 4, "path": (lo1 + hi1) % 2, "bounds": [[lo1, hi1]],
               "ftable": [[[v], q] for v, q in FIXT]}
        for lo2, hi2 in itertools.product(range(0, 4), repeat=2):
            j += 1
            yield {"kind": 2, "path": (lo1 + hi2) % 2, "bounds": [[lo1, hi1], [lo2, hi2]], "tables": [FIXT, FIXT[::-1]],
                   "opts": OPT[(j // 2) % 4]}
    n = 160 if tier == "quick" else 2500
    for _ in range(n):
        for mkc in (_rand_manual, _rand_empirical, _rand_direct, _rand_function):
            c = mkc(rng)
            c["path"] = rng.randint(0, 1)
            c["opts"] = _opts(rng, c["kind"])
            if rng.random() < 0.4 and is_valid(c):
                c = _then(rng, c)
            yield c
        path = rng.randint(0, 1)
        c = _rand_sampling(rng, path)
        c["path"] = path
        c["opts"] = _opts(rng, 3, c["n"])
        if rng.random() < 0.4:
            c = _then(rng, c)
        yield c
    for _ in range(60 if tier == "quick" else 600):
        path = rng.randint(0, 1)
        c = rng.choice([lambda: _rand_direct(rng, "zero"), lambda: _rand_direct(rng, "short"),
                        lambda: _rand_sampling(rng, path, "nodims"), lambda: _rand_sampling(rng, path, "short")])()
        c["path"] = path
        yield c


# ------------------------------------------------------------------ implementation side
def _fp1(t):
    d = {k: float(fr(v)) for k, v in t}
    f = lambda k: d.get(k, 0.0)                                             # noqa: E731
    f.tab = d            # the caller can make the SAME callable answer differently (histories)
    return f


def _fpn(t):
    d = {tuple(k): float(fr(v)) for k, v in t}
    f = lambda jd: d.get(tuple(jd), 0.0)                                    # noqa: E731
    f.tab = d
    return f


def _edit_list(lst, new):
    """make the list object `lst` hold `new`: entries re-assigned one by one, tail deleted or appended"""
    for i in range(min(len(lst), len(new))):
        if lst[i] != new[i]:
            lst[i] = new[i]
    if len(lst) > len(new):
        del lst[len(new):]
    for x in new[len(lst):]:
        lst.append(x)


def _edit_dict(d, new):
    for key in [x for x in d if x not in new]:
        del d[key]
    for key, v in new.items():
        d[key] = v


def _obs_jdd(loader):
    jdd = []
    for key, v in loader.jdd.items():
        tag = 1 if (type(key) is tuple and all(type(x) is int for x in key)) else 0
        jdd.append([[int(x) for x in key], core.q_tree(v), tag])
    return jdd


def _obs_calls(clog, d):
    if len(clog) > 12 or any(e[3] > 64 for e in clog):
        # far more / far bigger choices calls than any case scripts: keep the observation small
        calls, idxs = [], []
    else:
        calls = [[[int(x) for x in e[1]], [core.q_tree(w) for w in (e[2] or [])], e[3]] for e in clog]
        idxs = [[int(i) for i in e[4]] for e in clog]
    return [calls[i:i + d] for i in range(0, len(calls), d)], [idxs[i:i + d] for i in range(0, len(idxs), d)]


def _run_step(k, st, sc, loader, params, NM, script, rebuild):
    """apply one step of a history to the caller's own objects, call create_jdd() again (or, `reload`: build a new loader
    from the SAME params dict, which then replaces the old one), observe; returns (observation, current loader)"""
    how = st["how"]
    if st.get("damage") and k != 0 and isinstance(loader.jdd, dict):
        # the caller damaged the dict the loader exposed before (the manual loader exposes the caller's own dict)
        for key in list(loader.jdd)[:1]:
            del loader.jdd[key]
        loader.jdd[(99,)] = 0.5
    inplace = how in ("inplace", "new_callables") or (how in ("setter", "equal") and k in (2, 3, 4))
    force_reload = False
    if how == "repeat":
        pass
    elif k == 0:
        new = {tuple(key): float(fr(v)) for key, v in sc["jdd"]}
        if inplace:
            _edit_dict(loader.jdd, new)          # the dictionary the loader exposes (unchanged code: the caller's own)
            if params[NM.JDD] is not loader.jdd:
                _edit_dict(params[NM.JDD], new)
        else:
            params[NM.JDD] = new
            loader.jdd = new
    elif k == 1:
        new = [tuple(x) for x in sc["jds"]]
        if inplace:
            _edit_list(loader.empirical_jds, new)    # the sequence the loader holds and exposes (the caller's own list)
            if params[NM.JDS] is not loader.empirical_jds:
                _edit_list(params[NM.JDS], new)
        else:
            params[NM.JDS] = new
            loader.empirical_jds = new
    else:
        # marginal / function loaders expose no accessor for their bounds or callables: a loader that took a private
        # copy of those lists at construction is as right as one that keeps the caller's lists.  A step that changes
        # the bounds or REPLACES callables in the caller's list is therefore always followed by a NEW construction
        # from the same params dict (which must see the current contents); only a changed behaviour of the SAME
        # callables is followed by create_jdd() on the same loader
        if ([tuple(b) for b in params[NM.LOW_HIGH_DEGREE_BOUND]] != [tuple(b) for b in sc["bounds"]]
                or how == "new_callables" or (k != 4 and len(params[NM.ARR_FP]) != len(sc["tables"]))):
            force_reload = True
        _edit_list(params[NM.LOW_HIGH_DEGREE_BOUND], [tuple(b) for b in sc["bounds"]])
        if k == 4:
            params[NM.FP].tab.clear()
            params[NM.FP].tab.update(_fpn(sc["ftable"]).tab)
        else:
            fps = params[NM.ARR_FP]
            newf = [_fp1(t) for t in sc["tables"]]
            if how == "new_callables":
                _edit_list(fps, newf)
            else:
                for f, g in zip(fps, newf):
                    f.tab.clear()
                    f.tab.update(g.tab)
                _edit_list(fps, fps[:len(newf)] + newf[len(fps):])
    if "sizes" in st:
        if how == "setter":
            loader.motif_sizes = list(st["sizes"])
            params[NM.MOTIF_SIZES] = loader.motif_sizes
        else:
            _edit_list(loader.motif_sizes, list(st["sizes"]))
            if params[NM.MOTIF_SIZES] is not loader.motif_sizes:
                _edit_list(params[NM.MOTIF_SIZES], list(st["sizes"]))

    def held():
        if k == 0:
            return dict(loader.jdd)
        if k == 1:
            return list(loader.empirical_jds)
        return [list(params[NM.LOW_HIGH_DEGREE_BOUND]), list(params.get(NM.ARR_FP, []))]
    before = held()
    msz = list(loader.motif_sizes)
    n0 = len(script.log)
    out = {"how": how}
    try:
        if st.get("reload") or force_reload:
            loader = rebuild()
            out["how"] = how + "+reload"
        else:
            loader.create_jdd()
    except Exception as e:  # noqa: BLE001
        out["exc"] = type(e).__name__
        return out, loader
    out["jdd"] = _obs_jdd(loader)
    d = max(1, len(sc.get("bounds", [])))
    out["calls"], out["answers"] = _obs_calls([e for e in script.log[n0:] if e[0] == "choices"], d)
    out["n_choices_calls"] = sum(1 for e in script.log[n0:] if e[0] == "choices")
    out["inputs_unchanged"] = held() == before and list(loader.motif_sizes) == msz
    out["same_object"] = (loader.jdd is params[NM.JDD]) if k == 0 else None
    return out, loader


def impl(case):
    from gcmpy.joint_degree.joint_degree_distribution import JointDegreeDistribution
    from gcmpy.joint_degree.joint_degree_loaders.joint_degree_manual import JointDegreeManual
    from gcmpy.joint_degree.joint_degree_loaders.joint_degree_empirical import JointDegreeEmpirical
    from gcmpy.joint_degree.joint_degree_loaders.joint_degree_marginal import JointDegreeMarginal
    from gcmpy.joint_degree.joint_degree_loaders.joint_degree_function import JointDegreeFunction
    from gcmpy.names.joint_degree_names import JointDegreeNames as NM
    from gcmpy.joint_degree.joint_degree_type import JointDegreeType
    k = case["kind"]
    answers = []
    given = None

    def sizes(width):
        return list(case["sizes"]) if "sizes" in case else [2] * width

    if k == 0:
        given = {tuple(key): float(fr(v)) for key, v in case["jdd"]}
        params = {NM.JDD: given, NM.MOTIF_SIZES: sizes(len(case["jdd"][0][0]) if case["jdd"] else 1)}
        cls, tname = JointDegreeManual, "manual"
        inputs = lambda: [list(given.items())]                              # noqa: E731
    elif k == 1:
        jds = [tuple(x) for x in case["jds"]]
        params = {NM.JDS: jds, NM.MOTIF_SIZES: sizes(len(jds[0]) if jds else 1)}
        cls, tname = JointDegreeEmpirical, "empirical"
        inputs = lambda: [list(jds), [type(x).__name__ for x in jds]]       # noqa: E731
    elif k in (2, 3):
        params = {NM.MOTIF_SIZES: sizes(len(case["bounds"])), NM.ARR_FP: [_fp1(t) for t in case["tables"]],
                  NM.LOW_HIGH_DEGREE_BOUND: [tuple(b) for b in case["bounds"]]}
        if k == 3:
            for rnd in case["rounds"]:
                answers += [("choices", list(ix)) for ix in rnd]
        cls, tname = JointDegreeMarginal, "marginal"
        fps, bnd = params[NM.ARR_FP], params[NM.LOW_HIGH_DEGREE_BOUND]
        inputs = lambda: [list(fps), list(bnd)]                             # noqa: E731
    else:
        params = {NM.MOTIF_SIZES: sizes(len(case["bounds"])), NM.FP: _fpn(case["ftable"]),
                  NM.LOW_HIGH_DEGREE_BOUND: [tuple(b) for b in case["bounds"]]}
        cls, tname = JointDegreeFunction, "function"
        bnd = params[NM.LOW_HIGH_DEGREE_BOUND]
        inputs = lambda: [list(bnd)]                                        # noqa: E731
    opts = case.get("opts") or ({"use_sampling": "True", "n_samples": case["n"]} if k == 3 else {})
    us, ns = opts.get("use_sampling", "absent"), opts.get("n_samples", "absent")
    if us != "absent":
        params[NM.USE_SAMPLING] = (us == "True")
    if ns != "absent":
        params[NM.N_SAMPLES] = ns
    tk = opts.get("type_key", "default")
    tval = JointDegreeType(tname) if tk == "enum" else tname
    msz = list(params[NM.MOTIF_SIZES])
    before = inputs()
    n_first = len(answers)
    scs = step_cases(case)
    if k == 3:
        for sc in scs:
            answers += [("choices", list(ix)) for ix in sc["rounds"][0]]
    # a call of ANY random primitive the documented behaviour does not make is answered (seeded fallback) and recorded, so
    # that the distribution finally exposed is judged by the verified checker instead of the run dying half-way
    script = oracles.LenientScript(answers, seed=len(repr(case)))
    with oracles.lenient_scripted(script):
        if case.get("path", 0) == 0:
            if tk != "default":
                params[NM.JOINT_DEGREE_TYPE] = tval
            loader = cls(params)
        else:
            params[NM.JOINT_DEGREE_TYPE] = tval
            if k != 3 and len(repr(case)) % 2 == 0:
                # history on ONE params dict: the caller loaded something else from this very dict object before,
                # then replaced the data entry in place (a cache keyed by id(params) / type would return the old loader)
                datakey = {0: NM.JDD, 1: NM.JDS, 2: NM.ARR_FP, 4: NM.FP}[k]
                true_val = params[datakey]
                width = max(1, len(msz))
                params[datakey] = {0: {(9,) * width: 1.0}, 1: [(7,) * width, (7,) * width],
                                   2: [(lambda kk: 1.0)] * max(1, len(case.get("bounds", [1]))),
                                   4: (lambda jd: 0.5)}[k]
                try:
                    JointDegreeDistribution.load_joint_degree(params)
                except Exception:  # noqa: BLE001 - the decoy's own outcome is irrelevant
                    pass
                params[datakey] = true_val
            loader = JointDegreeDistribution.load_joint_degree(params)
        jdd = _obs_jdd(loader)
        d = max(1, len(case.get("bounds", [])))
        clog = [e for e in script.log if e[0] == "choices"]
        rounds, idxs = _obs_calls(clog, d)
        out = {"jdd": jdd, "calls": rounds, "answers": idxs, "n_choices_calls": len(clog),
               "unused_answers": n_first - script.pos,
               "same_object": (loader.jdd is given) if k == 0 else None, "cls": type(loader).__name__,
               # recorded only (never judged): the loaders hold the caller's objects themselves, they make no copies
               "holds_callers_objects": (loader.motif_sizes is params[NM.MOTIF_SIZES]) and
               (k != 1 or loader.empirical_jds is params[NM.JDS]),
               "inputs_unchanged": inputs() == before and list(loader.motif_sizes) == msz}
        # history: the caller edits its own objects and asks again (same loader, same objects)
        steps = []
        for st, sc in zip(case.get("then", []), scs):
            direct = case.get("path", 0) == 0 or k == 3       # a reload in sampling mode draws one round only
            o, loader = _run_step(k, st, sc, loader, params, NM, script,
                                  (lambda: cls(params)) if direct else (lambda: JointDegreeDistribution.load_joint_degree(params)))
            steps.append(o)
            if "exc" in steps[-1]:
                break
        if "then" in case:
            out["then"] = steps
            if len(steps) == len(scs) and not any("exc" in x for x in steps):
                out["unused_answers"] = len(answers) - script.pos
    out["unexpected"] = [len(script.unexpected), script.unexpected[:4]]
    return out


def model_calls(case, io):
    calls = [("c06_run", [case["kind"], case.get("path", 0), payload(case), case.get("rounds", [])])]
    for sc in step_cases(case):
        calls.append(("c06_run", [sc["kind"], 0, payload(sc), sc.get("rounds", [])]))
    return calls


def _mobs1(r):
    if r[0] == -1:
        return ["!exc", ERR.get(r[1], str(r[1]))]
    return {"jdd": r[1], "calls": r[2]}


def model_obs(case, raws):
    m = _mobs1(raws[0])
    if "then" in case and not core.is_exc(m):
        m["then"] = [_mobs1(r) for r in raws[1:]]
    return m


def _calls_norm(rounds):
    return [[[c[0], [fr(w) for w in c[1]], c[2]] for c in rnd] for rnd in rounds]


def compare(case, io, mo):
    if core.is_exc(io) or core.is_exc(mo):
        if core.is_exc(io) and core.is_exc(mo):
            return None if io[1] == mo[1] else f"exception class: impl {io[1]} model {mo[1]}"
        return f"impl {io if core.is_exc(io) else 'returned'} / model {mo if core.is_exc(mo) else 'returned'}"
    d = _cmp_law(case["kind"], io, mo)
    if d:
        return d
    d = _cmp_then(case, io, mo)
    if d:
        return d
    if io["unexpected"][0]:
        return f"{io['unexpected'][0]} random calls the documented behaviour does not make: {io['unexpected'][1]}"
    if case["kind"] == 3:
        if _calls_norm(io["calls"]) != _calls_norm(mo["calls"]):
            return f"choices calls: impl {io['calls']} model {mo['calls']}"
        if io["unused_answers"]:
            return f"{io['unused_answers']} scripted choices answers were not consumed"
    elif io["n_choices_calls"]:
        return f"{io['n_choices_calls']} random.choices calls by a loader that does not sample"
    if not io["inputs_unchanged"]:
        return "the caller's parameters (observed sequence / dictionary / bounds / callables / motif sizes) were modified"
    if not all(t for _, _, t in io["jdd"]):
        return "a jdd key is not a tuple of ints"
    if case["kind"] == 0 and not io["same_object"]:
        return "manual loader does not expose the given dictionary object"
    return None


def _cmp_law(kind, io, mo):
    im = {tuple(k): fr(q) for k, q, _ in io["jdd"]}
    mm = {tuple(k): fr(q) for k, q in mo["jdd"]}
    if len(im) != len(io["jdd"]):
        return "duplicate keys in the observed jdd"
    if set(im) != set(mm):
        return f"jdd keys: impl-only {sorted(set(im) - set(mm))[:6]} model-only {sorted(set(mm) - set(im))[:6]}"
    exact = kind in (0, 4)
    for k in mm:
        if (im[k] != mm[k]) if exact else (not core.close(im[k], mm[k])):
            return f"jdd[{k}]: impl {im[k]} model {mm[k]}"
    return None


def _cmp_then(case, io, mo):
    """every further create_jdd() of a history against the model evaluated on the CURRENT contents"""
    if "then" not in case:
        return None
    for i, (st, ms) in enumerate(zip(io["then"], mo["then"])):
        what = f"step {i + 1} ({st['how']}: the caller edited its own objects, create_jdd() again): "
        if "exc" in st or core.is_exc(ms):
            if "exc" in st and core.is_exc(ms) and st["exc"] == ms[1]:
                return None             # both stop here
            return what + f"impl {st.get('exc', 'returned')} / model {ms if core.is_exc(ms) else 'returned'}"
        d = _cmp_law(case["kind"], st, ms)
        if d:
            return what + d
        if case["kind"] == 3:
            if _calls_norm(st["calls"]) != _calls_norm(ms["calls"]):
                return what + f"choices calls: impl {st['calls']} model {ms['calls']}"
        elif st["n_choices_calls"]:
            return what + f"{st['n_choices_calls']} random.choices calls by a loader that does not sample"
        if not st["inputs_unchanged"]:
            return what + "the caller's objects were modified by create_jdd()"
        if not all(t for _, _, t in st["jdd"]):
            return what + "a jdd key is not a tuple of ints"
        if case["kind"] == 0 and not st["same_object"]:
            return what + "manual loader does not expose the dictionary object it was given"
    if len(io["then"]) != len(mo["then"]):
        return "history stopped early"
    return None


def _chk(sc, io):
    # sampling mode is judged on the answers the oracle ACTUALLY gave (scripted or fallback) to the calls actually made
    return ("c06_check", [sc["kind"], payload(sc), io["answers"] if sc["kind"] == 3 else [],
                          io["calls"] if sc["kind"] == 3 else [], [[k, q] for k, q, _ in io["jdd"]]])


def _judged(case, io):
    """[(label, case describing the CURRENT contents, observation)] of everything the verified checker judges"""
    out = [("", case, io)]
    for i, (sc, st) in enumerate(zip(step_cases(case), io.get("then", []))):
        if not is_valid(sc):
            break                   # an edit made the inputs malformed: what follows is compared with the model only
        out.append((f"after the caller edited the objects it had passed in ({st['how']}, step {i + 1}) and asked again "
                    f"(create_jdd() on the same loader, or a new loader from the same params dict): ", sc, st))
    return out


def check_calls(case, io):
    if core.is_exc(io) or not is_valid(case):
        return []
    return [_chk(sc, o) for _, sc, o in _judged(case, io) if "exc" not in o]


def check_verdict(case, io, raws):
    if not is_valid(case):
        return None
    if core.is_exc(io):
        if io[1] in ("OracleProtocol", "Timeout"):
            return None
        return f"{KINDS[case['kind']]} loader raised {io[1]} on a valid input (path {case.get('path', 0)})"
    raws = list(raws)
    for what, sc, o in _judged(case, io):
        if "exc" in o:
            if o["exc"] in ("OracleProtocol", "Timeout"):
                return None
            return what + f"{KINDS[case['kind']]} loader raised {o['exc']} on a valid input"
        raw = raws.pop(0) if raws else None
        if not all(t for _, _, t in o["jdd"]):
            return what + "a jdd key is not a tuple of ints"
        if raw != 1:
            return what + (f"c06_check rejected the {KINDS[case['kind']]} loader's distribution (path {case.get('path', 0)})"
                           + (": it is not the law of the CURRENT contents" if what else ""))
    return None


def nontrivial_key(case, io):
    if not is_valid(case) or core.is_exc(io):
        return None
    return case if len(io["jdd"]) >= 2 else None


def shrink(case):
    k = case["kind"]
    if "then" in case:
        # histories shrink by dropping steps (from the end: a step builds on the one before) and the side edits
        th = case["then"]
        c = copy.deepcopy(case)
        if len(th) > 1:
            c["then"] = th[:-1]
        else:
            del c["then"]
        yield c
        for i, st in enumerate(th):
            for f in ("damage", "sizes", "reload"):
                if st.get(f):
                    c = copy.deepcopy(case)
                    del c["then"][i][f]
                    yield c
        if case.get("path", 0) == 1 and k != 3:
            c = copy.deepcopy(case)
            c["path"] = 0
            yield c
        if "opts" in case and k != 3:
            c = copy.deepcopy(case)
            del c["opts"]
            yield c
        return
    if "opts" in case:
        o = case["opts"]
        if k != 3 and (o.get("use_sampling", "absent") != "absent" or o.get("n_samples", "absent") != "absent"
                       or o.get("type_key", "default") != "default"):
            c = copy.deepcopy(case)
            del c["opts"]
            yield c
            if o.get("n_samples", "absent") != "absent":
                c = copy.deepcopy(case)
                c["opts"]["n_samples"] = "absent"
                yield c
        if o.get("type_key", "default") != "default":
            c = copy.deepcopy(case)
            c["opts"]["type_key"] = "default"
            yield c
    if "sizes" in case and any(x != 2 for x in case["sizes"]):
        c = copy.deepcopy(case)
        c["sizes"] = [2] * len(case["sizes"])
        yield c
    if case.get("path", 0) == 1:
        c = copy.deepcopy(case)
        c["path"] = 0
        if k == 3:
            c["rounds"] = c["rounds"][-1:]
        yield c
    if k == 0:
        for i in range(len(case["jdd"])):
            c = copy.deepcopy(case)
            del c["jdd"][i]
            yield c
    elif k == 1:
        for i in range(len(case["jds"])):
            c = copy.deepcopy(case)
            del c["jds"][i]
            yield c
    elif k in (2, 4):
        for i in range(len(case["bounds"])):
            lo, hi = case["bounds"][i]
            if hi > lo:
                c = copy.deepcopy(case)
                c["bounds"][i] = [lo, hi - 1]
                yield c
                c = copy.deepcopy(case)
                c["bounds"][i] = [lo + 1, hi]
                yield c
        if k == 2 and len(case["bounds"]) > 1 and len(case["tables"]) >= len(case["bounds"]):
            for i in range(len(case["bounds"])):
                c = copy.deepcopy(case)
                del c["bounds"][i]
                del c["tables"][i]
                yield c
    elif k == 3:
        n = case["n"]
        if n > 1:
            c = copy.deepcopy(case)
            c["n"] = n - 1
            c["rounds"] = [[ix[:-1] for ix in rnd] for rnd in case["rounds"]]
            if "opts" in c:
                c["opts"]["n_samples"] = n - 1
            yield c
        d = len(case["bounds"])
        if d > 1 and len(case["tables"]) >= d:
            for i in range(d):
                c = copy.deepcopy(case)
                del c["bounds"][i]
                del c["tables"][i]
                c["rounds"] = [rnd[:i] + rnd[i + 1:] for rnd in case["rounds"]]
                yield c


def describe(case, io):
    d = {"loader": KINDS[case["kind"]], "path(0=direct,1=dispatcher)": case.get("path", 0)}
    for f in ("bounds", "n"):
        if f in case:
            d[f] = case[f]
    d["impl"] = io if core.is_exc(io) else {"jdd": [[k, str(fr(q))] for k, q, _ in io["jdd"]][:8]}
    return d


def histogram(cases):
    h = {k: 0 for k in KINDS}
    h.update({"dispatcher_path": 0, "malformed": 0, "empty_box": 0, "max_box_points": 0, "use_sampling_explicit_False": 0,
              "n_samples_explicit_in_direct_mode": 0, "optional_keys_on_other_loaders": 0,
              "empirical_column_total_not_multiple_of_size": 0, "histories": 0, "history_steps": 0,
              "steps_same_object_same_length": 0, "steps_same_object_other_length": 0, "steps_new_object": 0,
              "steps_nothing_changed": 0})
    for c in cases:
        if "then" in c:
            h["histories"] += 1
            cur = c
            for st, sc in zip(c["then"], step_cases(c)):
                h["history_steps"] += 1
                if st["how"] in ("equal", "repeat"):
                    h["steps_nothing_changed"] += 1
                elif st["how"] == "setter" and c["kind"] in (0, 1):
                    h["steps_new_object"] += 1
                else:
                    f = DATA[c["kind"]][0]
                    h["steps_same_object_same_length" if len(sc[f]) == len(cur[f]) else "steps_same_object_other_length"] += 1
                cur = sc
        h[KINDS[c["kind"]]] += 1
        h["dispatcher_path"] += c.get("path", 0)
        if not is_valid(c):
            h["malformed"] += 1
        o = c.get("opts") or {}
        if o.get("use_sampling") == "False":
            h["use_sampling_explicit_False"] += 1
        if c["kind"] == 2 and o.get("n_samples", "absent") != "absent":
            h["n_samples_explicit_in_direct_mode"] += 1
        if c["kind"] in (0, 1, 4) and (o.get("use_sampling", "absent") != "absent" or o.get("n_samples", "absent") != "absent"):
            h["optional_keys_on_other_loaders"] += 1
        if c["kind"] == 1 and c["jds"]:
            sz = c.get("sizes") or [2] * len(c["jds"][0])
            if any(sum(col) % s_ for col, s_ in zip(zip(*c["jds"]), sz)):
                h["empirical_column_total_not_multiple_of_size"] += 1
        if "bounds" in c:
            pts = 1
            for b in c["bounds"]:
                pts *= len(closed(b)) if c["kind"] != 2 else len(half(b))
            h["max_box_points"] = max(h["max_box_points"], pts)
            if pts == 0:
                h["empty_box"] += 1
    return h
