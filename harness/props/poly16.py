"""Exact multivariate polynomials with rational coefficients, fed to the real gcmpy equation
code in place of the floats phi / u / H.  The code only uses + - * and pow (with exponents that
may be integral floats, because clique_equation.omega returns floats) and int / float constants;
floats are absorbed exactly (Fraction(float) is exact), so no rounding ever happens.

A polynomial is a dict {exponent tuple (x1, x2, ...; trailing zeros stripped): Fraction != 0}."""
from fractions import Fraction
from numbers import Number
import math


def _strip(e):
    e = tuple(e)
    while e and e[-1] == 0:
        e = e[:-1]
    return e


class Poly:
    __slots__ = ("t",)
    __array_priority__ = 1000

    def __init__(self, terms=None):
        self.t = {}
        if terms:
            for e, c in terms.items():
                c = Fraction(c)
                if c != 0:
                    self.t[_strip(e)] = c

    # ---- constructors
    @staticmethod
    def var(i):
        """x_i, i >= 1"""
        return Poly({(0,) * (i - 1) + (1,): 1})

    @staticmethod
    def const(c):
        return Poly({(): _num(c)})

    @staticmethod
    def from_monos(monos):
        """[[coef, [e1, e2, ...]], ...] with integer (or [num, den]) coefficients"""
        p = {}
        for c, e in monos:
            c = Fraction(c[0], c[1]) if isinstance(c, (list, tuple)) else Fraction(c)
            k = _strip(e)
            p[k] = p.get(k, 0) + c
        return Poly(p)

    @staticmethod
    def lift(x):
        if isinstance(x, Poly):
            return x
        return Poly.const(x)

    # ---- arithmetic
    def __add__(self, o):
        o = _coerce(o)
        if o is None:
            return NotImplemented
        r = dict(self.t)
        for e, c in o.t.items():
            v = r.get(e, 0) + c
            if v == 0:
                r.pop(e, None)
            else:
                r[e] = v
        return Poly(r)

    __radd__ = __add__

    def __neg__(self):
        return Poly({e: -c for e, c in self.t.items()})

    def __pos__(self):
        return self

    def __sub__(self, o):
        o = _coerce(o)
        if o is None:
            return NotImplemented
        return self + (-o)

    def __rsub__(self, o):
        o = _coerce(o)
        if o is None:
            return NotImplemented
        return o + (-self)

    def __mul__(self, o):
        o = _coerce(o)
        if o is None:
            return NotImplemented
        r = {}
        for e1, c1 in self.t.items():
            for e2, c2 in o.t.items():
                n = max(len(e1), len(e2))
                e = tuple((e1[i] if i < len(e1) else 0) + (e2[i] if i < len(e2) else 0) for i in range(n))
                r[e] = r.get(e, 0) + c1 * c2
        return Poly(r)

    __rmul__ = __mul__

    def __pow__(self, n, mod=None):
        if mod is not None:
            raise TypeError("pow with modulus is not supported on exact polynomials")
        if isinstance(n, Poly):
            if n.is_const():
                n = n.t.get((), Fraction(0))
            else:
                raise TypeError("polynomial exponent")
        if isinstance(n, bool):
            n = int(n)
        if isinstance(n, float):
            if not math.isfinite(n) or n != int(n):
                raise ValueError("non-integral exponent %r on an exact polynomial" % (n,))
            n = int(n)
        if isinstance(n, Fraction):
            if n.denominator != 1:
                raise ValueError("non-integral exponent on an exact polynomial")
            n = int(n)
        if not isinstance(n, int):
            try:
                n = int(n) if n == int(n) else None
            except Exception:  # noqa: BLE001
                n = None
            if n is None:
                raise TypeError("unsupported exponent")
        if n < 0:
            raise ValueError("negative exponent on an exact polynomial")
        r = Poly.const(1)
        b = self
        while n:
            if n & 1:
                r = r * b
            n >>= 1
            if n:
                b = b * b
        return r

    def __truediv__(self, o):
        o = _coerce(o)
        if o is None or not o.is_const():
            return NotImplemented
        c = o.t.get((), Fraction(0))
        if c == 0:
            raise ZeroDivisionError("division of an exact polynomial by zero")
        return Poly({e: v / c for e, v in self.t.items()})

    # deliberately no __float__/__int__/__bool__ tricks: code that needs a number fails loudly
    def is_const(self):
        return all(e == () for e in self.t)

    def __eq__(self, o):
        o = _coerce(o)
        if o is None:
            return NotImplemented
        return self.t == o.t

    def __hash__(self):
        return hash(tuple(sorted(self.t.items())))

    def __repr__(self):
        return "Poly(%r)" % ({e: str(c) for e, c in sorted(self.t.items())},)

    # ---- canonical forms
    def denominator(self):
        d = 1
        for c in self.t.values():
            d = d * c.denominator // math.gcd(d, c.denominator)
        return d

    def int_monos(self):
        """(D, sorted [[coef, [exps]]]) with integer coefficients such that self = that / D"""
        d = self.denominator()
        return d, sorted([[int(c * d), list(e)] for e, c in self.t.items()], key=lambda m: (m[1], m[0]))

    def evaluate(self, env):
        """exact value at env = [x1, x2, ...] (Fractions)"""
        tot = Fraction(0)
        for e, c in self.t.items():
            v = c
            for i, k in enumerate(e):
                if k:
                    v *= Fraction(env[i]) ** k
            tot += v
        return tot


def _num(c):
    if isinstance(c, bool):
        return Fraction(int(c))
    if isinstance(c, (int, Fraction)):
        return Fraction(c)
    if isinstance(c, float):
        if not math.isfinite(c):
            raise ValueError("non-finite float in an exact polynomial")
        return Fraction(c)
    if isinstance(c, Number):
        # numpy scalars and the like
        try:
            return Fraction(c.item())
        except Exception:  # noqa: BLE001
            return Fraction(float(c))
    raise TypeError("not a number: %r" % (c,))


def _coerce(o):
    if isinstance(o, Poly):
        return o
    try:
        return Poly.const(o)
    except TypeError:
        return None


def canon_monos(monos):
    """normal form of a model-side monomial list [[coef, [exps]]]: zeros dropped, exponents stripped, sorted"""
    p = Poly.from_monos(monos)
    return p.int_monos()[1]
