"""C17 — MessagePassing.theoretical vs the Gallina model (Model/MsgPass.v).

The REAL MessagePassing is run (floats) on small cover-labelled networks, `iterations` in {0,1,2,3}, dyadic phi;
one object is queried with a whole history of phi values and a fresh object is queried per phi.  The observed
G.nodes() / G.edges() orders are logged and handed to the model as the sweep schedule.  Floats are compared with the
model's exact rationals (core.close, 1e-9) and judged by the verified checker c17_check (= within 1e-9 of the
specification iterate built from the exact expectation, in [0,1], 0 at phi=0, non-decreasing in phi) on both the
history answers and the fresh answers; c17_check_motifs checks that every motif equation of the network is the
exact expectation (polynomial identity).
"""
from fractions import Fraction

from harness import core

ID = "C17"
RULE = ("cover-labelled networks of 1-5 motifs (edge, path, triangle, 4-cycle, diamond, K4, 5-cycle, tailed triangle, "
        "bow-tie-free gluing: motifs pairwise share at most one vertex; trees, chains and rings of motifs, several "
        "components, isolated vertices) on <= 18 arbitrarily labelled vertices with shuffled node / edge insertion "
        "order; iterations in {0,1,2,3}; histories of 1-6 dyadic phi in [0,1] in shuffled order (0 and 1 included, "
        "repeats allowed) on ONE object, plus a fresh object per phi; in 40% of the cases a decoy object (same vertex sets "
        "and motif IDs, every motif a path) is alive and queried between the queries; 12% hub networks (one vertex in "
        "9-12 motifs); labels up to 1000; malformed: the empty network. Non-trivial = at "
        "least two motifs share a vertex, iterations >= 1 and some 0 < phi < 1; distinct by (motifs, order, T, phis)")
EXHAUSTIVE = {"quick": False, "thorough": False}
EXPLANATION = ("all C17 theorems are general (any network, any sweep order, any T): model = spec for EVERY well-formed "
               "network, motifs of any size (C17_model_is_spec_unconditional, from the general C15 identity; the per-network "
               "polynomial check c17_check_motifs is still run as an independent check), bounds, value 0 at phi = 0, monotonicity in phi (C17_monotone), history independence, "
               "soundness of the checker. "
               "PARTIAL: that the iteration converges to THE fixed point is not proved (only the T-th Gauss-Seidel "
               "iterate from 0.5 is characterised; C17_full keeps the statement).")
ASSUMPTIONS = [
    "networkx Graph.edges / nodes / neighbors iteration orders are taken as observed (logged and given to the model)",
    "cover labels are consistent: every edge carries the label of exactly one motif, whose vertex and edge lists "
    "are those of the motif; motifs pairwise share at most one vertex",
    "IEEE double arithmetic of the implementation stays within 1e-9 of exact arithmetic for iterations <= 3 "
    "(observed error <= 1e-15)",
]
TRUSTED = ["float -> exact rational via Fraction(float) (exact); tolerance 1e-9 of harness/core.close and of the checker"]
TECHNIQUE = ("Coq: simulation lemma over the Gauss-Seidel sweeps (model/spec, cached/fresh evaluator, reduced/plain "
             "arithmetic), invariants for the bounds and phi = 0, on top of the C15 cache invariant; verified checker "
             "on the implementation's floats; model/implementation correspondence with logged sweep order")
LEVEL_TEXT = (
    "coq/Props/C17.v, all GENERAL (every network, sweep order, iteration count T): C17_formula_partial - the returned value is "
    "1 - average over vertices of the product over the vertex's motifs of H_T, H_T the T-th Gauss-Seidel iterate from "
    "0.5 with explicit update equation; C17_others_semantic - under the cover precondition (cover_okb, checked per case) "
    "the products run over all OTHER motifs of each member, each once; C17_model_is_spec_unconditional - for every "
    "well-formed network (net_okb: swept end points are vertices of their motif, motif graphs are simple graphs; motifs of "
    "ANY size) the model (per-motif equation = the automated equation) equals the specification iterate (per-motif "
    "equation = the exact expectation), by the general C15 identity; C17_model_is_spec / _checked - the same from the "
    "hypothesis that every (motif, focal) equation is exact / from the polynomial identity check motifs_okb (kept, "
    "independent); C17_object_is_spec / C17_wire_model_is_spec - one object queried repeatedly, and the extracted "
    "reduced-fraction model, return the specification's values for every well-formed network; C17_bounds - 0 <= value <= 1 for 0 <= phi <= 1; C17_zero - value 0 at "
    "phi = 0 for every T >= 1; C17_monotone - 0 <= phi <= phi' <= 1 implies value(phi) <= value(phi') for every T; C17_history - any sequence of queries on one object (evaluator caches persist, _H_tau is "
    "reset) returns what fresh objects return; C17_wire_model - the reduced-fraction executable model equals the "
    "model; C17_check_sound. PARTIAL (C17_full kept as Definition): convergence of the iteration to the fixed point is "
    "not proved.")
LEVEL_NOTE = ("Trusted: Coq kernel; extraction + OCaml driver + Python harness for the correspondence; networkx "
              "iteration orders as logged; float/rational tolerance 1e-9. No axioms.")

IMPL_TIMEOUT = 120.0

# ----------------------------------------------------------------- motif shapes on local vertices 0..n-1
SHAPES = {
    "edge": (2, [(0, 1)]),
    "path3": (3, [(0, 1), (1, 2)]),
    "triangle": (3, [(0, 1), (1, 2), (0, 2)]),
    "cycle4": (4, [(0, 1), (1, 2), (2, 3), (3, 0)]),
    "diamond": (4, [(0, 1), (0, 2), (1, 2), (1, 3), (2, 3)]),
    "k4": (4, [(0, 1), (0, 2), (0, 3), (1, 2), (1, 3), (2, 3)]),
    "cycle5": (5, [(0, 1), (1, 2), (2, 3), (3, 4), (4, 0)]),
    "tailed": (4, [(0, 1), (1, 2), (0, 2), (2, 3)]),
    "star3": (4, [(0, 1), (0, 2), (0, 3)]),
    # chorded motifs on >= 5 vertices: components of equal size but different shape occur inside them
    "house": (5, [(0, 1), (1, 2), (2, 3), (3, 4), (4, 0), (1, 4)]),
    "wheel4": (5, [(0, 1), (0, 2), (0, 3), (0, 4), (1, 2), (2, 3), (3, 4), (4, 1)]),
    "k4tail": (5, [(0, 1), (0, 2), (0, 3), (1, 2), (1, 3), (2, 3), (3, 4)]),
    "cycle6chord": (6, [(0, 1), (1, 2), (2, 3), (3, 4), (4, 5), (5, 0), (0, 3)]),
    "bull": (5, [(0, 1), (1, 2), (0, 2), (1, 3), (2, 4)]),
}
TOPO_KEY = {"edge": 2, "path3": 30, "triangle": 3, "cycle4": 40, "diamond": 41, "k4": 4, "cycle5": 50, "tailed": 42,
            "star3": 43, "house": 51, "wheel4": 52, "k4tail": 53, "cycle6chord": 60, "bull": 54}


def _build(rng, shapes, labels, glue="random", extra_nodes=0, p2=0.3):
    """glue motifs so that any two share at most one vertex"""
    motifs = []
    used = []           # vertices in use
    pairs_shared = {}   # vertex -> list of motif indexes
    lab = list(labels)
    rng.shuffle(lab)
    nxt = iter(lab)
    for k, sh in enumerate(shapes):
        n, es = SHAPES[sh]
        local = list(range(n))
        rng.shuffle(local)
        mapping = {}
        if motifs and glue != "disjoint":
            # choose 1 (sometimes 2) attachment vertices belonging to DIFFERENT existing motifs
            cand = list(used)
            a = used[0] if glue == "hub" else rng.choice(cand)
            mapping[local[0]] = a
            if len(motifs) >= 2 and rng.random() < (1.0 if (glue == "ring" and k == len(shapes) - 1) else p2):
                ma = set(pairs_shared[a])
                cand2 = [v for v in used if v != a and not (set(pairs_shared[v]) & ma)]
                if cand2:
                    mapping[local[1]] = rng.choice(cand2)
            if glue == "random" and rng.random() < 0.15:
                mapping = {}
        for v in local:
            if v not in mapping:
                mapping[v] = next(nxt)
        verts = [mapping[v] for v in range(n)]
        edges = [[mapping[a], mapping[b]] for a, b in es]
        rng.shuffle(edges)
        edges = [e if rng.random() < 0.5 else [e[1], e[0]] for e in edges]
        vs = verts[:]
        rng.shuffle(vs)
        motifs.append({"id": k + rng.choice([0, 0, 100]), "key": TOPO_KEY[sh], "verts": vs, "edges": edges})
        for v in verts:
            if v not in used:
                used.append(v)
            pairs_shared.setdefault(v, []).append(k)
    # unique ids
    seen = set()
    for i, m in enumerate(motifs):
        while m["id"] in seen:
            m["id"] += 1
        seen.add(m["id"])
    extra = [next(nxt) for _ in range(extra_nodes)]
    nodes = used + extra
    rng.shuffle(nodes)
    ins = [[e[0], e[1], m["id"]] for m in motifs for e in m["edges"]]
    rng.shuffle(ins)
    return {"motifs": motifs, "nodes": nodes, "insert": ins}


def _phis(rng, n, bits=3):
    den = 1 << bits
    out = []
    for _ in range(n):
        r = rng.random()
        if r < 0.12:
            out.append([0, 1])
        elif r < 0.22:
            out.append([1, 1])
        else:
            f = Fraction(rng.randint(0, den), den)
            out.append([f.numerator, f.denominator])
    if n >= 3 and rng.random() < 0.5:
        out[-1] = out[0]  # the same query again after others (stale state shows here)
    return out


def corpus():
    import random
    rng = random.Random(17)
    out = []
    # two triangles sharing a vertex; the classic
    c = _build(rng, ["triangle", "triangle"], range(5), glue="chain")
    out.append(dict(c, T=2, phis=[[1, 2], [0, 1], [1, 1], [1, 4], [1, 2]]))
    out.append(dict(c, T=1, phis=[[1, 2], [1, 4], [1, 2]], decoy=True))
    # single motifs
    for sh in ["edge", "triangle", "diamond", "k4", "cycle5", "house", "bull"]:
        c = _build(rng, [sh], range(6))
        out.append(dict(c, T=3, phis=[[3, 4], [1, 4], [0, 1]]))
    # chain edge - diamond - triangle - cycle4 with an isolated vertex, T = 1, 2, 3
    for T in (1, 2, 3):
        c = _build(rng, ["edge", "diamond", "triangle", "cycle4"], range(14), glue="chain", extra_nodes=1)
        out.append(dict(c, T=T, phis=[[1, 2], [7, 8], [1, 8]]))
    # rings of motifs (messages circulate: the value keeps depending on T)
    for T in (1, 2, 3):
        c = _build(rng, ["edge", "edge", "edge", "triangle"], range(8), glue="ring", p2=0.5)
        out.append(dict(c, T=T, phis=[[1, 2], [3, 4], [1, 1], [0, 1], [1, 4]]))
        c = _build(rng, ["triangle", "cycle4", "diamond"], range(12), glue="ring", p2=0.0)
        out.append(dict(c, T=T, phis=[[1, 2], [3, 4]]))
    # T = 0 and the empty network
    c = _build(rng, ["triangle", "edge"], range(5), glue="chain")
    out.append(dict(c, T=0, phis=[[1, 2], [1, 4]]))
    out.append({"motifs": [], "nodes": [], "insert": [], "T": 1, "phis": [[1, 2]]})
    return out


def generate(rng, tier):
    n = 55 if tier == "quick" else 600
    names = list(SHAPES)
    for _ in range(n):
        k = rng.choice([1, 2, 2, 3, 3, 4, 5])
        shapes = [rng.choice(names) for _ in range(k)]
        # keep the exact rationals small: at most 16 edges in the big motifs
        glue = rng.choice(["chain", "random", "ring", "ring", "disjoint" if k <= 2 else "ring"])
        if glue == "ring" and rng.random() < 0.4:
            shapes = [rng.choice(["edge", "edge", "triangle", "path3"]) for _ in range(rng.randint(3, 6))]
        labels = list(range(24)) + [31, 32, 33, 64, 65, 100, 129, 257, 1000]
        if rng.random() < 0.12:
            # a hub vertex that belongs to 9-12 motifs (more than 8 entries in the done_motifs sets)
            shapes = [rng.choice(["edge", "edge", "triangle", "path3"]) for _ in range(rng.randint(9, 12))]
            glue = "hub"
        c = _build(rng, shapes, labels, glue=glue, extra_nodes=rng.choice([0, 0, 1, 2]),
                   p2=0.0 if glue == "hub" else rng.choice([0.0, 0.3, 0.6]))
        c["decoy"] = rng.random() < 0.4
        T = rng.choice([0, 1, 1, 2, 2, 3]) if glue != "hub" else rng.choice([1, 2])
        bits = 3 if T <= 2 else 2
        yield dict(c, T=T, phis=_phis(rng, rng.randint(1, 6 if T <= 2 else 3), bits))
    for _ in range(2 if tier == "quick" else 10):
        yield {"motifs": [], "nodes": [], "insert": [], "T": rng.randint(0, 2), "phis": [[1, 2]]}


# ----------------------------------------------------------------- implementation side
def _mk_graph(case):
    import networkx as nx
    G = nx.Graph(note="net")
    G.add_nodes_from(case["nodes"])
    nx.set_node_attributes(G, {v: f"v{v}" for v in case["nodes"]}, "lab")
    labels = {}
    for m in case["motifs"]:
        labels[m["id"]] = f"{m['key']}-{list(m['verts'])}-{[tuple(e) for e in m['edges']]}-{m['id']}"
    for k, (a, b, mid) in enumerate(case["insert"]):
        G.add_edge(a, b, CoverLabel=labels[mid], w=k)
    return G


def _snapshot(G):
    """everything a caller can see of the network, attribute data and iteration orders included"""
    return ([(n, sorted(d.items())) for n, d in G.nodes(data=True)],
            [(a, b, sorted(d.items())) for a, b, d in G.edges(data=True)],
            sorted(G.graph.items()), [(n, list(G.adj[n])) for n in G.nodes()])


def _frac(x):
    f = Fraction(x)
    return [f.numerator, f.denominator]


def impl(case):
    from gcmpy.message_passing.message_passing import MessagePassing
    G = _mk_graph(case)
    nodes = list(G.nodes())
    sweep = [[i, j, int(G.edges[i, j]["CoverLabel"].split("-")[-1])] for i, j in G.edges()]
    decoy = None
    if case.get("decoy") and case["motifs"]:
        # a second object alive at the same time: same vertex sets and motif IDs, but every motif is a path
        dm = [dict(m, edges=[[m["verts"][i], m["verts"][i + 1]] for i in range(len(m["verts"]) - 1)]) for m in case["motifs"]]
        dcase = dict(case, motifs=dm, insert=[[e[0], e[1], m["id"]] for m in dm for e in m["edges"]])
        decoy = MessagePassing(_mk_graph(dcase), iterations=max(1, case["T"]))
    mp = MessagePassing(G, iterations=case["T"])
    hist = []
    pure = 1
    for num, den in case["phis"]:
        if decoy is not None:
            decoy.theoretical(0.375)
        before = _snapshot(G)
        hist.append(_frac(mp.theoretical(num / den)))
        if _snapshot(G) != before:
            pure = 0
    fresh = []
    for num, den in case["phis"]:
        fresh.append(_frac(MessagePassing(_mk_graph(case), iterations=case["T"]).theoretical(num / den)))
    return {"nodes": nodes, "sweep": sweep, "hist": hist, "fresh": fresh, "pure": pure}


# ----------------------------------------------------------------- model side
def _net_tree(case, obs):
    return [obs["nodes"], obs["sweep"], [[m["id"], m["verts"], m["edges"]] for m in case["motifs"]]]


def model_calls(case, impl_obs):
    if core.is_exc(impl_obs):
        obs = {"nodes": case["nodes"], "sweep": case["insert"]}
    else:
        obs = impl_obs
    return [("c17_run", _net_tree(case, obs) + [case["T"], case["phis"]])]


def model_obs(case, raws):
    r = raws[0]
    if r and r[0] == -1:
        return ["!err", r[1]]
    return [[v[0], v[1]] for v in r]


def compare(case, impl_obs, model):
    if model and model[0] == "!err":
        if core.is_exc(impl_obs):
            if not case["nodes"] and impl_obs[1] != "ZeroDivisionError":
                return f"empty network: expected ZeroDivisionError, got {impl_obs[1]}"
            return None
        return f"model rejects the network (code {model[1]}), implementation returned values"
    if core.is_exc(impl_obs):
        return f"implementation raised {impl_obs[1]}"
    if len(model) != len(impl_obs["hist"]):
        return "length mismatch"
    if not impl_obs.get("pure", 1):
        return "the caller's network (nodes / edges / attribute data / iteration order) was modified by theoretical()"
    for k, (h, f, m) in enumerate(zip(impl_obs["hist"], impl_obs["fresh"], model)):
        q = Fraction(m[0], m[1])
        if not core.close(Fraction(h[0], h[1]), q):
            return f"query {k} (phi={case['phis'][k]}): object returned {float(Fraction(*h))!r}, model {float(q)!r}"
        if not core.close(Fraction(f[0], f[1]), q):
            return f"query {k} (phi={case['phis'][k]}): fresh object returned {float(Fraction(*f))!r}, model {float(q)!r}"
    return None


def check_calls(case, impl_obs):
    if core.is_exc(impl_obs) or not case["nodes"]:
        return []
    net = _net_tree(case, impl_obs)
    return [("c17_check", net + [case["T"], [[p, v] for p, v in zip(case["phis"], impl_obs["hist"])]]),
            ("c17_check", net + [case["T"], [[p, v] for p, v in zip(case["phis"], impl_obs["fresh"])]]),
            ("c17_check_motifs", net)]


def check_verdict(case, impl_obs, raws):
    if not case["nodes"]:
        return None  # outside the property (no vertex to average over)
    if core.is_exc(impl_obs):
        return f"implementation raised {impl_obs[1]} on a cover-labelled network the property covers"
    if raws[0] != 1:
        return ("answers of the queried object violate the property (c17_check: each within 1e-9 of the specification "
                f"iterate, in [0,1], 0 at phi=0, non-decreasing in phi); phis={case['phis']} "
                f"values={[float(Fraction(*v)) for v in impl_obs['hist']]}")
    if raws[1] != 1:
        return "answers of fresh objects violate the property (c17_check)"
    if raws[2] != 1:
        return "a motif equation of the network is not the exact expectation, or the cover precondition fails (c17_check_motifs)"
    return None


def nontrivial_key(case, impl_obs):
    if core.is_exc(impl_obs) or case["T"] < 1:
        return None
    cnt = {}
    for m in case["motifs"]:
        for v in m["verts"]:
            cnt[v] = cnt.get(v, 0) + 1
    if not any(c >= 2 for c in cnt.values()):
        return None
    if not any(0 < Fraction(*p) < 1 for p in case["phis"]):
        return None
    return [case["motifs"], case["insert"], case["nodes"], case["T"], case["phis"]]


def shrink(case):
    ms = case["motifs"]
    for i in range(len(ms)):
        keep = ms[:i] + ms[i + 1:]
        ids = {m["id"] for m in keep}
        vs = {v for m in keep for v in m["verts"]}
        yield dict(case, motifs=keep, insert=[e for e in case["insert"] if e[2] in ids],
                   nodes=[v for v in case["nodes"] if v in vs] or case["nodes"][:1])
    for i in range(len(case["phis"])):
        if len(case["phis"]) > 1:
            yield dict(case, phis=case["phis"][:i] + case["phis"][i + 1:])
    if case["T"] > 1:
        yield dict(case, T=case["T"] - 1)


def describe(case, impl_obs):
    d = {"motifs": [(m["key"], m["verts"]) for m in case["motifs"]], "T": case["T"], "phis": case["phis"]}
    if not core.is_exc(impl_obs):
        d["values"] = [float(Fraction(*v)) for v in impl_obs["hist"]]
        d["sweep_order"] = impl_obs["sweep"][:8]
    return d


def histogram(cases):
    h = {"networks": len(cases), "queries": 0}
    for c in cases:
        h["queries"] += len(c["phis"])
        k = f"motifs{len(c['motifs'])}"
        h[k] = h.get(k, 0) + 1
        k = f"T{c['T']}"
        h[k] = h.get(k, 0) + 1
        for m in c["motifs"]:
            k = f"key{m['key']}"
            h[k] = h.get(k, 0) + 1
    return h
