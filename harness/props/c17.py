"""C17 — MessagePassing.theoretical vs the Gallina model (Model/MsgPass.v).

The REAL MessagePassing is run (floats) on small cover-labelled networks, `iterations` in {0,1,2,3}, dyadic phi
(and, on small networks planned with a cost estimate, MANY sweeps -- 4-14 or the default 25 -- on grids containing
phi = 1 / 1.0 / np.float64(1) / nearly 1, far enough for the messages to underflow to exactly 0.0 as doubles);
one object is queried with a whole history of phi values and a fresh object is queried per phi.  The observed
G.nodes() / G.edges() orders are logged and handed to the model as the sweep schedule.  Floats are compared with the
model's exact rationals (core.close, 1e-9) and judged by the verified checker c17_check (= within 1e-9 of the
specification iterate built from the exact expectation, in [0,1], 0 at phi=0, non-decreasing in phi) on both the
history answers and the fresh answers; c17_check_motifs checks that every motif equation of the network is the
exact expectation (polynomial identity); c17_check_table checks the preconditions (table_okb, cover_okb, net_okb, pairwise_okb) under
which the specification iterate is proved equal to the independent table-based message equations (mp_table).
"""
import sys
from fractions import Fraction

from harness import core

if hasattr(sys, "set_int_max_str_digits"):
    sys.set_int_max_str_digits(0)   # the exact iterates at phi = 1 have denominators 2^(tens of thousands)

ID = "C17"
RULE = ("cover-labelled networks of 1-5 motifs (edge, path, triangle, 4-cycle, diamond, K4, 5-cycle, tailed triangle, "
        "bow-tie-free gluing: motifs pairwise share at most one vertex; trees, chains and rings of motifs, several "
        "components, isolated vertices) on <= 18 arbitrarily labelled vertices with shuffled node / edge insertion "
        "order; iterations in {0,1,2,3}; histories of 1-6 dyadic phi in [0,1] in shuffled order (0 and 1 included, "
        "repeats allowed) on ONE object, plus a fresh object per phi; in 40% of the cases a decoy object (same vertex sets "
        "and motif IDs, every motif a path) is alive and queried between the queries; 12% hub networks (one vertex in "
        "9-12 motifs); labels up to 1000; malformed: the empty network. DEEP cases (7 in the corpus, 18 quick / 200 "
        "thorough): every edge of a random connected skeleton graph (tree / one cycle / 2-3 independent cycles) becomes a "
        "motif, pendant motifs added; iterations = the first sweep count at which, at phi = 1, some vertex has only "
        "messages below 2^-1100 (exactly 0.0 as doubles) plus 0-2, or 10-14, or NOT PASSED (default 25), lowered until "
        "the exact iterate at phi = 1 has <= 12000-bit denominators; queries: phi = 1 always, plus 0, 1/8..7/8 and "
        "1 - 2^-k (k = 10, 20, 30, 52) where a cost estimate lets the exact model follow; phi passed as float / int / "
        "np.float64 / np.int64, iterations as int / np.int64 / np.int32 (also in 40% of the ordinary cases; in the ordinary "
        "cases a query whose exact evaluation is estimated above ~1.5 s is dropped, at least one is kept). COVER LABELS: the integer key of '<key>-[vertices]-[edges]-<uid>' "
        "names the topology: cliques by size (default), and in half of the ordinary / 40% of the deep cases and 4 corpus cases "
        "cliques by their EDGE COUNT, topologies numbered from 0, arbitrary large numbers, the VERTEX COUNT n naming a "
        "non-clique topology on n vertices (a 4-cycle keyed 4, a 5-cycle keyed 5, a diamond keyed 4; 4 more corpus cases), "
        "or the default keys handed round among the topologies of the cover; vertex / edge literals spelled as "
        "list, tuple, without spaces, edges as lists. "
        "Non-trivial = at least two motifs share a vertex, iterations >= 1 and some 0 < phi < 1 (or phi = 1 with >= 4 "
        "sweeps); distinct by (motifs, order, T, phis, number types)")
EXHAUSTIVE = {"quick": False, "thorough": False}
EXPLANATION = ("all C17 theorems are general (any network, any sweep order, any T): model = spec for EVERY well-formed "
               "network, motifs of any size (C17_model_is_spec_unconditional, from the general C15 identity; the per-network "
               "polynomial check c17_check_motifs is still run as an independent check), bounds, value 0 at phi = 0, monotonicity in phi (C17_monotone), history independence, "
               "soundness of the checker. "
               "INDEPENDENT SPECIFICATION (C17_spec_is_table / C17_model_is_table / C17_object_is_table / "
               "C17_wire_model_is_table): under net_okb, cover_okb and table_okb (all three, and the table-only cover condition "
               "pairwise_okb which implies cover_okb - C17_cover_from_pairwise -, decided per case by the wire "
               "entry c17_check_table) the specification iterate, the model, the object and the extracted model equal "
               "mp_table = 1 - (1/N) * sum over vertices i of the product over the motifs tau CONTAINING i ACCORDING TO "
               "THE MOTIF TABLE of H_T(i,tau), where every update sets H(i,tau) to the exact expectation over motif tau "
               "rooted at i with u_j = product over the table's motifs nu <> tau containing j of H(j,nu) "
               "(C17_update_table); the neighbour / edge-label bookkeeping of the code (others, ids_at, u_of) does not "
               "occur in mp_table, the edge list only fixes the order of the updates; C17_ids_at_table: the edge-label "
               "view and the table view of the motifs of a vertex are permutations of each other. "
               "PARTIAL: that the iteration converges to THE fixed point is not proved (only the T-th Gauss-Seidel "
               "iterate from 0.5 is characterised; C17_full keeps the statement).")
ASSUMPTIONS = [
    "networkx Graph.edges / nodes / neighbors iteration orders are taken as observed (logged and given to the model)",
    "cover labels are consistent: every edge carries the label of exactly one motif, whose vertex and edge lists "
    "are those of the motif; motifs pairwise share at most one vertex (the part of this that the theorems use - net_okb, "
    "cover_okb, table_okb: the motif table handed to the model is exactly the cover labelling the observed edges - is "
    "checked on every case by c17_check_table)",
    "IEEE double arithmetic of the implementation stays within 1e-9 of exact arithmetic for the generated cases "
    "(iterations <= 3 in general, up to 25 on the small deep cases; observed error <= 1e-15; a message that "
    "underflows to 0.0 at phi = 1 is within 2^-1074 of its exact value)",
]
TRUSTED = ["float -> exact rational via Fraction(float) (exact); tolerance 1e-9 of harness/core.close and of the checker"]
PARTIAL = ['convergence of the iteration to THE fixed point (second conjunct of C17_full) is not proved; the code returns the T-th Gauss-Seidel iterate from 0.5 and that iterate is what is characterised', 'C17_formula_partial (1 - vertex average of products) holds by definition of the model and mp_spec shares the sweep bookkeeping (others / ids_at / u_of) with the model; RESOLVED by the independent table-based specification mp_table (membership read off the motif table m_verts, no adjacency bookkeeping): C17_update_table, C17_ids_at_table, C17_spec_is_table, C17_model_is_table, C17_object_is_table, C17_wire_model_is_table hold for every network with net_okb, cover_okb and table_okb (checked on every case by c17_check_table); outside these preconditions (two motifs sharing >= 2 vertices, a table entry not present in the network, duplicate IDs) the code-shaped specification is NOT the message equations (examples C17_table_preconditions_needed) and nothing is claimed']
TECHNIQUE = ("Coq: simulation lemma over the Gauss-Seidel sweeps (model/spec, cached/fresh evaluator, reduced/plain "
             "arithmetic), invariants for the bounds and phi = 0, on top of the C15 cache invariant; independent table-based "
             "specification related to the code-shaped one by a permutation lemma (edge labels vs motif table) and "
             "extensionality of the expectation on the motif's vertices; verified checker "
             "on the implementation's floats; model/implementation correspondence with logged sweep order")
LEVEL_TEXT = (
    "coq/Props/C17.v, all GENERAL (every network, sweep order, iteration count T): C17_formula_partial - the returned value is "
    "1 - average over vertices of the product over the vertex's motifs of H_T, H_T the T-th Gauss-Seidel iterate from "
    "0.5 with explicit update equation; C17_others_semantic - under the cover precondition (cover_okb, checked per case) "
    "the products run over all OTHER motifs of each member, each once; C17_model_is_spec_unconditional - for every "
    "well-formed network (net_okb: swept end points are vertices of their motif, motif graphs are simple graphs; motifs of "
    "ANY size) the model (per-motif equation = the automated equation) equals the specification iterate (per-motif "
    "equation = the exact expectation), by the general C15 identity; C17_model_is_spec / _checked - the same from the "
    "hypothesis that every (motif, focal) equation is exact / from the polynomial identity check motifs_okb (kept, "
    "independent); C17_object_is_spec / C17_wire_model_is_spec - one object queried repeatedly, and the extracted "
    "reduced-fraction model, return the specification's values for every well-formed network; C17_bounds - 0 <= value <= 1 for 0 <= phi <= 1; C17_zero - value 0 at "
    "phi = 0 for every T >= 1; C17_monotone - 0 <= phi <= phi' <= 1 implies value(phi) <= value(phi') for every T; C17_history - any sequence of queries on one object (evaluator caches persist, _H_tau is "
    "reset) returns what fresh objects return; C17_wire_model - the reduced-fraction executable model equals the "
    "model; C17_check_sound. "
    "INDEPENDENT TABLE-BASED SPECIFICATION (GENERAL, for every network with net_okb, cover_okb, table_okb; the three "
    "are decided by the wire entry c17_check_table on every case, C17_check_table_sound): mp_table nt T phi = "
    "1 - (1/N) * sum over vertices i of product over motifs tau containing i of H_T(i,tau), membership read off the "
    "motif table (m_verts), H_T = T Gauss-Seidel sweeps from 0.5 in edge order whose steps set H(i,tau) to the exact "
    "expectation over motif tau rooted at i of the product of u_j, u_j = product over the table's motifs nu <> tau "
    "containing j of H(j,nu) - no neighbour / edge-label bookkeeping; C17_ids_at_table - the motif IDs on the edges at "
    "v and the table's motifs containing v are permutations of each other (net_okb, table_okb); C17_update_table - "
    "every update of the code-shaped specification is that table-based step (other entries unchanged); "
    "C17_spec_is_table (= C17_formula_table) - mp_spec == mp_table for every T and phi; C17_model_is_table, "
    "C17_object_is_table, C17_wire_model_is_table - the model of the code, one object queried repeatedly and the "
    "extracted reduced-fraction model equal mp_table; C17_check_sound_table - answers accepted by the verified checker "
    "are within 1e-9 of mp_table; C17_table_properties - bounds, value 0 at phi = 0, monotonicity in phi for mp_table; "
    "C17_cover_from_pairwise - net_okb and pairwise_okb (any two table motifs with different IDs share at most one "
    "vertex: the cover assumption on the table alone) imply cover_okb, C17_object_is_table_pairwise - the end-to-end "
    "statement with these table-only preconditions; C17_table_solution_is_fixed_point (no precondition) - a solution "
    "of the table-form message equations is a fixed point of the table-based sweep (converse and convergence not "
    "proved). table_okb (motif IDs of the table pairwise distinct; every edge "
    "of every table motif present in the network with that motif's ID) is necessary: counterexamples for each "
    "dropped precondition are in C17_table_preconditions_needed. "
    "PARTIAL (C17_full kept as Definition): convergence of the iteration to the fixed point is "
    "not proved.")
LEVEL_NOTE = ("Trusted: Coq kernel; extraction + OCaml driver + Python harness for the correspondence; networkx "
              "iteration orders as logged; float/rational tolerance 1e-9. No axioms.")

IMPL_TIMEOUT = 120.0
BATCH = 30      # cases are slow; core stops after the first batch that holds a concrete violation

# ----------------------------------------------------------------- motif shapes on local vertices 0..n-1
SHAPES = {
    "edge": (2, [(0, 1)]),
    "path3": (3, [(0, 1), (1, 2)]),
    "triangle": (3, [(0, 1), (1, 2), (0, 2)]),
    "cycle4": (4, [(0, 1), (1, 2), (2, 3), (3, 0)]),
    "diamond": (4, [(0, 1), (0, 2), (1, 2), (1, 3), (2, 3)]),
    "k4": (4, [(0, 1), (0, 2), (0, 3), (1, 2), (1, 3), (2, 3)]),
    "cycle5": (5, [(0, 1), (1, 2), (2, 3), (3, 4), (4, 0)]),
    "tailed": (4, [(0, 1), (1, 2), (0, 2), (2, 3)]),
    "star3": (4, [(0, 1), (0, 2), (0, 3)]),
    # chorded motifs on >= 5 vertices: components of equal size but different shape occur inside them
    "house": (5, [(0, 1), (1, 2), (2, 3), (3, 4), (4, 0), (1, 4)]),
    "wheel4": (5, [(0, 1), (0, 2), (0, 3), (0, 4), (1, 2), (2, 3), (3, 4), (4, 1)]),
    "k4tail": (5, [(0, 1), (0, 2), (0, 3), (1, 2), (1, 3), (2, 3), (3, 4)]),
    "cycle6chord": (6, [(0, 1), (1, 2), (2, 3), (3, 4), (4, 5), (5, 0), (0, 3)]),
    "bull": (5, [(0, 1), (1, 2), (0, 2), (1, 3), (2, 4)]),
}
TOPO_KEY = {"edge": 2, "path3": 30, "triangle": 3, "cycle4": 40, "diamond": 41, "k4": 4, "cycle5": 50, "tailed": 42,
            "star3": 43, "house": 51, "wheel4": 52, "k4tail": 53, "cycle6chord": 60, "bull": 54}


def _build(rng, shapes, labels, glue="random", extra_nodes=0, p2=0.3):
    """glue motifs so that any two share at most one vertex"""
    motifs = []
    used = []           # vertices in use
    pairs_shared = {}   # vertex -> list of motif indexes
    lab = list(labels)
    rng.shuffle(lab)
    nxt = iter(lab)
    for k, sh in enumerate(shapes):
        n, es = SHAPES[sh]
        local = list(range(n))
        rng.shuffle(local)
        mapping = {}
        if motifs and glue != "disjoint":
            # choose 1 (sometimes 2) attachment vertices belonging to DIFFERENT existing motifs
            cand = list(used)
            a = used[0] if glue == "hub" else rng.choice(cand)
            mapping[local[0]] = a
            if len(motifs) >= 2 and rng.random() < (1.0 if (glue == "ring" and k == len(shapes) - 1) else p2):
                ma = set(pairs_shared[a])
                cand2 = [v for v in used if v != a and not (set(pairs_shared[v]) & ma)]
                if cand2:
                    mapping[local[1]] = rng.choice(cand2)
            if glue == "random" and rng.random() < 0.15:
                mapping = {}
        for v in local:
            if v not in mapping:
                mapping[v] = next(nxt)
        verts = [mapping[v] for v in range(n)]
        edges = [[mapping[a], mapping[b]] for a, b in es]
        rng.shuffle(edges)
        edges = [e if rng.random() < 0.5 else [e[1], e[0]] for e in edges]
        vs = verts[:]
        rng.shuffle(vs)
        motifs.append({"id": k + rng.choice([0, 0, 100]), "key": TOPO_KEY[sh], "verts": vs, "edges": edges})
        for v in verts:
            if v not in used:
                used.append(v)
            pairs_shared.setdefault(v, []).append(k)
    # unique ids
    seen = set()
    for i, m in enumerate(motifs):
        while m["id"] in seen:
            m["id"] += 1
        seen.add(m["id"])
    extra = [next(nxt) for _ in range(extra_nodes)]
    nodes = used + extra
    rng.shuffle(nodes)
    ins = [[e[0], e[1], m["id"]] for m in motifs for e in m["edges"]]
    rng.shuffle(ins)
    return {"motifs": motifs, "nodes": nodes, "insert": ins}


def _phis(rng, n, bits=3):
    den = 1 << bits
    out = []
    for _ in range(n):
        r = rng.random()
        if r < 0.12:
            out.append([0, 1])
        elif r < 0.22:
            out.append([1, 1])
        else:
            f = Fraction(rng.randint(0, den), den)
            out.append([f.numerator, f.denominator])
    if n >= 3 and rng.random() < 0.5:
        out[-1] = out[0]  # the same query again after others (stale state shows here)
    if n >= 2 and bits >= 3 and rng.random() < 0.35:
        # two DIFFERENT queries that agree to three decimals (a result memoised under a rounded phi is stale for the second)
        i = rng.randrange(len(out))
        f = Fraction(out[i][0], out[i][1])
        g = f + Fraction(1, 4096) if f < 1 else f - Fraction(1, 4096)
        out.insert(i + 1, [g.numerator, g.denominator])
    return out


def _glue_finish(rng, motifs, nxt, extra_nodes=0):
    """common tail of the builders: unique ids, shuffled node / edge insertion order"""
    seen = set()
    for m in motifs:
        while m["id"] in seen:
            m["id"] += 1
        seen.add(m["id"])
    used = []
    for m in motifs:
        for v in m["verts"]:
            if v not in used:
                used.append(v)
    nodes = used + [next(nxt) for _ in range(extra_nodes)]
    rng.shuffle(nodes)
    ins = [[e[0], e[1], m["id"]] for m in motifs for e in m["edges"]]
    rng.shuffle(ins)
    return {"motifs": motifs, "nodes": nodes, "insert": ins}


def _place(rng, sh, k, mapping, nxt):
    """one motif of shape sh; mapping = {local vertex: network vertex} for the attachment points"""
    n, es = SHAPES[sh]
    mapping = dict(mapping)
    for v in range(n):
        if v not in mapping:
            mapping[v] = next(nxt)
    verts = [mapping[v] for v in range(n)]
    edges = [[mapping[a], mapping[b]] for a, b in es]
    rng.shuffle(edges)
    edges = [e if rng.random() < 0.5 else [e[1], e[0]] for e in edges]
    rng.shuffle(verts)
    return {"id": k + rng.choice([0, 0, 100]), "key": TOPO_KEY[sh], "verts": verts, "edges": edges}


def _build_skeleton(rng, labels, n_sk, chords, pool, pendants=0, extra_nodes=0):
    """a connected simple SKELETON graph on n_sk vertices with cyclomatic number `chords` (spanning tree +
    chords); every skeleton edge becomes one motif (two of its vertices are the skeleton end points, the others
    are fresh, so motifs pairwise share at most one vertex) and `pendants` more motifs hang on used vertices.
    chords >= 2 gives BRANCHING message flow: at phi = 1 the messages shrink doubly exponentially."""
    lab = list(labels)
    rng.shuffle(lab)
    nxt = iter(lab)
    sk = [next(nxt) for _ in range(n_sk)]
    sk_edges = []
    for i in range(1, n_sk):
        sk_edges.append((sk[rng.randrange(i)], sk[i]))
    cand = [(sk[i], sk[j]) for i in range(n_sk) for j in range(i + 1, n_sk)
            if (sk[i], sk[j]) not in sk_edges and (sk[j], sk[i]) not in sk_edges]
    rng.shuffle(cand)
    sk_edges += cand[:chords]
    rng.shuffle(sk_edges)
    motifs = []
    for k, (a, b) in enumerate(sk_edges):
        sh = rng.choice(pool)
        n = SHAPES[sh][0]
        la, lb = rng.sample(range(n), 2)
        motifs.append(_place(rng, sh, k, {la: a, lb: b}, nxt))
    for k in range(pendants):
        used = sorted({v for m in motifs for v in m["verts"]})
        sh = rng.choice(pool)
        motifs.append(_place(rng, sh, len(motifs), {rng.randrange(SHAPES[sh][0]): rng.choice(used)}, nxt))
    return _glue_finish(rng, motifs, nxt, extra_nodes)


def _nx_edges(case):
    """G.edges() of the graph _mk_graph builds (networkx: nodes in insertion order, each adjacency in insertion
    order, an edge is reported at its first end point) -- only used to PLAN the cost of a case"""
    adj = {n: [] for n in case["nodes"]}
    lab = {}
    for a, b, mid in case["insert"]:
        adj.setdefault(a, [])
        adj.setdefault(b, [])
        if b not in adj[a]:
            adj[a].append(b)
        if a not in adj[b]:
            adj[b].append(a)
        lab[(a, b)] = lab[(b, a)] = mid
    seen = set()
    out = []
    for n in adj:
        for nb in adj[n]:
            if nb not in seen:
                out.append((n, nb, lab[(n, nb)]))
        seen.add(n)
    return out


def _plan(case, tmax, b):
    """bit sizes of the exact messages after 1..tmax sweeps for a phi with a b-bit denominator (b = 0: phi in
    {0, 1}, where every message is a power of 1/2): list of (largest message, largest over vertices of the
    SMALLEST message of the vertex).  At phi = 1 the second number >= 1100 means: some vertex has only
    messages below 2^-1100, i.e. exactly 0.0 as IEEE doubles."""
    mem = {}
    for m in case["motifs"]:
        for v in m["verts"]:
            mem.setdefault(v, []).append(m["id"])
    mv = {m["id"]: m["verts"] for m in case["motifs"]}
    ne = {m["id"]: len(m["edges"]) for m in case["motifs"]}
    e = {(v, mid): 1 for v in mem for mid in mem[v]}
    sw = _nx_edges(case)
    out = []
    for _ in range(tmax):
        for i, j, mid in sw:
            for f in (i, j):
                e[(f, mid)] = ne[mid] * b + sum(e[(k, o)] for k in mv[mid] if k != f for o in mem[k] if o != mid)
        out.append((max(e.values()), max(min(e[(v, m)] for m in mem[v]) for v in mem)))
        if out[-1][0] > 10 ** 7:
            break
    return out


BUDGET_POW2 = 12000   # bits; phi in {0, 1}: every message is a power of 1/2, cheap in the extracted model
BUDGET_GEN = 0.5      # any other phi: rough seconds per model evaluation


def _est(case, T, phi):
    """planning only: rough cost (seconds) of one exact evaluation in the extracted model (Coq binary integers):
    phi in {0, 1}: (bits / BUDGET_POW2)^2 * BUDGET_GEN; otherwise sweeps * (terms of the motif equations per
    sweep) * (bits / 60)^2 / 1e5"""
    b = 0 if phi[1] == 1 else phi[1].bit_length() - 1
    pl = _plan(case, T, b) if T > 0 else [(1, 1)]
    if len(pl) < T:
        return 1e9
    if b == 0:
        return (pl[-1][0] / BUDGET_POW2) ** 2 * BUDGET_GEN
    ne = {m["id"]: len(m["edges"]) for m in case["motifs"]}
    work = sum(2 * 2 ** ne[mid] for _, _, mid in case["insert"])
    return T * work * (1 + pl[-1][0] / 60) ** 2 / 1e5


def _fits(case, T, phi, budget=BUDGET_GEN):
    return _est(case, T, phi) <= budget


def _trim(case, per_phi=1.5, total=4.0):
    """drop the queries of a randomly generated case whose exact evaluation would take the model too long (branching
    networks with several sweeps); at least one query is kept (phi = 1/2, then fewer sweeps, as a last resort)"""
    T = case["T"]
    keep, spent = [], 0.0
    for i, p in enumerate(case["phis"]):
        e = _est(case, T, p)
        if e <= per_phi and spent + e <= total:
            keep.append(i)
            spent += e
    if not keep:
        case = dict(case, phis=[[1, 2]])
        case.pop("ptypes", None)
        while case["T"] > 0 and not _fits(case, case["T"], [1, 2], per_phi):
            case["T"] -= 1
        return case
    case = dict(case, phis=[case["phis"][i] for i in keep])
    if case.get("ptypes"):
        case["ptypes"] = [case["ptypes"][i] for i in keep]
    return case


PTYPES_INT = ["int", "float", "np.float64", "np.int64", "float", "int"]


def _deep_case(rng, kind=None):
    """many sweeps (10-14, the default 25, or just past the point where the messages underflow at phi = 1) on a
    small network, queried on grids that contain phi = 1 / 1.0 / nearly 1"""
    labels = list(range(24)) + [31, 32, 33, 64, 65, 100, 129, 257, 1000]   # 33 >= the 26 vertices a deep network can need
    kind = kind or rng.choice(["multi", "multi", "multi", "uni", "tree"])
    if kind == "multi":
        pool = rng.choice([["edge"], ["edge"], ["edge", "edge", "triangle"], ["edge", "path3", "triangle", "cycle4"],
                           ["triangle", "diamond", "edge"]])
        c = _build_skeleton(rng, labels, rng.choice([4, 4, 5]), rng.choice([2, 2, 3]), pool, pendants=rng.choice([0, 0, 1, 2]),
                            extra_nodes=rng.choice([0, 0, 1]))
    elif kind == "uni":
        c = _build_skeleton(rng, labels, rng.choice([3, 4, 5]), 1, ["edge", "triangle", "path3", "cycle4", "diamond"],
                            pendants=rng.choice([0, 1, 2]))
    else:
        c = _build_skeleton(rng, labels, rng.choice([2, 3, 4]), 0, ["edge", "triangle", "tailed", "k4"], pendants=1)
    mode = rng.choice(["under", "under", "under", "mid", "default"])
    if mode == "under":
        pl = _plan(c, 30, 0)
        T = next((t + 1 for t, (_, lo) in enumerate(pl) if lo >= 1100), None)
        T = rng.choice([10, 11, 12, 13, 14, 25]) if T is None else T + rng.choice([0, 0, 1, 2])
    elif mode == "mid":
        T = rng.choice([10, 11, 12, 13, 14])
    else:
        T = None
    one = [1, 1]
    while not _fits(c, 25 if T is None else T, one):
        T = (25 if T is None else T) - 1
    Tn = 25 if T is None else T
    near = [[(1 << k) - 1, 1 << k] for k in (10, 20, 30, 52)]
    grid = [[0, 1], [1, 2], [3, 4], [7, 8], [1, 8]] + near
    ok = [p for p in grid if _fits(c, Tn, p)]
    phis = [one]
    heavy = _plan(c, Tn, 0)[-1][0] > 4000 if Tn else False
    for _ in range(rng.randint(0, 2 if (heavy or Tn >= 10) else 4)):
        phis.append(rng.choice(ok + [one, one]))
    rng.shuffle(phis)
    if rng.random() < 0.3:
        phis = sorted(phis, key=lambda p: Fraction(*p))
    ptypes = [rng.choice(PTYPES_INT) if p[1] == 1 else rng.choice(["float", "float", "np.float64"]) for p in phis]
    return dict(c, T=T, phis=phis, ptypes=ptypes, ttype=rng.choice(["int", "int", "np.int64", "np.int32"]),
                decoy=rng.random() < 0.25)


def corpus():
    import random
    rng = random.Random(17)
    out = []
    # two triangles sharing a vertex; the classic
    c = _build(rng, ["triangle", "triangle"], range(5), glue="chain")
    out.append(dict(c, T=2, phis=[[1, 2], [0, 1], [1, 1], [1, 4], [1, 2]]))
    out.append(dict(c, T=1, phis=[[1, 2], [1, 4], [1, 2]], decoy=True))
    # single motifs
    for sh in ["edge", "triangle", "diamond", "k4", "cycle5", "house", "bull"]:
        c = _build(rng, [sh], range(6))
        out.append(dict(c, T=3, phis=[[3, 4], [1, 4], [0, 1]]))
    # chain edge - diamond - triangle - cycle4 with an isolated vertex, T = 1, 2, 3
    for T in (1, 2, 3):
        c = _build(rng, ["edge", "diamond", "triangle", "cycle4"], range(14), glue="chain", extra_nodes=1)
        out.append(dict(c, T=T, phis=[[1, 2], [7, 8], [1, 8]]))
    # rings of motifs (messages circulate: the value keeps depending on T)
    for T in (1, 2, 3):
        c = _build(rng, ["edge", "edge", "edge", "triangle"], range(8), glue="ring", p2=0.5)
        out.append(dict(c, T=T, phis=[[1, 2], [3, 4], [1, 1], [0, 1], [1, 4]]))
        c = _build(rng, ["triangle", "cycle4", "diamond"], range(12), glue="ring", p2=0.0)
        out.append(dict(c, T=T, phis=[[1, 2], [3, 4]]))
    # covers whose keys are not the motif sizes (edge count / index from 0 / arbitrary), literals spelled differently
    for km, fmt in (("edges", None), ("index0", "tuple"), ("big", "tight"), ("edges", "mixed")):
        c = _build(rng, ["k4", "edge", "triangle", "cycle4"], range(14), glue="chain")
        out.append(dict(c, T=2, phis=[[1, 2], [3, 8]], keymode=km, fmt=fmt))
    # keys that coincide with a structural number of a NON-clique motif (4-cycle keyed 4, 5-cycle keyed 5, diamond keyed
    # 4) or with the size of a different motif
    for km, shapes in (("verts", ["cycle4", "triangle", "edge"]), ("verts", ["cycle5", "diamond", "k4"]),
                       ("rot", ["triangle", "cycle4", "edge"]), ("verts", ["path3", "tailed", "triangle"])):
        c = _build(rng, shapes, range(14), glue="chain")
        out.append(dict(c, T=2, phis=[[1, 2], [3, 8]], keymode=km))
    # T = 0 and the empty network
    c = _build(rng, ["triangle", "edge"], range(5), glue="chain")
    out.append(dict(c, T=0, phis=[[1, 2], [1, 4]]))
    out.append({"motifs": [], "nodes": [], "insert": [], "T": 1, "phis": [[1, 2]]})
    # MANY SWEEPS AT phi = 1 (int and float): on a skeleton with two independent cycles the messages are squared
    # again and again and reach exactly 0.0 as doubles; the iterate is still the specification iterate (C17-r2-1)
    rng = random.Random(1717)
    for kind in ("multi", "multi", "multi", "multi", "uni", "uni", "tree"):
        out.append(_deep_case(rng, kind))
    return out


def generate(rng, tier):
    n = 50 if tier == "quick" else 600
    names = list(SHAPES)
    for _ in range(n):
        k = rng.choice([1, 2, 2, 3, 3, 4, 5])
        shapes = [rng.choice(names) for _ in range(k)]
        # keep the exact rationals small: at most 16 edges in the big motifs
        glue = rng.choice(["chain", "random", "ring", "ring", "disjoint" if k <= 2 else "ring"])
        if glue == "ring" and rng.random() < 0.4:
            shapes = [rng.choice(["edge", "edge", "triangle", "path3"]) for _ in range(rng.randint(3, 6))]
        labels = list(range(24)) + [31, 32, 33, 64, 65, 100, 129, 257, 1000]
        if rng.random() < 0.12:
            # a hub vertex that belongs to 9-12 motifs (more than 8 entries in the done_motifs sets)
            shapes = [rng.choice(["edge", "edge", "triangle", "path3"]) for _ in range(rng.randint(9, 12))]
            glue = "hub"
        c = _build(rng, shapes, labels, glue=glue, extra_nodes=rng.choice([0, 0, 1, 2]),
                   p2=0.0 if glue == "hub" else rng.choice([0.0, 0.3, 0.6]))
        c["decoy"] = rng.random() < 0.4
        T = rng.choice([0, 1, 1, 2, 2, 3]) if glue != "hub" else rng.choice([1, 2])
        bits = 3 if T <= 2 else 2
        case = dict(c, T=T, phis=_phis(rng, rng.randint(1, 6 if T <= 2 else 3), bits))
        if rng.random() < 0.4:
            # the same numbers as int / numpy scalars (phi = 0 and 1 also as integers)
            case["ptypes"] = [rng.choice(PTYPES_INT) if p[1] == 1 else rng.choice(["float", "np.float64"])
                              for p in case["phis"]]
            case["ttype"] = rng.choice(["int", "np.int64", "np.int32"])
        if rng.random() < 0.5:
            case["keymode"] = rng.choice(KEYMODES[1:])
        if rng.random() < 0.4:
            case["fmt"] = rng.choice(FMTS[1:])
        yield _trim(case)
    for _ in range(2 if tier == "quick" else 10):
        yield {"motifs": [], "nodes": [], "insert": [], "T": rng.randint(0, 2), "phis": [[1, 2]]}
    for _ in range(18 if tier == "quick" else 200):
        c = _deep_case(rng)
        if rng.random() < 0.4:
            c["keymode"] = rng.choice(KEYMODES[1:])
            c["fmt"] = rng.choice(FMTS)
        yield c


# ----------------------------------------------------------------- implementation side
KEYMODES = [None, "edges", "index0", "big", "verts", "rot"]
FMTS = [None, "tight", "tuple", "mixed"]


def _label(case, m):
    """the cover label "<key>-[vertices]-[edges]-<uid>".  The key is an integer NAMING the topology (nothing says it
    is the motif's size): case["keymode"] None = TOPO_KEY (cliques by size), "edges" = cliques by their number of
    edges, "index0" = topologies numbered from 0 in the order of their TOPO_KEY, "big" = arbitrary large numbers,
    "verts" = the VERTEX COUNT n for one (preferably non-clique) topology on n vertices, "rot" = the default keys handed
    round among the topologies of the cover;
    case["fmt"] = spelling of the vertex / edge literals (all read alike by ast.literal_eval)."""
    km, fmt = case.get("keymode"), case.get("fmt")
    key = m["key"]
    n, e = len(m["verts"]), len(m["edges"])
    if km == "edges":
        key = e if e == n * (n - 1) // 2 else 100 + key
    elif km == "index0":
        key = sorted({x["key"] for x in case["motifs"]}).index(key)
    elif km == "big":
        key = 1000 + 37 * key
    elif km == "verts":
        # the key n names ONE topology on n vertices, a non-clique one if the cover has any (a chordless 4-cycle keyed 4,
        # a 5-cycle keyed 5): a key that equals the motif's vertex count says nothing about its edges
        def _cl(x):
            return len(x["edges"]) == len(x["verts"]) * (len(x["verts"]) - 1) // 2
        same = [x for x in case["motifs"] if len(x["verts"]) == n]
        pref = sorted({x["key"] for x in same if not _cl(x)}) or sorted({x["key"] for x in same})
        key = n if pref[0] == key else 100 + key
    elif km == "rot":
        # the default keys handed round among the topologies of the cover (a 4-cycle keyed 3, the triangle keyed 40)
        ks = sorted({x["key"] for x in case["motifs"]})
        key = ks[(ks.index(key) + 1) % len(ks)]
    vs = [int(v) for v in m["verts"]]
    es = [(int(a), int(b)) for a, b in m["edges"]]
    if fmt == "tight":
        vtxt = "[" + ",".join(map(str, vs)) + "]"
        etxt = "[" + ",".join("(%d,%d)" % x for x in es) + "]"
    elif fmt == "tuple":
        vtxt = str(tuple(vs))
        etxt = str(tuple(es)) if len(es) > 1 else "[" + str(es[0]) + "]"
    elif fmt == "mixed":
        vtxt, etxt = str(vs), str([list(x) for x in es])
    else:
        vtxt, etxt = str(vs), str(es)
    return f"{key}-{vtxt}-{etxt}-{m['id']}"


def _mk_graph(case):
    import networkx as nx
    G = nx.Graph(note="net")
    G.add_nodes_from(case["nodes"])
    nx.set_node_attributes(G, {v: f"v{v}" for v in case["nodes"]}, "lab")
    labels = {}
    for m in case["motifs"]:
        labels[m["id"]] = _label(case, m)
    for k, (a, b, mid) in enumerate(case["insert"]):
        G.add_edge(a, b, CoverLabel=labels[mid], w=k)
    return G


def _snapshot(G):
    """everything a caller can see of the network, attribute data and iteration orders included"""
    return ([(n, sorted(d.items())) for n, d in G.nodes(data=True)],
            [(a, b, sorted(d.items())) for a, b, d in G.edges(data=True)],
            sorted(G.graph.items()), [(n, list(G.adj[n])) for n in G.nodes()])


def _frac(x):
    f = Fraction(x)
    return [f.numerator, f.denominator]


def _T(case):
    """number of sweeps: T = None means `iterations` is not passed (the documented default 25)"""
    return 25 if case["T"] is None else case["T"]


def _typed(v, typ):
    """the number v in the requested Python / numpy type (int types only for integral v)"""
    if typ in ("int", "float"):
        return int(v) if typ == "int" else float(v)
    import numpy as np
    return {"np.float64": np.float64, "np.int64": np.int64, "np.int32": np.int32}[typ](v)


def _phi_args(case):
    pt = case.get("ptypes") or ["float"] * len(case["phis"])
    return [_typed(num, t) if (den == 1 and t in ("int", "np.int64")) else _typed(num / den, "np.float64" if t == "np.float64" else "float")
            for (num, den), t in zip(case["phis"], pt)]


def _new_mp(G, case, T="case"):
    from gcmpy.message_passing.message_passing import MessagePassing
    T = case["T"] if T == "case" else T
    if T is None:
        return MessagePassing(G)
    return MessagePassing(G, iterations=_typed(T, case.get("ttype", "int")))


def impl(case):
    from gcmpy.message_passing.message_passing import MessagePassing
    G = _mk_graph(case)
    nodes = list(G.nodes())
    sweep = [[i, j, int(G.edges[i, j]["CoverLabel"].split("-")[-1])] for i, j in G.edges()]
    decoy = None
    if case.get("decoy") and case["motifs"]:
        # a second object alive at the same time: same vertex sets and motif IDs, but every motif is a path
        dm = [dict(m, edges=[[m["verts"][i], m["verts"][i + 1]] for i in range(len(m["verts"]) - 1)]) for m in case["motifs"]]
        dcase = dict(case, motifs=dm, insert=[[e[0], e[1], m["id"]] for m in dm for e in m["edges"]])
        decoy = MessagePassing(_mk_graph(dcase), iterations=max(1, _T(case)))
    mp = _new_mp(G, case)
    hist = []
    pure = 1
    args = _phi_args(case)
    for phi in args:
        if decoy is not None:
            decoy.theoretical(0.375)
        before = _snapshot(G)
        hist.append(_frac(mp.theoretical(phi)))
        if _snapshot(G) != before:
            pure = 0
    fresh = []
    for phi in args:
        fresh.append(_frac(_new_mp(_mk_graph(case), case).theoretical(phi)))
    return {"nodes": nodes, "sweep": sweep, "hist": hist, "fresh": fresh, "pure": pure}


# ----------------------------------------------------------------- model side
def _net_tree(case, obs):
    return [obs["nodes"], obs["sweep"], [[m["id"], m["verts"], m["edges"]] for m in case["motifs"]]]


def model_calls(case, impl_obs):
    if core.is_exc(impl_obs):
        obs = {"nodes": case["nodes"], "sweep": case["insert"]}
    else:
        obs = impl_obs
    return [("c17_run", _net_tree(case, obs) + [_T(case), case["phis"]])]


def model_obs(case, raws):
    r = raws[0]
    if r and r[0] == -1:
        return ["!err", r[1]]
    return [[v[0], v[1]] for v in r]


def compare(case, impl_obs, model):
    if model and model[0] == "!err":
        if core.is_exc(impl_obs):
            if not case["nodes"] and impl_obs[1] != "ZeroDivisionError":
                return f"empty network: expected ZeroDivisionError, got {impl_obs[1]}"
            return None
        return f"model rejects the network (code {model[1]}), implementation returned values"
    if core.is_exc(impl_obs):
        return f"implementation raised {impl_obs[1]}"
    if len(model) != len(impl_obs["hist"]):
        return "length mismatch"
    if not impl_obs.get("pure", 1):
        return "the caller's network (nodes / edges / attribute data / iteration order) was modified by theoretical()"
    for k, (h, f, m) in enumerate(zip(impl_obs["hist"], impl_obs["fresh"], model)):
        q = Fraction(m[0], m[1])
        if not core.close(Fraction(h[0], h[1]), q):
            return f"query {k} (phi={case['phis'][k]}): object returned {float(Fraction(*h))!r}, model {float(q)!r}"
        if not core.close(Fraction(f[0], f[1]), q):
            return f"query {k} (phi={case['phis'][k]}): fresh object returned {float(Fraction(*f))!r}, model {float(q)!r}"
    return None


def check_calls(case, impl_obs):
    if core.is_exc(impl_obs) or not case["nodes"]:
        return []
    net = _net_tree(case, impl_obs)
    return [("c17_check", net + [_T(case), [[p, v] for p, v in zip(case["phis"], impl_obs["hist"])]]),
            ("c17_check", net + [_T(case), [[p, v] for p, v in zip(case["phis"], impl_obs["fresh"])]]),
            ("c17_check_motifs", net),
            ("c17_check_table", net)]


def check_verdict(case, impl_obs, raws):
    if not case["nodes"]:
        return None  # outside the property (no vertex to average over)
    if core.is_exc(impl_obs):
        return f"implementation raised {impl_obs[1]} on a cover-labelled network the property covers"
    if raws[0] != 1:
        return ("answers of the queried object violate the property (c17_check: each within 1e-9 of the specification "
                f"iterate, in [0,1], 0 at phi=0, non-decreasing in phi); phis={case['phis']} "
                f"values={[float(Fraction(*v)) for v in impl_obs['hist']]}")
    if raws[1] != 1:
        return "answers of fresh objects violate the property (c17_check)"
    if raws[2] != 1:
        return "a motif equation of the network is not the exact expectation, or the cover precondition fails (c17_check_motifs)"
    if raws[3] != 1:
        return ("a precondition of the table-based specification fails (c17_check_table: table_okb - motif IDs of the table "
                "pairwise distinct and every edge of every table motif present in the observed G.edges() with that "
                "motif's ID -, cover_okb, net_okb, pairwise_okb), so the returned values are not tied to the message equations over "
                "the motif table")
    return None


def nontrivial_key(case, impl_obs):
    if core.is_exc(impl_obs) or _T(case) < 1:
        return None
    cnt = {}
    for m in case["motifs"]:
        for v in m["verts"]:
            cnt[v] = cnt.get(v, 0) + 1
    if not any(c >= 2 for c in cnt.values()):
        return None
    if not any(0 < Fraction(*p) < 1 or (p[0] == p[1] and _T(case) >= 4) for p in case["phis"]):
        return None
    return [case["motifs"], case["insert"], case["nodes"], case["T"], case["phis"], case.get("ptypes"), case.get("ttype"),
            case.get("keymode"), case.get("fmt")]


def shrink(case):
    ms = case["motifs"]
    for i in range(len(ms)):
        keep = ms[:i] + ms[i + 1:]
        ids = {m["id"] for m in keep}
        vs = {v for m in keep for v in m["verts"]}
        yield dict(case, motifs=keep, insert=[e for e in case["insert"] if e[2] in ids],
                   nodes=[v for v in case["nodes"] if v in vs] or case["nodes"][:1])
    for i in range(len(case["phis"])):
        if len(case["phis"]) > 1:
            d = dict(case, phis=case["phis"][:i] + case["phis"][i + 1:])
            if case.get("ptypes"):
                d["ptypes"] = case["ptypes"][:i] + case["ptypes"][i + 1:]
            yield d
    if case["T"] is not None and case["T"] > 1:
        yield dict(case, T=case["T"] - 1)
    if case.get("decoy"):
        yield dict(case, decoy=False)
    if case.get("fmt"):
        yield dict(case, fmt=None)


def describe(case, impl_obs):
    d = {"motifs": [(m["key"], m["verts"]) for m in case["motifs"]], "T": case["T"], "phis": case["phis"],
         "phi_types": case.get("ptypes"), "iterations_type": case.get("ttype", "int"),
         "keys": case.get("keymode") or "TOPO_KEY", "label_literals": case.get("fmt") or "list"}
    if not core.is_exc(impl_obs):
        d["values"] = [float(Fraction(*v)) for v in impl_obs["hist"]]
        d["sweep_order"] = impl_obs["sweep"][:8]
    return d


def histogram(cases):
    h = {"networks": len(cases), "queries": 0}
    for c in cases:
        h["queries"] += len(c["phis"])
        k = f"motifs{len(c['motifs'])}"
        h[k] = h.get(k, 0) + 1
        k = f"T{c['T']}"
        h[k] = h.get(k, 0) + 1
        for t in c.get("ptypes") or []:
            h["phi as " + t] = h.get("phi as " + t, 0) + 1
        if any(p[0] == p[1] for p in c["phis"]) and _T(c) >= 8:
            h["phi=1 with >= 8 sweeps"] = h.get("phi=1 with >= 8 sweeps", 0) + 1
        for m in c["motifs"]:
            k = f"key{m['key']}"
            h[k] = h.get(k, 0) + 1
    return h
