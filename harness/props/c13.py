"""C13 — mixing matrices extracted from a network (JointExcessJointDegree.get_ejks, called
1..4 times on ONE extractor object; JointExcessDegree.get_ejk) vs Model/Mixing.v."""
import json
from fractions import Fraction

from harness import core

ID = "C13"
RULE = ("random simple annotated networks with <= 10 vertices and 1-3 topologies (arbitrary name strings, "
        "2-clique-like, triangle-like and deliberately inconsistent annotations, forced self-paired classes, edges "
        "of a topology that is not asked for, asked topologies without edges; one random case in seven has annotations "
        "with MORE components than requested names); get_ejks() is called 1-4 times on "
        "one extractor and every returned object is re-read after the last call; exhaustive over all graphs on "
        "<= 4 vertices with one topology; non-trivial = at least two calls on a network with >= 2 edges of an asked "
        "topology; distinct by (names, annotations, edges, calls)")
EXHAUSTIVE = {"quick": True, "thorough": True}
EXPLANATION = ("general theorems (every annotated network, every number of calls) in Props/C13.v; correspondence on "
               "all one-topology graphs with <= 4 vertices plus seeded random networks; the verified checker "
               "c13_check (tuple length taken from the annotations, >= number of requested names) recounts the ordered "
               "edge ends and judges the implementation's matrices (tolerance 1e-9 "
               "for float rounding, exact equality between successive calls)")
ASSUMPTIONS = ["networkx Graph.edges()/nodes()/degree() enumerate the simple graph that was built (order irrelevant: "
               "matrices are compared as key -> value maps)",
               "float results are compared with exact rationals within 1e-9"]
TRUSTED = ["float -> exact Fraction conversion of the implementation's matrix entries before c13_check"]
PARTIAL = ['repeatability (C13_repeat) holds by construction of the model, which mirrors the fixed code (the counter is reset on every extraction); a regression of that reset is caught by the correspondence (several extractions on one object), not by a theorem']
TECHNIQUE = "Coq proof (finite sums over Q, induction over the call history) + model/implementation correspondence"
LEVEL_TEXT = (
    "General theorems in coq/Props/C13.v for every annotated network (any size, any number of topologies): each "
    "matrix entry of the model equals #ordered edge ends (own excess a, partner excess b) / (2 E_t); the matrix is "
    "symmetric, sums to 1 when E_t > 0, its row sums are the excess distribution of the topology, its keys are "
    "exactly the occurring ordered pairs; for every number of calls on one extractor (and every initial counter "
    "state) the n-th call returns the first call's matrices; the same law for the overall-degree variant. "
    "c13_checkb is proved equivalent to the Prop-level specification. The wire checker c13_check runs the "
    "generalisation c13_checkb_gen, whose tuple length T is the common length of the ANNOTATIONS (T >= number of "
    "requested names: the extractor may be asked for a prefix of the network's topologies): proved equivalent to "
    "the specification C13_spec_T for that T (C13_checker_gen_iff, _iff_ex), equal to the old checker on the old "
    "domain and accepting whatever it accepted (C13_checker_gen_old_domain, _extends); the model satisfies "
    "C13_spec_T exactly and passes the checker for every T >= number of names, every counter state and number of "
    "calls (C13_model_satisfies_spec_T, C13_model_passes_checker_gen) and does not raise there. The entry / "
    "symmetry / sum / row-sum / key theorems were already stated for every T. It is run on the implementation's "
    "outputs, incl. cases whose annotations have more components than names.")
LEVEL_NOTE = ("Trusted: Coq kernel; extraction + OCaml driver + Python harness for the correspondence; float entries "
              "judged with tolerance 1e-9. Duplicate topology names in edge_names are outside the model "
              "(the generators use distinct names). No axioms.")

EPS = [1, 10 ** 9]
NAMES = ["2-clique", "3-clique", "2-clique-blue", "red", "t", "4-cycle", "b", "a", "x y", "2-clique "]


# ------------------------------------------------------------------ cases
def _mk(names, jds, edges, ncalls):
    return {"names": list(names), "jds": [list(k) for k in jds], "edges": [list(e) for e in edges], "ncalls": ncalls}


def corpus():
    cs = []
    # DESIGN section 3 replay: two calls on one extractor (second result summed to 1/2 on the pinned tree)
    cs.append(_mk(["2-clique", "3-clique"],
                  [[1, 2], [1, 2], [0, 2], [1, 0], [1, 0]],
                  [[0, 1, 1], [1, 2, 1], [0, 2, 1], [0, 3, 0], [1, 4, 0]], 2))
    # a self-paired class only
    cs.append(_mk(["a"], [[1], [1]], [[0, 1, 0]], 3))
    # asked topology without edges, unasked topology with edges
    cs.append(_mk(["red", "b"], [[1, 0], [1, 0], [0, 0]], [[0, 1, 0], [1, 2, 2]], 2))
    # no vertices at all / no edges
    cs.append(_mk(["t"], [], [], 1))
    cs.append(_mk(["t"], [[0], [0]], [], 2))
    # annotation shorter than the name list -> IndexError in the constructor
    cs.append(_mk(["a", "b"], [[1], [1]], [[0, 1, 0]], 1))
    # annotations with MORE components than requested names (Props/C13.v ex_net3; seeded change C13-r4-3 truncates
    # the excess tuples here): keys keep all 3 components
    cs.append(_mk(["2-clique", "3-clique"],
                  [[1, 1, 2], [1, 1, 0], [0, 1, 1], [1, 0, 0], [1, 0, 1]],
                  [[0, 1, 1], [1, 2, 1], [0, 2, 1], [0, 3, 0], [1, 4, 0], [2, 4, 2]], 2))
    return cs


def _rand_net(rng, big=False):
    nt = rng.choice([1, 1, 2, 2, 3])
    names = rng.sample(NAMES, nt)
    n = rng.randint(2, 14 if big else 10)
    style = rng.choice(["edges", "edges", "tri", "wild", "paired"])
    pairs = [(u, v) for u in range(n) for v in range(u + 1, n)]
    rng.shuffle(pairs)
    extra = 1 if rng.random() < 0.25 else 0      # a topology index that is not in names
    edges = []
    if style == "tri":
        # triangle-like motifs for topology 0 (annotation counts motifs: degree = 2 * jd), plain edges otherwise
        used = set()
        vs = list(range(n))
        rng.shuffle(vs)
        jd = [[0] * nt for _ in range(n)]
        for j in range(0, n - 2, 3):
            if rng.random() < 0.8:
                a, b, c = vs[j], vs[j + 1], vs[j + 2]
                for (x, y) in ((a, b), (b, c), (a, c)):
                    edges.append([min(x, y), max(x, y), 0])
                    used.add((min(x, y), max(x, y)))
                for x in (a, b, c):
                    jd[x][0] += 1
        for (u, v) in pairs[: rng.randint(0, n)]:
            if (u, v) in used or nt == 1:
                continue
            t = rng.randint(1, nt - 1 + extra)
            edges.append([u, v, t])
            if t < nt:
                jd[u][t] += 1
                jd[v][t] += 1
        jds = jd
    else:
        m = rng.randint(0, min(len(pairs), 2 * n if big else n + 4))
        for (u, v) in pairs[:m]:
            edges.append([u, v, rng.randint(0, nt - 1 + extra)])
        jds = [[0] * nt for _ in range(n)]
        for u, v, t in edges:
            if t < nt:
                jds[u][t] += 1
                jds[v][t] += 1
        if style == "wild":
            jds = [[rng.randint(0, 3) for _ in range(nt)] for _ in range(n)]
        elif style == "paired":
            # few distinct annotations => many self-paired classes
            pool = [[rng.randint(1, 2) for _ in range(nt)] for _ in range(2)]
            jds = [list(rng.choice(pool)) for _ in range(n)]
    if rng.random() < 0.5:
        rng.shuffle(edges)
    edges = [[v, u, t] if rng.random() < 0.3 else [u, v, t] for u, v, t in edges]
    return _mk(names, jds, edges, rng.choice([1, 2, 2, 3, 4]))


def _exhaustive(maxn):
    import itertools
    for n in range(2, maxn + 1):
        pairs = [(u, v) for u in range(n) for v in range(u + 1, n)]
        for mask in range(1, 2 ** len(pairs)):
            es = [[u, v, 0] for b, (u, v) in enumerate(pairs) if mask >> b & 1]
            jds = [[sum(1 for e in es if x in e[:2])] for x in range(n)]
            yield _mk(["2-clique"], jds, es, 2)
            if n <= 3:
                for ann in itertools.product([1, 2], repeat=n):
                    yield _mk(["e"], [[a] for a in ann], es, 2)


def generate(rng, tier):
    yield from _exhaustive(4)
    nrand = 500 if tier == "quick" else 6000
    for j in range(nrand):
        c = _rand_net(rng, big=(tier != "quick" and j % 5 == 0))
        if j % 7 == 3 and c["jds"]:
            # the annotations have MORE components than topology names were requested: the matrices of the requested
            # topologies must not depend on that (excess tuples keep every component)
            extra = rng.randint(1, 2)
            for jd in c["jds"]:
                jd.extend(rng.randint(0, 2) for _ in range(extra))
        yield c
    # malformed stream: one annotation too short
    for _ in range(20 if tier == "quick" else 200):
        c = _rand_net(rng)
        if len(c["names"]) >= 2 and c["jds"]:
            c["jds"][rng.randrange(len(c["jds"]))].pop()
            yield c


# ------------------------------------------------------------------ implementation
def _fr(x):
    f = Fraction(x)
    return [f.numerator, f.denominator]


def _dict_obs(d):
    return sorted([[list(k), _fr(v)] for k, v in d.items()])


def _tname(case, t):
    return case["names"][t] if t < len(case["names"]) else "other-%d" % t


def _snapshot(case, r):
    out = []
    for name in r.ejks:
        out.append([case["names"].index(name), _dict_obs(r.ejks[name])])
    return out


def build_graph(case):
    """vertices are inserted in a case-dependent ORDER and carry case-dependent integer LABELS (neither contiguous nor
    in insertion order for two thirds of the cases): vertex identity must never be confused with position."""
    import networkx as nx
    import random as _r
    G = nx.Graph()
    from gcmpy.names.network_names import NetworkNames
    n = len(case["jds"])
    h = _r.Random(hash(json.dumps([case["jds"], case["edges"]])) & 0xFFFFFFF)
    mode = h.randrange(3)
    order = list(range(n))
    label = list(range(n))
    if mode >= 1:
        h.shuffle(order)
    if mode == 2:
        label = h.sample(range(0, 3 * n + 5), n)
    # the annotation is a tuple (as the library's generators write it) or, in a third of the cases, a LIST (as a
    # network read back from JSON / built by hand carries it): the extractors must not work in place on it
    as_list = h.random() < 0.34
    for v in order:
        G.add_node(label[v], tag="v%d" % v)
        G.nodes[label[v]][NetworkNames.JOINT_DEGREE] = list(case["jds"][v]) if as_list else tuple(case["jds"][v])
    for i, (u, v, t) in enumerate(case["edges"]):
        G.add_edge(label[u], label[v], w=i)
        G.edges[label[u], label[v]][NetworkNames.TOPOLOGY] = _tname(case, t)
    return G


def add_disjoint_copy(G):
    """adds a relabelled disjoint copy of the whole annotated network IN PLACE (still clean, same joint degrees, twice
    the edges of every topology); returns the new vertices so that the caller can remove them again"""
    nodes = list(G.nodes())
    off = max([v for v in nodes if isinstance(v, int)] + [0]) + 1000
    new = {v: off + i for i, v in enumerate(nodes)}
    for v in nodes:
        G.add_node(new[v])
        G.nodes[new[v]].update({k: (list(x) if isinstance(x, list) else x) for k, x in G.nodes[v].items()})
    for u, v, d in list(G.edges(data=True)):
        if u in new and v in new:
            G.add_edge(new[u], new[v])
            G.edges[new[u], new[v]].update(dict(d))
    return [new[v] for v in nodes]


def extractor_with_history(case, G):
    """the extractor under test; in a third of the cases it has a HISTORY: it was created on, and asked about, a larger
    network (the network plus a disjoint copy of itself); the caller then removed the copy in place.  Every answer it
    gives afterwards must describe the network as it is now (edge counts remembered from before are stale)"""
    from gcmpy.names.tools_names import ToolsNames
    from gcmpy.tools.joint_excess_joint_degree import JointExcessJointDegree
    hist = (len(case["edges"]) + 2 * len(case["jds"])) % 3 == 0 and G.number_of_nodes() > 0
    copies = add_disjoint_copy(G) if hist else []
    X = JointExcessJointDegree({ToolsNames.NETWORK: G, ToolsNames.EDGE_NAMES: list(case["names"])})
    if hist:
        X.get_ejks()
        G.remove_nodes_from(copies)
    return X


def impl(case):
    from gcmpy.names.tools_names import ToolsNames
    from gcmpy.tools.joint_excess_degree import JointExcessDegree
    from gcmpy.tools.joint_excess_joint_degree import JointExcessJointDegree
    G = build_graph(case)
    X = extractor_with_history(case, G)
    objs, calls = [], []
    for _ in range(case["ncalls"]):
        r = X.get_ejks()
        objs.append(r)
        calls.append(_snapshot(case, r))
    again = [_snapshot(case, r) for r in objs]
    # a result handed out earlier is the caller's: the caller now edits the network in place (last edge removed) and
    # extracts again with the same extractor, then puts the edge back -- the EARLIER result must still say what it said
    kept = []
    if G.number_of_edges() > 0:
        u, v, data = list(G.edges(data=True))[-1]
        data = dict(data)
        G.remove_edge(u, v)
        try:
            X.get_ejks()
        except Exception:  # noqa: BLE001 - only the earlier result is judged here
            pass
        G.add_edge(u, v)
        G.edges[u, v].update(data)
        kept = [_snapshot(case, objs[-1])]
    # the PUBLIC per-topology path on a second extractor: count_edge_types() + get_ejk(i, name), asked three times
    # (counted, asked again without recounting, recounted) -- every answer must be the same matrices
    X2 = JointExcessJointDegree({ToolsNames.NETWORK: G, ToolsNames.EDGE_NAMES: list(case["names"])})
    direct = []
    for rnd in range(3):
        if rnd != 1:
            X2.count_edge_types()
        direct.append([[i, _dict_obs(X2.get_ejk(i, name))] for i, name in enumerate(case["names"])])
    last = objs[-1]
    xk = [[case["names"].index(name), sorted(list(k) for k in last.excess_degree_keys[name])]
          for name in last.excess_degree_keys]
    xk_dups = any(len(set(map(tuple, ks))) != len(ks) for _, ks in xk)
    # history on ONE graph object for the overall-degree variant: it is first asked about the graph with its last edge
    # missing, the caller then adds that edge IN PLACE and asks again (a result memoised per graph object would be stale);
    # the caller also damages the first answer
    if G.number_of_edges() > 0 and len(case["edges"]) % 2 == 0:
        u, v, data = list(G.edges(data=True))[-1]
        data = dict(data)
        G.remove_edge(u, v)
        try:
            first = JointExcessDegree.get_ejk(G)
            if isinstance(first, dict):
                first.clear()
        except Exception:  # noqa: BLE001 - only the second answer is judged
            pass
        G.add_edge(u, v)
        G.edges[u, v].update(data)
    plain = _dict_obs(JointExcessDegree.get_ejk(G))
    return {"calls": calls, "again": again, "direct": direct + kept, "xkeys": xk, "xkeys_dups": xk_dups, "plain": plain,
            "tnames": list(last.topology_names)}


# ------------------------------------------------------------------ model side
def _net_tree(case):
    return [list(range(len(case["names"]))), case["jds"], case["edges"]]


def model_calls(case, impl_obs):
    return [("c13_run", _net_tree(case) + [case["ncalls"]])]


def _dec_dict(t):
    return sorted([[k, Fraction(v[0], v[1])] for k, v in t])


def model_obs(case, raws):
    r = raws[0]
    if isinstance(r, str):
        return ["!model", r]
    if len(r) == 2 and r[0] == -1:
        return ["!exc", {1: "IndexError"}.get(r[1], "?")]
    calls, xk, plain = r
    return {"calls": [[[n, _dec_dict(m)] for n, m in c] for c in calls],
            "xkeys": [[n, sorted(ks)] for n, ks in xk], "plain": _dec_dict(plain)}


def _cmp_dict(obs, mod, what):
    if [k for k, _ in obs] != [k for k, _ in mod]:
        return f"{what}: keys differ impl {[k for k, _ in obs]} model {[k for k, _ in mod]}"
    for (k, v), (_, q) in zip(obs, mod):
        if not core.close(Fraction(v[0], v[1]), q):
            return f"{what}: key {k} impl {float(Fraction(v[0], v[1]))} model {q}"
    return None


def compare(case, io, mo):
    if core.is_exc(io) or core.is_exc(mo):
        return None if io == mo else f"impl {io} model {mo}"
    if isinstance(mo, list):
        return f"model failed: {mo}"
    if io["tnames"] != case["names"]:
        return f"topology_names {io['tnames']}"
    for tag in ("calls", "again", "direct"):
        ref = mo["calls"] if tag != "direct" else [mo["calls"][0]] * len(io[tag])
        if len(io[tag]) != len(ref):
            return f"{tag}: {len(io[tag])} results, model {len(mo['calls'])}"
        for ci, (a, b) in enumerate(zip(io[tag], ref)):
            if [n for n, _ in a] != [n for n, _ in b]:
                return f"{tag}[{ci}]: topologies impl {[n for n, _ in a]} model {[n for n, _ in b]}"
            for (n, da), (_, db) in zip(a, b):
                d = _cmp_dict(da, db, f"{tag}[{ci}] topology {case['names'][n]}")
                if d:
                    return d
    if io["xkeys_dups"] or io["xkeys"] != mo["xkeys"]:
        return f"excess_degree_keys impl {io['xkeys']} model {mo['xkeys']}"
    return _cmp_dict(io["plain"], mo["plain"], "overall-degree matrix")


# ------------------------------------------------------------------ verified checker on the implementation's output
def _valid(case):
    """domain of the verified checker c13_checkb_gen: all annotations have ONE length, at least the number of
    requested names (more components than names is legal: the extractor is asked for a prefix of the topologies)"""
    T = len(case["names"])
    lens = {len(k) for k in case["jds"]}
    return len(lens) <= 1 and all(n >= T for n in lens)


def check_calls(case, io):
    if core.is_exc(io) or not _valid(case):
        return []
    return [("c13_check", _net_tree(case) + [EPS, io["calls"] + io["again"] + io["direct"], io["xkeys"], io["plain"]])]


def check_verdict(case, io, raws):
    if core.is_exc(io):
        if _valid(case):
            return f"implementation raised {io[1]} on a valid annotated network"
        return None
    if not _valid(case):
        return None
    return None if raws and raws[0] == 1 else \
        "c13_check rejected the observed matrices (entry = #ordered ends / 2E, keys, repeatability, excess keys)"


def nontrivial_key(case, io):
    if core.is_exc(io) or case["ncalls"] < 2:
        return None
    asked = sum(1 for e in case["edges"] if e[2] < len(case["names"]))
    return [case["names"], case["jds"], case["edges"], case["ncalls"]] if asked >= 2 else None


def shrink(case):
    es = case["edges"]
    for i in range(len(es)):
        yield dict(case, edges=es[:i] + es[i + 1:])
    if case["ncalls"] > 1:
        yield dict(case, ncalls=case["ncalls"] - 1)
    n = len(case["jds"])
    if n and not any(n - 1 in e[:2] for e in es):
        yield dict(case, jds=case["jds"][:-1])
    nt = len(case["names"])
    if nt > 1 and not any(e[2] >= nt - 1 for e in es):
        yield dict(case, names=case["names"][:-1], jds=[k[:nt - 1] + k[nt:] for k in case["jds"]])


def describe(case, io):
    return {"names": case["names"], "n": len(case["jds"]), "edges": case["edges"][:8], "ncalls": case["ncalls"],
            "first_matrix": (io["calls"][0][0] if not core.is_exc(io) and io["calls"] and io["calls"][0] else io)}


def histogram(cases):
    h = {"cases": len(cases)}
    for c in cases:
        h["calls=%d" % c["ncalls"]] = h.get("calls=%d" % c["ncalls"], 0) + 1
        h["topologies=%d" % len(c["names"])] = h.get("topologies=%d" % len(c["names"]), 0) + 1
        nv = len(c["jds"])
        h["n<=4" if nv <= 4 else "n<=10" if nv <= 10 else "n>10"] = h.get(
            "n<=4" if nv <= 4 else "n<=10" if nv <= 10 else "n>10", 0) + 1
    return h
