"""C04 — EdgeListToNetwork / NetworkToEdgeList vs Model/Conv.v."""
import copy

from harness import oracles
from harness.core import is_exc

ID = "C04"
RULE = ("random light-weight edge lists: N<=8 vertices incl. joint degree zero, <=12 rows with self-loops, repeated and "
        "reversed pairs, occasionally vertices >= N or short name/id columns (malformed stream), plus lists produced by "
        "the real fast generator under scripted shuffles; a quarter of the cases are HISTORIES (convert, caller damages the "
        "returned network and grows the edge-list object in place, convert the same object again); another quarter (and "
        "the first 40 cases) are ALIAS histories (a result must not alias its input, both directions): after edge list -> "
        "network the caller changes its edge list in place (rows / names / ids / jds entries appended, removed, replaced, "
        "reversed, cleared) and the network is observed again; after network -> edge list the network is changed in place "
        "(Network.remove_edge / add_edge, G.remove_edge / add_edge, annotations re-assigned, vertices removed / added, "
        "graph cleared or replaced through the G setter) and the edge list returned BEFORE is observed again and converted "
        "to a network once more; every re-observed result is judged by c04_check against the original list; observed: node set with annotations, edge set with both "
        "attributes, reverse conversion or its exception class, input object unchanged; non-trivial = list with >=2 rows "
        "and at least one vertex of degree zero or a repeated/reversed pair; distinct by full input")
EXHAUSTIVE = {"quick": False, "thorough": False}
EXPLANATION = ("general theorems for every edge list in Props/C04.v (network spec, checker soundness, round trip both "
               "ways; the meaning of the round-trip judge check_roundtrip as an equivalence; back conversion of EVERY "
               "well-formed list incl. repeated / reversed pairs and self-loops; KeyError lemma for vertices >= N); "
               "correspondence on random and generator-produced lists; c04_check judges the real graph")
ASSUMPTIONS = ["networkx Graph.add_nodes_from/add_edges_from/set_node_attributes/set_edge_attributes/edges()/nodes() "
               "behave as modelled (their results are compared with the model on every case; their code is not verified)",
               "Python dict iteration = first-insertion order (modelled in dict_set/apply_dict)"]
TRUSTED = []
TECHNIQUE = "Coq proof (general theorems over all edge lists) + model/implementation correspondence + verified checker"
LEVEL_TEXT = (
    "General theorems (coq/Props/C04.v): for every edge list the modelled network satisfies Spec_net (one vertex per "
    "jds entry incl. degree zero, annotation, edge iff pair occurs, a pair occurring once keeps its row's name and id); "
    "the executable checker check_net is sound for Spec_net; for every simple list the back conversion returns the "
    "normalised list (same jds, same annotated edge set) and converting again gives the same network. "
    "Round-trip judge: check_roundtrip el el' = true <-> same jds, same number of rows and the same SET of normalised "
    "annotated rows (C04_roundtrip_checker_iff); for simple el <-> same jds and the normalised rows are a permutation "
    "of each other; it accepts the modelled back conversion of every simple list. "
    "General round trip (C04_roundtrip_general, _general_spec): for EVERY list with parallel columns and vertices "
    "below N (repeated and reversed pairs, self-loops allowed) the back conversion succeeds, returns the same joint "
    "degree sequence and exactly one row per unordered pair of the list (normalised orientation, order of first "
    "occurrence, no pair twice), carrying the attribute the network holds for the pair (final_attr), which is always "
    "the name and id of one of the rows naming that pair and precisely the row's when the pair occurs once. "
    "Error lemma (C04_back_conversion_error, C04_run_error): when an edge names a vertex >= N the back conversion "
    "returns the model's KeyError value, whatever else the list contains. The model is "
    "tied to gcmpy/network/*.py by comparing node set, annotations, attributed edge set and the reverse conversion "
    "(or its exception) on random and generator-made lists; c04_check runs on the real networkx graph.")
LEVEL_NOTE = ("Trusted: Coq kernel; extraction + OCaml driver + Python harness; networkx primitives modelled, not "
              "verified (results compared on every case). No axioms. For lists with repeated pairs WHICH of the "
              "competing rows' attributes survives is the modelled Python-dict order (final_attr; proved to be one of "
              "them, C04_final_attr_is_a_row); the verified checker c04_check judges the real back conversion for "
              "simple lists only - on non-simple lists the real back conversion is compared with the model's "
              "(correspondence), about which the general theorems speak.")


def corpus():
    return [
        {"jds": [[1], [0], [1], [0]], "edges": [[0, 2]], "names": [0], "ids": [0]},
        {"jds": [[1], [1], [1]], "edges": [[1, 2], [2, 1], [1, 2]], "names": [0, 1, 2], "ids": [0, 1, 2]},
        {"jds": [[0, 0], [0, 0]], "edges": [], "names": [], "ids": []},
        {"jds": [[2], [2]], "edges": [[1, 1], [0, 0]], "names": [1, 1], "ids": [0, 1]},
        # a result must not alias its input: the network loses its first and last edge after it was converted to an
        # edge list (a rewiring step), the caller's edge list gets another row / another annotation after it was
        # converted to a network; both results are observed again and the edge list is converted once more
        {"jds": [[2, 1], [1, 1], [1, 1], [0, 0], [2, 0]], "edges": [[0, 1], [1, 2], [2, 0], [0, 4], [4, 2]],
         "names": [1, 1, 1, 0, 0], "ids": [0, 0, 0, 1, 2],
         "alias": {"el_ops": [["append_row", 0, 3, 4, 2, 31, [5, 5]], ["replace_name", 1, 0, 0, 3, 32, [5, 5]]],
                   "net_ops": [["net_remove_edge", 0, 0, 0, 0, 40, [4, 4]], ["g_remove_edge", 3, 0, 0, 0, 40, [4, 4]]]}},
        {"jds": [[1], [1], [2], [0]], "edges": [[0, 2], [2, 1]], "names": [0, 1], "ids": [3, 4],
         "alias": {"el_ops": [["replace_jd", 0, 3, 0, 0, 30, [7]], ["pop_row", 1, 0, 0, 0, 30, [7]]],
                   "net_ops": [["g_add_edge", 0, 0, 3, 2, 41, [4]], ["set_topology", 0, 0, 0, 4, 41, [4]]]}},
    ]


def _rand_case(rng, malformed):
    N = rng.randint(1, 8)
    T = rng.randint(1, 3)
    rows = rng.randint(0, 12)
    edges = []
    hi = N - 1 if not malformed or rng.random() < 0.5 else N + rng.randint(0, 2)
    for _ in range(rows):
        r = rng.random()
        if edges and r < 0.15:
            e = list(rng.choice(edges))
        elif edges and r < 0.3:
            e = list(reversed(rng.choice(edges)))
        elif r < 0.38:
            v = rng.randint(0, hi)
            e = [v, v]
        else:
            e = [rng.randint(0, hi), rng.randint(0, hi)]
        edges.append(e)
    names = [rng.randint(0, T - 1) for _ in edges]
    ids = [rng.randint(0, max(1, rows // 2)) for _ in edges]
    if malformed and edges and rng.random() < 0.4:
        if rng.random() < 0.5:
            names = names[: rng.randint(0, len(names) - 1)]
        else:
            ids = ids[: rng.randint(0, len(ids) - 1)]
    jds = [[rng.randint(0, 3) for _ in range(T)] for _ in range(N)]
    return {"jds": jds, "edges": edges, "names": names, "ids": ids}


def _simple_case(rng):
    """a list as the generators produce it on a simple graph: no repeated unordered pair"""
    c = _rand_case(rng, False)
    seen = set()
    keep = []
    for i, e in enumerate(c["edges"]):
        k = (min(e), max(e))
        if k in seen:
            continue
        seen.add(k)
        keep.append(i)
    c["edges"] = [c["edges"][i] for i in keep]
    c["names"] = [c["names"][i] for i in keep]
    c["ids"] = [c["ids"][i] for i in keep]
    return c


def _generated_case(rng):
    """run the real fast generator (2- and 3-cliques) under a scripted shuffle and feed its edge list"""
    from gcmpy.gcm_algorithm.gcm_algorithm_fast import GCMAlgorithmFast
    from gcmpy.names.gcm_algorithm_names import GCMAlgorithmNames
    from gcmpy.motif_generators.clique_motif import clique_motif
    N = rng.randint(2, 8)
    jds = [(rng.randint(0, 2), rng.randint(0, 1)) for _ in range(N)]
    s0 = sum(j[0] for j in jds)
    s1 = sum(j[1] for j in jds)
    jds[0] = (jds[0][0] + (-s0) % 2, jds[0][1] + (-s1) % 3)
    params = {GCMAlgorithmNames.MOTIF_SIZES: [2, 3], GCMAlgorithmNames.BUILD_FUNCTIONS: [clique_motif, clique_motif],
              GCMAlgorithmNames.EDGE_NAMES: ["t0", "t1"]}
    perms = []
    for k in range(2):
        n = sum(j[k] for j in jds)
        p = list(range(n))
        rng.shuffle(p)
        perms.append(("shuffle", p))
    with oracles.scripted(oracles.Script(perms)):
        el = GCMAlgorithmFast(params).random_clustered_graph(jds)
    return {"jds": [list(j) for j in jds], "edges": [list(e) for e in el.edge_list],
            "names": [int(t[1:]) for t in el.topologies], "ids": list(el.motif_id)}


def _with_second(rng, c):
    """history: convert, let the caller mutate the returned network and grow the edge list IN PLACE, convert the
    same edge-list object again"""
    N = len(c["jds"])
    extra = []
    for _ in range(rng.randint(0, 3)):
        extra.append([rng.randint(0, N - 1), rng.randint(0, N - 1)])
    c["second"] = {"append_edges": extra, "append_names": [rng.randint(0, 2) for _ in extra],
                   "append_ids": [rng.randint(20, 25) for _ in extra],
                   "damage_first_result": rng.random() < 0.7}
    return c


_EL_OPS = ["append_row", "pop_row", "replace_pair", "replace_name", "replace_id", "replace_jd", "append_jd",
           "reverse_rows", "clear_rows", "pop_jd"]
_NET_OPS = ["net_remove_edge", "g_remove_edge", "g_add_edge", "net_add_edge", "set_topology", "set_motif_id", "set_jd",
            "remove_node", "add_node", "clear", "replace_graph"]


def _with_alias(rng, c):
    """history 'a result must not alias its input': after each conversion the caller changes the INPUT object in place
    (edge list: rows / annotations / jds entries appended, removed, replaced; network: edges removed or added through
    Network.remove_edge / G.remove_edge / G.add_edge / Network.add_edge, annotations re-assigned, vertices removed or
    added, the graph cleared or replaced through the G setter) and the PREVIOUSLY RETURNED result is observed again -
    and the previously returned edge list is fed to the next conversion.  Operands are positions / vertices resolved
    against what exists at that moment (index modulo the current number of rows / edges)."""
    N = len(c["jds"])
    T = len(c["jds"][0]) if c["jds"] else 1
    el_ops = []
    for _ in range(rng.randint(1, 3)):
        el_ops.append([rng.choice(_EL_OPS), rng.randint(0, 40), rng.randint(0, max(0, N - 1)), rng.randint(0, max(0, N - 1)),
                       rng.randint(0, 5), rng.randint(30, 39), [rng.randint(4, 9) for _ in range(T)]])
    net_ops = []
    for _ in range(rng.randint(1, 3)):
        net_ops.append([rng.choice(_NET_OPS if rng.random() < 0.5 else _NET_OPS[:4]), rng.randint(0, 40),
                        rng.randint(0, max(0, N - 1)), rng.randint(0, N + 1), rng.randint(0, 5), rng.randint(40, 49),
                        [rng.randint(4, 9) for _ in range(T)]])
    c["alias"] = {"el_ops": el_ops, "net_ops": net_ops}
    return c


def generate(rng, tier):
    n = 500 if tier == "quick" else 6000
    for i in range(n):
        r = i % 10
        if r < 4:
            c = _simple_case(rng)
        elif r < 7:
            c = _rand_case(rng, False)
        elif r < 9:
            c = _generated_case(rng)
        else:
            c = _rand_case(rng, True)
        if i % 4 == 1 and len(c["names"]) == len(c["edges"]) == len(c["ids"]):
            c = _with_second(rng, c)
        elif i % 4 == 3 or i < 40:
            c = _with_alias(rng, c)
        yield c


def _nm(n):
    """topology name of code n: names are arbitrary strings - mixed case, inner / trailing blanks, digits"""
    return ["t%d", "T%d", "Top %d ", "e-%d_X"][n % 4] % n


_CODES = {_nm(n): n for n in range(64)}


def _code(name, bad):
    return _CODES.get(name, bad) if isinstance(name, str) else bad


def _mk_edgelist(case):
    from gcmpy.network.edge_list import LightWeightEdgeList
    el = LightWeightEdgeList()
    el.joint_degrees = [tuple(j) for j in case["jds"]]
    el.edge_list = [tuple(e) for e in case["edges"]]
    el.topologies = [_nm(n) for n in case["names"]]
    el.motif_id = list(case["ids"])
    return el


def _cols(back):
    """the four columns of an edge-list object in canonical form (type codes as in _observe)"""
    cols = [[list(j) for j in back.joint_degrees], [list(e) for e in back.edge_list],
            [_code(t, 4001) for t in back.topologies],
            [i if (isinstance(i, int) and not isinstance(i, bool) and 0 <= i < 4000) else 4002 for i in back.motif_id]]
    n = min(len(cols[1]), len(cols[2]), len(cols[3]))
    rows = sorted([[min(e), max(e)], nm, i] for e, nm, i in zip(cols[1][:n], cols[2][:n], cols[3][:n]))
    return {"ok": [cols[0], rows], "cols": cols, "parallel": len(cols[1]) == len(cols[2]) == len(cols[3])}


def _observe(el, net, keep=None):
    """keep: a dict that receives the edge-list OBJECT returned by the reverse conversion (for the alias histories)"""
    from gcmpy.network.network_to_edge_list import NetworkToEdgeList
    from gcmpy.names.network_names import NetworkNames
    G = net.G
    nodes = []
    bad_types = []
    for v in sorted(G.nodes()):
        a = G.nodes[v]
        nodes.append([v, [list(a[NetworkNames.JOINT_DEGREE])] if NetworkNames.JOINT_DEGREE in a else []])
    edges = []
    for u, v in G.edges():
        a = G.edges[u, v]
        attr = []
        if NetworkNames.TOPOLOGY in a or NetworkNames.MOTIF_IDS in a:
            nm = a.get(NetworkNames.TOPOLOGY, None)
            mid = a.get(NetworkNames.MOTIF_IDS, -1)
            # the attributes must be the very name (a str "t<k>") and motif id (an int) of the row: other types are
            # recorded as the impossible codes -3 / -2, which no row carries, so the verified checker rejects them
            nm_code = -1 if nm is None else _code(nm, -3)
            mid_code = mid if (isinstance(mid, int) and not isinstance(mid, bool)) else -2
            if nm_code == -3 or mid_code == -2:
                bad_types.append([[min(u, v), max(u, v)], repr(nm), repr(mid)])
            attr = [nm_code, mid_code]
        edges.append([[min(u, v), max(u, v)], attr])
    edges.sort()
    try:
        back = NetworkToEdgeList.convert(net)
        backobs = _cols(back)
        if keep is not None:
            keep["back"] = back
    except Exception as e:  # noqa: BLE001
        backobs = {"exc": type(e).__name__}
    return {"net": [nodes, edges], "back": backobs, "bad_types": bad_types[:3]}


def _apply_el_ops(el, ops):
    """the caller goes on using ITS edge-list object: rows / annotations / jds entries change in place"""
    for op, i, a, b, nm, mid, jd in ops:
        n = min(len(el.edge_list), len(el.topologies), len(el.motif_id))
        if op == "append_row":
            el.edge_list.append(tuple([a, b]))
            el.topologies.append(_nm(nm))
            el.motif_id.append(mid)
        elif op == "pop_row" and n:
            k = i % n
            del el.edge_list[k], el.topologies[k], el.motif_id[k]
        elif op == "replace_pair" and n:
            el.edge_list[i % n] = tuple([a, b])
        elif op == "replace_name" and n:
            el.topologies[i % n] = _nm(nm + 6)
        elif op == "replace_id" and n:
            el.motif_id[i % n] = mid
        elif op == "replace_jd" and el.joint_degrees:
            el.joint_degrees[a % len(el.joint_degrees)] = tuple(jd)
        elif op == "append_jd":
            el.joint_degrees.append(tuple(jd))
        elif op == "pop_jd" and el.joint_degrees:
            el.joint_degrees.pop()
        elif op == "reverse_rows":
            el.edge_list.reverse()
            el.topologies.reverse()
            el.motif_id.reverse()
        elif op == "clear_rows":
            del el.edge_list[:], el.topologies[:], el.motif_id[:]


def _apply_net_ops(net, ops):
    """the network goes on living: edges removed / added (Network methods and the networkx graph itself), annotations
    re-assigned, vertices removed / added, graph cleared or replaced through the G setter"""
    import networkx as nx
    from gcmpy.names.network_names import NetworkNames
    for op, i, a, b, nm, mid, jd in ops:
        G = net.G
        es = list(G.edges())
        vs = list(G.nodes())
        if op == "net_remove_edge" and es:
            net.remove_edge(*es[i % len(es)])
        elif op == "g_remove_edge" and es:
            u, v = es[i % len(es)]
            G.remove_edge(v, u)
        elif op == "g_add_edge":
            G.add_edge(a, b)
            G.edges[a, b][NetworkNames.TOPOLOGY] = _nm(nm + 6)
            G.edges[a, b][NetworkNames.MOTIF_IDS] = mid
        elif op == "net_add_edge":
            net.add_edge(tuple([b, a]))
            G.edges[b, a][NetworkNames.TOPOLOGY] = _nm(nm + 6)
            G.edges[b, a][NetworkNames.MOTIF_IDS] = mid
        elif op == "set_topology" and es:
            G.edges[es[i % len(es)]][NetworkNames.TOPOLOGY] = _nm(nm + 6)
        elif op == "set_motif_id" and es:
            G.edges[es[i % len(es)]][NetworkNames.MOTIF_IDS] = mid
        elif op == "set_jd" and vs:
            G.nodes[vs[a % len(vs)]][NetworkNames.JOINT_DEGREE] = tuple(jd)
        elif op == "remove_node" and vs:
            G.remove_node(vs[a % len(vs)])
        elif op == "add_node":
            G.add_node(len(vs) + 3)
            G.nodes[len(vs) + 3][NetworkNames.JOINT_DEGREE] = tuple(jd)
        elif op == "clear":
            G.clear()
        elif op == "replace_graph":
            net.G = nx.Graph()


def _alias_history(case, el, net, keep, out):
    """'a result must not alias its input' (both directions) - see _with_alias"""
    from gcmpy.network.edge_list_to_network import EdgeListToNetwork
    al = case["alias"]
    res = {}
    # edge list -> network: the caller changes its edge list afterwards; the network it got must stay what it was
    _apply_el_ops(el, al["el_ops"])
    res["net_after_input_changed"] = _observe(el, net)
    # ... and converting the SAME edge-list object again gives the network of its CURRENT contents (same length or not)
    res["el_now"] = _cols(el)["cols"]
    with oracles.forbid_random():
        net4 = EdgeListToNetwork.convert(el)
    res["el_again"] = _observe(el, net4)
    back = keep.get("back")
    if back is not None:
        # network -> edge list: the network changes afterwards; the edge list returned BEFORE must stay what it was ...
        _apply_net_ops(net, al["net_ops"])
        try:
            res["back_after_input_changed"] = _cols(back)
        except Exception as e:  # noqa: BLE001
            res["back_after_input_changed"] = {"exc": type(e).__name__}
        # ... and converting it gives the graph that was converted
        try:
            with oracles.forbid_random():
                net3 = EdgeListToNetwork.convert(back)
            res["net_of_back"] = _observe(back, net3)
        except Exception as e:  # noqa: BLE001
            res["net_of_back"] = {"exc": type(e).__name__}
        # ... and the reverse conversion called AGAIN on the same, changed Network object describes what it holds NOW
        res["reconverted"] = _observe(None, net)
    out["alias"] = res


def _case_of_net(netobs):
    """the edge list a network observation describes (None unless vertices 0..n-1 all annotated, all edges attributed)"""
    nodes, edges = netobs
    if [v for v, _ in nodes] != list(range(len(nodes))) or any(not a for _, a in nodes):
        return None
    if any(len(a) != 2 or a[0] < 0 or a[1] < 0 for _, a in edges):
        return None
    return {"jds": [a[0] for _, a in nodes], "edges": [e for e, _ in edges], "names": [a[0] for _, a in edges],
            "ids": [a[1] for _, a in edges]}


def _el_now(al):
    c = al["el_now"]
    return {"jds": c[0], "edges": c[1], "names": c[2], "ids": c[3]}


def _alias_model_cases(case, impl_obs):
    """[(key, edge list to run the model on)] for the later conversions of an alias history"""
    out = []
    if "alias" not in case or is_exc(impl_obs):
        return out
    al = impl_obs.get("alias", {})
    if "el_again" in al:
        out.append(("el_again", _el_now(al)))
    if "net_of_back" in al:
        out.append(("net_of_back", _snapshot_case(impl_obs)))
    if "reconverted" in al and _case_of_net(al["reconverted"]["net"]) is not None:
        out.append(("reconverted", _case_of_net(al["reconverted"]["net"])))
    return out


def impl(case):
    from gcmpy.network.edge_list_to_network import EdgeListToNetwork
    el = _mk_edgelist(case)
    before = copy.deepcopy((el.joint_degrees, el.edge_list, el.topologies, el.motif_id))
    with oracles.forbid_random():
        net = EdgeListToNetwork.convert(el)
    keep = {}
    out = _observe(el, net, keep)
    out["input_unchanged"] = before == (el.joint_degrees, el.edge_list, el.topologies, el.motif_id)
    if "alias" in case:
        _alias_history(case, el, net, keep, out)
    if "second" in case:
        sec = case["second"]
        if sec["damage_first_result"] and net.G.number_of_edges() > 0:
            net.G.remove_edge(*next(iter(net.G.edges())))
        el.edge_list.extend(tuple(e) for e in sec["append_edges"])
        el.topologies.extend(_nm(n) for n in sec["append_names"])
        el.motif_id.extend(sec["append_ids"])
        with oracles.forbid_random():
            net2 = EdgeListToNetwork.convert(el)
        out["second"] = _observe(el, net2)
    return out


def _second_case(case):
    sec = case["second"]
    return {"jds": case["jds"], "edges": case["edges"] + sec["append_edges"],
            "names": case["names"] + sec["append_names"], "ids": case["ids"] + sec["append_ids"]}


def _t(c):
    return [c["jds"], c["edges"], c["names"], c["ids"]]


def _snapshot_case(impl_obs):
    """the edge list the reverse conversion returned at first (observed BEFORE anything was changed), as a case"""
    if is_exc(impl_obs) or "cols" not in impl_obs.get("back", {}):
        return None
    c = impl_obs["back"]["cols"]
    return {"jds": c[0], "edges": c[1], "names": c[2], "ids": c[3]}


def model_calls(case, impl_obs):
    calls = [("c04_run", _t(case))]
    if "second" in case:
        calls.append(("c04_run", _t(_second_case(case))))
    calls += [("c04_run", _t(c)) for _, c in _alias_model_cases(case, impl_obs)]
    return calls


def _mobs(raw):
    net, back = raw
    nodes = sorted([v, jd] for v, jd in net[0])
    edges = sorted([e, a] for e, a in net[1])
    if back and back[0] == -1:
        b = {"exc": "KeyError"}
    else:
        jds, rows = back[0]
        b = {"ok": [jds, sorted(rows)]}
    return {"net": [nodes, edges], "back": b}


def model_obs(case, raws):
    m = _mobs(raws[0])
    if "second" in case:
        m["second"] = _mobs(raws[1])
    else:
        m["later"] = [_mobs(r) for r in raws[1:]]
    return m


def compare(case, impl_obs, model):
    if is_exc(impl_obs):
        return f"implementation raised {impl_obs[1]}"
    d = _cmp1(impl_obs, model)
    if d:
        return d
    if not impl_obs["input_unchanged"]:
        return "input edge list was modified"
    if "second" in case:
        d = _cmp1(impl_obs["second"], model["second"])
        if d:
            return "second conversion of the same (grown) edge-list object: " + d
    if "alias" in case:
        al = impl_obs["alias"]
        d = _cmp1(al["net_after_input_changed"], model)
        if d:
            return "network observed again after the caller changed its edge list in place: " + d
        if "back_after_input_changed" in al:
            b = al["back_after_input_changed"]
            if b.get("ok") != model["back"].get("ok") or not b.get("parallel"):
                return ("edge list returned by the reverse conversion, observed again after the network was changed in "
                        f"place: {b} model {model['back']}")
        if "exc" in al.get("net_of_back", {}):
            return f"converting the previously returned edge list raised {al['net_of_back']['exc']}"
        for (key, _), m in zip(_alias_model_cases(case, impl_obs), model["later"]):
            d = _cmp1(al[key], m)
            if d:
                return {"el_again": "conversion of the same edge-list object after it was changed in place: ",
                        "net_of_back": "network of the previously returned edge list (after the first network was changed): ",
                        "reconverted": "reverse conversion called again on the same Network object after it was changed: "}[key] + d
    return None


def _cmp1(impl_obs, model):
    if impl_obs["net"] != model["net"]:
        return f"network differs: impl {impl_obs['net']} model {model['net']}"
    ib, mb = impl_obs["back"], model["back"]
    if "exc" in mb:
        if ib.get("exc") != mb["exc"]:
            return f"reverse conversion: impl {ib} model raises {mb['exc']}"
    else:
        if ib.get("ok") != mb["ok"]:
            return f"reverse conversion differs: impl {ib} model {mb}"
    return None


def _chk1(c, obs):
    nodes, edges = obs["net"]
    # attributes with a missing half cannot be expressed: the checker sees them as 'no attribute'
    edges_t = [[e, a if (len(a) == 2 and a[0] >= 0 and a[1] >= 0) else []] for e, a in edges]
    back = obs["back"]
    b = [back["cols"]] if "cols" in back else []
    return ("c04_check", [_t(c), [nodes, edges_t], b])


def _alias_checks(case, impl_obs):
    """[(what, observation judged against the ORIGINAL edge list)] of an alias history: every re-observed result and
    the network of the previously returned edge list are judged by the same verified checker c04_check"""
    al = impl_obs["alias"]
    out = [("network observed again after the caller changed its edge list in place (rows / annotations / jds "
            "appended, removed, replaced): ", al["net_after_input_changed"])]
    if "back_after_input_changed" in al:
        o = dict(impl_obs)
        o["back"] = al["back_after_input_changed"]
        out.append(("edge list returned by NetworkToEdgeList.convert, observed again after the network was changed in "
                    "place (edges removed / added, annotations re-assigned): ", o))
    if "net_of_back" in al and "exc" not in al["net_of_back"]:
        out.append(("EdgeListToNetwork.convert of the edge list returned earlier, after the first network was changed "
                    "in place: ", al["net_of_back"]))
    return out


def _reconverted_check(impl_obs):
    """the changed network, converted again, judged against the edge list that network describes NOW"""
    al = impl_obs["alias"]
    c = _case_of_net(al["reconverted"]["net"]) if "reconverted" in al else None
    return None if c is None else (c, al["reconverted"])


def check_calls(case, impl_obs):
    if is_exc(impl_obs):
        return []
    calls = [_chk1(case, impl_obs)]
    if "second" in case:
        calls.append(_chk1(_second_case(case), impl_obs["second"]))
    if "alias" in case:
        calls += [_chk1(case, o) for _, o in _alias_checks(case, impl_obs)]
        calls.append(_chk1(_el_now(impl_obs["alias"]), impl_obs["alias"]["el_again"]))
        rc = _reconverted_check(impl_obs)
        if rc:
            calls.append(_chk1(*rc))
    return calls


def _verdict1(obs, raw, what):
    if obs.get("bad_types"):
        return what + f"an edge carries an attribute of the wrong type (not the row's name / integer motif id): {obs['bad_types'][0]}"
    ok_net, ok_rt = raw
    if not ok_net:
        return what + "check_net: network does not satisfy Spec_net (nodes / annotations / edges / once-attributes)"
    if not ok_rt:
        return what + "check_roundtrip: back conversion of a simple list lost or changed something (or raised)"
    if "cols" in obs["back"] and not obs["back"]["parallel"]:
        return what + "back-converted columns are not parallel"
    return None


def check_verdict(case, impl_obs, raws):
    if is_exc(impl_obs):
        # conversion itself must not raise on well-formed lists
        wf = all(0 <= v < len(case["jds"]) for e in case["edges"] for v in e)
        return f"EdgeListToNetwork.convert raised {impl_obs[1]}" if wf else None
    v = _verdict1(impl_obs, raws[0], "")
    if v:
        return v
    if not impl_obs["input_unchanged"]:
        return "input edge list was modified by the conversion"
    if "second" in case:
        return _verdict1(impl_obs["second"], raws[1], "second conversion of the same edge-list object after it grew: ")
    if "alias" in case:
        al = impl_obs["alias"]
        for (what, o), raw in zip(_alias_checks(case, impl_obs), raws[1:]):
            v = _verdict1(o, raw, what)
            if v:
                return v
        n_al = len(_alias_checks(case, impl_obs))
        v = _verdict1(al["el_again"], raws[1 + n_al], "EdgeListToNetwork.convert of the SAME edge-list object after the caller "
                      "changed it in place (rows / annotations / jds replaced, removed, appended), judged against its "
                      "current contents: ")
        if v:
            return v
        if _reconverted_check(impl_obs):
            v = _verdict1(al["reconverted"], raws[-1], "NetworkToEdgeList.convert called again on the same Network object after "
                          "it was changed in place (edges removed / added, annotations re-assigned), judged against what the "
                          "network holds now: ")
            if v:
                return v
        # a result is a value: it is still what it was when it was returned
        a = al["net_after_input_changed"]
        if a["net"] != impl_obs["net"] or a["back"].get("ok") != impl_obs["back"].get("ok"):
            return ("the network returned by EdgeListToNetwork.convert changed when the caller changed its edge list "
                    f"afterwards: was {impl_obs['net']}, now {a['net']}")
        b = al.get("back_after_input_changed")
        if b is not None and (b.get("ok") != impl_obs["back"].get("ok") or b.get("parallel") != impl_obs["back"].get("parallel")):
            return ("the edge list returned by NetworkToEdgeList.convert changed when the network was changed afterwards "
                    f"(edges removed / added, annotations re-assigned): was {impl_obs['back'].get('ok')}, now {b.get('ok', b)}"
                    f"{'' if b.get('parallel', True) else ' with columns of different lengths'}")
        wf = all(0 <= v < len(case["jds"]) for e in case["edges"] for v in e)
        if wf and "exc" in al.get("net_of_back", {}):
            return f"EdgeListToNetwork.convert of the edge list returned earlier raised {al['net_of_back']['exc']}"
    return None


def nontrivial_key(case, impl_obs):
    if len(case["edges"]) < 2:
        return None
    used = {v for e in case["edges"] for v in e}
    zero = any(v not in used for v in range(len(case["jds"])))
    keys = [(min(e), max(e)) for e in case["edges"]]
    rep = len(set(keys)) < len(keys)
    return [case["jds"], case["edges"], case["names"], case["ids"]] if (zero or rep) else None


def shrink(case):
    n = len(case["edges"])
    for i in range(n):
        c = dict(case)
        c["edges"] = case["edges"][:i] + case["edges"][i + 1:]
        c["names"] = case["names"][:i] + case["names"][i + 1:] if len(case["names"]) == n else case["names"]
        c["ids"] = case["ids"][:i] + case["ids"][i + 1:] if len(case["ids"]) == n else case["ids"]
        yield c
    if "second" in case:
        c = dict(case)
        del c["second"]
        yield c
    if "alias" in case:
        al = case["alias"]
        for f in ("el_ops", "net_ops"):
            for i in range(len(al[f])):
                c = dict(case)
                c["alias"] = dict(al)
                c["alias"][f] = al[f][:i] + al[f][i + 1:]
                yield c
        c = dict(case)
        del c["alias"]
        yield c
    N = len(case["jds"])
    if N > 1 and all(v < N - 1 for e in case["edges"] for v in e):
        c = dict(case)
        c["jds"] = case["jds"][:-1]
        yield c


def describe(case, impl_obs):
    return {"jds": case["jds"], "edges": case["edges"], "names": case["names"], "ids": case["ids"],
            "observed_edges": impl_obs["net"][1] if isinstance(impl_obs, dict) else impl_obs}


def histogram(cases):
    h = {"cases": len(cases), "with_selfloop": 0, "with_repeated_pair": 0, "with_zero_degree_vertex": 0,
         "with_vertex_out_of_range": 0, "short_columns": 0, "rows_total": 0, "grow_histories": 0, "alias_histories": 0}
    for c in cases:
        h["grow_histories"] += "second" in c
        h["alias_histories"] += "alias" in c
        keys = [(min(e), max(e)) for e in c["edges"]]
        h["rows_total"] += len(keys)
        h["with_selfloop"] += any(a == b for a, b in keys)
        h["with_repeated_pair"] += len(set(keys)) < len(keys)
        used = {v for e in c["edges"] for v in e}
        h["with_zero_degree_vertex"] += any(v not in used for v in range(len(c["jds"])))
        h["with_vertex_out_of_range"] += any(v >= len(c["jds"]) for v in used)
        h["short_columns"] += len(c["names"]) != len(c["edges"]) or len(c["ids"]) != len(c["edges"])
    return h
