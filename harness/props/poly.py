"""Exact multivariate polynomials with rational coefficients, fed to the real gcmpy code in place of
the floats phi / u.  The anchored code only uses + - * and pow with non-negative integer (possibly
integral-float) exponents, and mixes its operands with the constants 0.0, 1.0, 1 (any int / exactly
representable float / Fraction is absorbed as a rational constant).

A polynomial is a dict  monomial -> Fraction,  monomial = tuple of (variable index, exponent) sorted by
variable index, exponent >= 1.  Variable 1 is phi, variable v+2 is u_v (same numbering as Lib/PolyRefl15.v).
"""
from fractions import Fraction
from numbers import Rational


def _const(x):
    if isinstance(x, bool):
        raise TypeError("bool is not a polynomial constant")
    if isinstance(x, (int, Fraction)):
        return Fraction(x)
    if isinstance(x, float):
        if x != x or x in (float("inf"), float("-inf")):
            raise TypeError("non-finite float")
        return Fraction(x)  # exact: floats are dyadic rationals
    if isinstance(x, Rational):
        return Fraction(x.numerator, x.denominator)
    return None


def _mmul(a, b):
    d = dict(a)
    for v, e in b:
        d[v] = d.get(v, 0) + e
    return tuple(sorted(d.items()))


class Poly:
    __slots__ = ("t",)
    __array_priority__ = 1000  # never let numpy scalars take over the arithmetic

    def __init__(self, terms=None):
        self.t = {m: c for m, c in (terms or {}).items() if c != 0}

    # constructors
    @staticmethod
    def const(c):
        return Poly({(): Fraction(c)})

    @staticmethod
    def var(i):
        return Poly({((int(i), 1),): Fraction(1)})

    @staticmethod
    def lift(x):
        if isinstance(x, Poly):
            return x
        c = _const(x)
        if c is None:
            return None
        return Poly({(): c})

    # arithmetic
    def __add__(self, o):
        o = Poly.lift(o)
        if o is None:
            return NotImplemented
        d = dict(self.t)
        for m, c in o.t.items():
            d[m] = d.get(m, 0) + c
        return Poly(d)

    __radd__ = __add__

    def __neg__(self):
        return Poly({m: -c for m, c in self.t.items()})

    def __pos__(self):
        return self

    def __sub__(self, o):
        o = Poly.lift(o)
        if o is None:
            return NotImplemented
        return self + (-o)

    def __rsub__(self, o):
        o = Poly.lift(o)
        if o is None:
            return NotImplemented
        return o + (-self)

    def __mul__(self, o):
        o = Poly.lift(o)
        if o is None:
            return NotImplemented
        d = {}
        for m1, c1 in self.t.items():
            for m2, c2 in o.t.items():
                m = _mmul(m1, m2)
                d[m] = d.get(m, 0) + c1 * c2
        return Poly(d)

    __rmul__ = __mul__

    def __pow__(self, n, mod=None):
        if mod is not None:
            raise TypeError("modular pow of a polynomial")
        if isinstance(n, float):
            if n != int(n):
                raise TypeError("non-integral exponent")
            n = int(n)
        if isinstance(n, bool) or not isinstance(n, int) or n < 0:
            raise TypeError(f"exponent {n!r} is not a non-negative integer")
        r = Poly.const(1)
        b = self
        while n:
            if n & 1:
                r = r * b
            b = b * b
            n >>= 1
        return r

    def __truediv__(self, o):
        c = _const(o)
        if c is None:
            return NotImplemented
        return self * (1 / c)  # ZeroDivisionError propagates like for floats

    def __eq__(self, o):
        o = Poly.lift(o)
        if o is None:
            return NotImplemented
        return self.t == o.t

    def __ne__(self, o):
        r = self.__eq__(o)
        return r if r is NotImplemented else not r

    __hash__ = None

    def __repr__(self):
        if not self.t:
            return "Poly(0)"
        parts = []
        for m, c in sorted(self.t.items()):
            parts.append(f"{c}*" + "*".join(f"x{v}^{e}" for v, e in m) if m else f"{c}")
        return "Poly(" + " + ".join(parts) + ")"

    # evaluation / substitution: env maps variable index -> Poly | number; missing variables stay
    def subst(self, env):
        out = Poly()
        for m, c in self.t.items():
            term = Poly.const(c)
            for v, e in m:
                x = env.get(v)
                base = Poly.var(v) if x is None else Poly.lift(x)
                term = term * base ** e
            out = out + term
        return out

    def is_const(self):
        return all(m == () for m in self.t)

    def value(self):
        if not self.is_const():
            raise ValueError("not a constant")
        return self.t.get((), Fraction(0))

    # wire form: [[coef_num, coef_den, [[var, exp] ...]] ...] sorted
    def to_wire(self):
        return sorted([[c.numerator, c.denominator, [[v, e] for v, e in m]] for m, c in self.t.items()],
                      key=lambda x: (x[2], x[0], x[1]))

    @staticmethod
    def from_monos(ms):
        """from the model's monomial list [[coef, [[var, exp] ...]] ...] (repeated variables allowed)"""
        out = {}
        for c, ves in ms:
            d = {}
            for v, e in ves:
                if e:
                    d[v] = d.get(v, 0) + e
            m = tuple(sorted(d.items()))
            out[m] = out.get(m, 0) + Fraction(c)
        return Poly(out)
