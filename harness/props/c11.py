"""C11 — MCMC rewiring preserves vertices, degrees and motif structure.
Model: coq/Model/Mcmc.v; proofs coq/Proofs/McmcP.v, McmcCheckP.v, McmcFail.v; theorems coq/Props/C11.v."""
from harness.props import mcmc_common as mc

ID = "C11"
IMPL_TIMEOUT = 120.0
RULE = ("clean motif networks (2-/3-cliques from the real generator under scripted shuffles, and constructed "
        "networks with 2-/3-cliques, 4-cycles, diamonds, motifs sharing vertices; 5-14 vertices for method/run "
        "level, 40-600 for long runs) x symmetric dyadic full-support targets x limits (incl. defaults) x scripted "
        "oracle streams (DrawSet.draw indices, Metropolis uniforms; networkx corner orders logged). Run level: "
        "after every change of the working graph the edge set with attributes and the DrawSet list are compared "
        "with the model; c11_check (the decidable invariant) judges EVERY intermediate graph and the input object "
        "before/after. Method level: get_all_edges, is_edge_choice_suitable, swap_condition (decision, numerator, "
        "denominator as exact rationals, proposal edges) on enumerated corner pairs. MIXED CORNERS: 24 method cases + 24 "
        "runs (200 + 200 thorough) on diamond networks (12-26 vertices, 2-4 topology names in varying order) whose "
        "position-0 / position-2 corners carry d-outer AND d-inner edges, with GRID targets (support = all pairings of "
        "the keys jd(v) - e_i over every slot i of a topology sharing a corner, so a key built with the wrong slot is "
        "present instead of raising the KeyError that rejects the swap), queries aimed at pairs of mixed corners. Non-trivial = run with >= 1 "
        "accepted swap / method case with >= 1 suitable accepted pair; distinct by network + oracle stream")
EXHAUSTIVE = {"quick": False, "thorough": False}
EXPLANATION = ("general theorems (all clean networks, all targets, all oracle streams, any number of swaps) in "
               "Props/C11.v; correspondence on generated small networks with scripted randomness; verified checker "
               "on every intermediate graph of real runs up to 600 vertices / 2000 swaps (thorough). The invariant "
               "theorems are no longer vacuous for raising runs: C11_no_apply_failure / C11_failure_site prove that a "
               "run on a well-formed network never fails in the apply step and classify the error statuses that remain "
               "(invalid oracle answer; IndexError from a too short vertex annotation or an edgeless network; the "
               "zero-denominator ErrorMarkovChainMonteCarloRewiring); C11_clean_run_never_fails excludes all of them "
               "under stated preconditions")
ASSUMPTIONS = ["random.choice(seq) returns seq[i] for the scripted i; random.random() returns the scripted dyadic",
               "networkx Graph.copy / add_edge / remove_edge / has_edge / adjacency iteration behave as modelled "
               "(adjacency order is an oracle answer the model validates as a permutation of its own corner)"]
TRUSTED = ["instrumentation: get_all_edges / swap_condition wrapped on the instance, DrawSet.draw wrapped to observe "
           "the draw set; numerator/denominator read from the frame of swap_condition at the random.random() call"]
PARTIAL = ['the shape clause (edges sharing a motif id keep the motif shape) is FALSE for the current code (C11_shape_refuted; open known finding, crossed motif ids) and proved only for the repaired id rule (C11_shape_fixed)', "clauses that hold by construction of a functional model (input network untouched, same vertex set and annotations) are established on the code by the harness's deep before/after comparison, not by a theorem"]
TECHNIQUE = ("Coq proof (swap invariant, induction over the oracle stream of the rewiring state machine, verified "
             "decidable invariant checker) + model/implementation correspondence under scripted randomness")
LEVEL_TEXT = (
    "General theorems in coq/Props/C11.v on the Gallina model of rewire() (state machine over the oracle stream), for "
    "every clean network, target, limits (incl. the defaults 25 and 10*|E|), every RNG outcome and any number of "
    "accepted swaps: every graph the run passes through keeps the vertex annotations, is a simple graph on the same "
    "vertices (no self-loop, no duplicate), has the same edge count, the same per-vertex per-topology degrees and the "
    "same per-motif-id per-topology edge counts, and the draw set mirrors the edge set (C11_rewire_inv_partial, "
    "C11_swap_preserves_inv_partial). PARTIAL: the shape clause (edges sharing a motif id keep the motif's shape) is "
    "REFUTED for the code as it is (C11_shape_refuted, open known finding: new corner edges carry the id of the motif "
    "they left) and PROVED in general for the repaired id rule (C11_shape_fixed). The verified checkers are proved "
    "sound AND complete: check_hard = true <-> Hard, check_shape = true <-> Shape, wfb = true <-> WF "
    "(C11_check_hard_iff, C11_check_shape_iff, C11_check_inv_iff, C11_wfb_iff), so a 'false' on a real graph IS a "
    "violated clause; they are proved to accept every state of every model run (hard: both id rules; hard + shape: "
    "repaired rule) and check_shape is proved to reject the refuting run. They judge every intermediate graph of "
    "the real rewire(); the model is compared with the real "
    "code after every accepted swap under scripted randomness, incl. second calls on the same object. "
    "ADMISSIBLE RUNS DO NOT FAIL (growth 2, Proofs/McmcFail.v; general, both id rules; a failed run returns the "
    "unchanged last state, so without this the invariant theorems hold trivially for raising runs): "
    "C11_no_apply_failure - at every configuration of every run on a well-formed network at which the Metropolis "
    "test is due (suitable accepted the pair, the swap condition delivered proposals) apply_swap returns Ok: no 'edge "
    "already present', no networkx / draw-set error, no edge-count mismatch; C11_apply_after_accept - the same at "
    "method level for ANY well-formed graph and any corners that are permutations of the real ones (plus mirror and "
    "hard clauses of the result); C11_failure_site - a run that ends in the error state either started without "
    "edges (random.choice([]), IndexError) or failed at its last configuration with the state untouched at one of "
    "exactly three sites: invalid oracle answer (protocol status, C11_invalid_answer_is_protocol gives the converse), "
    "IndexError from jd[index] in the swap condition (an edge of the current graph has an end point whose annotation "
    "is shorter than the edge's topology index), zero denominator of the swap condition "
    "(ErrorMarkovChainMonteCarloRewiring); KeyError, NetworkXError, the hashmap pop errors of swap_condition and both "
    "ErrorMCMC of apply are proved impossible (C11_swap_condition_errors, C11_failure_causes: E_INDEX only if the "
    "start network is edgeless or annotb fails on it, E_MCMC only if some stored weight is not positive); "
    "C11_clean_run_never_fails - with >= 1 edge, annotb, positive weights and valid oracle answers (script_okb) the "
    "status is Finished or Exhausted (script ended first). Each remaining status is shown to occur "
    "(C11_failures_do_occur).")
LEVEL_NOTE = ("Trusted: Coq kernel; extraction + OCaml driver + Python harness for the correspondence; networkx primitives "
              "as modelled. Modelled, not verified: adjacency order (oracle answer, validated as a permutation), G.copy(). "
              "Checkers are decision procedures for Hard / Shape (equivalences proved). Open finding C11b reported as KNOWN-FINDING; the check "
              "follows the implementation's id rule (crossed / repaired) and enforces the shape clause for the repaired one.")


def corpus():
    return mc.corpus_cases()


def generate(rng, tier):
    return mc.generate(rng, tier, 0.0, 0.0)


impl = mc.impl
model_obs = mc.model_obs
compare = mc.compare
nontrivial_key = mc.nontrivial_key
shrink = mc.shrink
describe = mc.describe
histogram = mc.histogram


def model_calls(case, obs):
    return mc.model_calls(case, obs, "c11_run")


def check_calls(case, obs):
    if mc.is_exc(obs) or not case.get("valid", True):
        return []
    if case["kind"] == "run":
        g0 = mc.canon_net(case["net"])
        calls = [("c11_check", [g0[0], g0[1], mc.run_graphs(obs), obs["after"]])]
        o2 = mc.second_obs(obs)
        if o2 is not None:
            # second call on the same object: judged against ITS input (the invariant is transitive)
            calls.append(("c11_check", [o2["input"][0], o2["input"][1], mc.run_graphs(o2), o2["after"]]))
        return calls
    return [("c11_check_swap", mc.swap_tree(case, q, it)) for q, it in mc.accepted_items(case, obs)]


WHY = {1: "vertex set / joint-degree annotations changed", 2: "self-loop, end point out of range or duplicate edge",
       3: "edge count changed", 4: "a per-vertex per-topology degree changed",
       7: "a label class (motif id) changed its number of edges of some topology",
       6: "the input network object was modified"}
KNOWN_PREFIX = "KNOWN:C11-crossed-ids"
SHAPE_TEXT = "edges sharing a motif id no longer form a motif of the original shape on distinct vertices"


def _shape(obs, where):
    """the shape clause failed: an open known finding exactly when the implementation crosses the ids at
    swap_condition -> append_proposal_edges (variant 0); a violation for any other behaviour"""
    if mc.obs_variant(obs) == 0:
        return f"{KNOWN_PREFIX} {where}: {SHAPE_TEXT} (new corner edges carry the id of the motif they left)"
    return f"{where}: {SHAPE_TEXT}"


def check_verdict(case, obs, raws):
    if not case.get("valid", True):
        return None
    if mc.is_exc(obs):
        return f"{obs[1]} raised on an admissible input (constructor / rewire)"
    if case["kind"] == "run":
        if obs["status"][0] == 2:
            return f"rewire() raised {obs['status'][1]} on a clean network with a full-support target"
        if not raws:
            return "checker did not run"
        o2 = mc.second_obs(obs)
        if o2 is not None and o2["status"][0] == 2:
            return f"second rewire() call on the same object raised {o2['status'][1]}"
        shape = None
        for k, (o, raw) in enumerate(zip([obs, o2], raws)):
            tag = "" if k == 0 else "second rewire() call on the same object: "
            if not o.get("deep_unchanged", True):
                return f"{tag}{WHY[6]} (attribute data / iteration order)"
            i, why, j = raw
            if i != -1:
                return f"{tag}graph after change {i}: {WHY.get(why, why)}"
            if j != -1 and shape is None:
                shape = _shape(obs, f"{tag}graph after change {j}")
        return shape
    shape = None
    for (q, it), r in zip(mc.accepted_items(case, obs), raws):
        tag = f"accepted swap u0={q[0]} e0={q[1]} v0={q[2]} e1={q[3]} proposals {it['props']}"
        if r[0] != 1:
            w = WHY.get(r[1], f"apply step failed ({mc.EXC_CODES.get(r[1] - 10, r[1])})")
            return f"{tag}: {w}"
        if r[2] != 1 and shape is None:
            shape = _shape(obs, tag)
    return shape


def search(rng, tier, seeds):
    return mc.search_batches(rng, 0.0, 0.0)
