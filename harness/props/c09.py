"""C09 — EECC (gcmpy/covers/eecc.py) vs the Gallina model (Model/Eecc.v).

Every tie-break of the greedy loop is scripted BY CONTENT: `gcmpy.covers.eecc.choice` is replaced by a
function that reads the clique list `C` from the caller's frame, sorts the offered candidate cliques
lexicographically and returns the index of the r-th one (r from the script, modulo the number of
candidates).  Nothing compared depends on hash-set iteration order: covers are compared as multisets,
clique lists as sorted lists, the candidate list of every round as a sorted list.
"""
import itertools
import sys

from harness import oracles

ID = "C09"
RULE = ("case = (edge list of a simple graph, m0, tie-break ranks); mode 'all' walks EVERY tie-break sequence of "
        "the real code (depth-first over the candidate counts it reports) and compares each leaf; compared per run: "
        "find_cliques() as a sorted list, limited_maximal_cliques() as a sorted list (duplicates visible), the sorted "
        "candidate cliques offered to `choice` in every round, the cover as a multiset, has_edges() afterwards, the "
        "exception class for m0 < 2; non-trivial = a run with a tie between >= 2 candidates or with a maximal clique "
        "larger than m0 (decomposition); distinct by (edges, m0, ranks/mode)")
EXHAUSTIVE = {"quick": False, "thorough": True}
EXPLANATION = ("checker soundness is a general theorem; the exact-cover theorem is by reflection over all 1024 edge "
               "subsets of K5 x m0 in 2..6 x every tie-break sequence (C09_exact_cover_upto_5); correspondence: "
               "thorough = all 1024 graphs on <= 5 labelled vertices x m0 in 2..5 x all tie-break sequences, quick = a "
               "seeded sample of those, plus random graphs to 12 vertices with planted overlapping cliques and m0 "
               "below / at / above the clique number, plus the malformed stream (m0 < 2, empty graph)")
ASSUMPTIONS = [
    "CPython float arithmetic is IEEE-754 binary64 with round-to-nearest-even (the model's fl_round); validated on "
    "every run against the float sums the interpreter computes (c09_fl)",
    "networkx find_cliques returns each maximal clique exactly once (compared with the model's brute force on every case)",
    "the tie-break `choice(indexes_to_sample)` is called from a frame whose local `C` is the clique list it indexes",
]
TRUSTED = ["networkx.find_cliques is modelled (brute force over vertex subsets), not verified; its output is compared "
           "with the model's on every generated case"]
TECHNIQUE = ("Coq proof: verified checker (general equivalence with the Prop-level exact-cover specification) + "
             "proof by reflection over a stated finite domain for the cover theorem + model/implementation "
             "correspondence with content-keyed scripted tie-breaks")
LEVEL_TEXT = (
    "coq/Props/C09.v: (general) exact_cover_b g m0 c = true <-> every member of c is a duplicate-free clique of g with "
    "2 <= size <= m0 and every edge of g lies in exactly one member; (general) the run under any scripted rank list "
    "is one of the outcomes enumerated by eecc_all; (bounded, by vm_compute over the stated domain, "
    "C09_exact_cover_upto_5) for every edge subset of K5 (all 1024 graphs on <= 5 labelled vertices without isolated "
    "vertices), every m0 in 2..6 and EVERY tie-break sequence the model's cover passes exact_cover_b, the working "
    "graph is empty, the fuel |E|+1 is not exhausted and every maximal clique of size <= m0 sharing no edge with "
    "another maximal clique is a member.  The unbounded statement is kept as C09_full (not proved).  The model is "
    "tied to gcmpy/covers/eecc.py by the correspondence described in `rule`; the verified checker c09_check judges "
    "every cover the implementation returns.")
LEVEL_NOTE = ("Bounded: graphs on <= 5 vertices (C09_full for unbounded graphs is stated, not proved). Trusted: Coq "
              "kernel + vm_compute; extraction + OCaml driver + harness for the correspondence; networkx "
              "find_cliques modelled not verified; binary64 rounding model validated against the interpreter.")
IMPL_TIMEOUT = 30.0

EXC_CODES = {2: "ValueError", 3: "IndexError"}
PAIRS5 = list(itertools.combinations(range(5), 2))
PAIRS6 = list(itertools.combinations(range(6), 2))
LEAF_CAP = 400


# ------------------------------------------------------------------ scripted tie-break
class RankScript(oracles.Script):
    """`choice` keyed by content; every other random entry point is a protocol error"""

    def __init__(self, ranks):
        super().__init__([])
        self.ranks = list(ranks)
        self.rounds = []

    def choice(self, seq):
        frame = sys._getframe(1)
        C = frame.f_locals.get("C")
        if C is None:
            raise oracles.OracleProtocol("eecc.choice called from a frame without the clique list C")
        if len(seq) == 0:
            raise IndexError("Cannot choose from an empty sequence")
        cands = sorted(([int(v) for v in C[i]], k) for k, i in enumerate(seq))
        r = self.ranks.pop(0) if self.ranks else 0
        self.rounds.append([c for c, _ in cands])
        if len(self.rounds) > 500:
            raise oracles.OracleProtocol("more than 500 greedy rounds")
        return seq[cands[r % len(cands)][1]]


def _canon_cliques(cs):
    return sorted([int(v) for v in c] for c in cs)


def _run_once(edges, m0, ranks):
    import gcmpy.covers.eecc as E
    net = E.EECC()
    net.add_edges_from([tuple(e) for e in edges])
    net.set_max_clique_size(m0)
    mc = sorted(sorted(int(v) for v in c) for c in net.find_cliques())
    script = RankScript(ranks)
    with oracles.scripted(script, extra_modules=[(E, "choice")]):
        lim = _canon_cliques(net.limited_maximal_cliques())
        cover = net.get_EECC()
        he = bool(net.has_edges())
    return {"cover": _canon_cliques(cover), "has_edges": int(he), "rounds": script.rounds,
            "maxcliques": mc, "limited": lim}


def impl(case):
    if case.get("mode") == "float":
        # the float the interpreter accumulates: r = 0.0; k times r += 1.0 / binom(order, 2)
        from fractions import Fraction
        from gcmpy.covers.eecc import binom
        out = []
        for k, o in FL_PROBE:
            r = 0.0
            for _ in range(k):
                r += 1.0 / binom(o, 2)
            f = Fraction(r)
            out.append([f.numerator, f.denominator])
        return out
    edges, m0 = case["edges"], case["m0"]
    if case.get("mode") != "all":
        return _run_once(edges, m0, case.get("ranks", []))
    # walk every tie-break sequence of the real code: each run follows `prefix` and then rank 0 to the end, which
    # is one leaf; its siblings at every depth beyond the prefix are pushed
    leaves = []
    stack = [[]]
    cap = case.get("cap", LEAF_CAP)
    while stack and len(leaves) < cap:
        prefix = stack.pop()
        obs = _run_once(edges, m0, prefix)
        counts = [len(r) for r in obs["rounds"]]
        full = prefix + [0] * (len(counts) - len(prefix))
        leaves.append([full, obs])
        for d in range(len(counts) - 1, len(prefix) - 1, -1):
            for k in range(counts[d] - 1, 0, -1):
                stack.append(full[:d] + [k])
    return {"leaves": leaves, "truncated": int(bool(stack))}


# ------------------------------------------------------------------ model side
FL_PROBE = [(k, o) for o in range(3, 9) for k in (1, 2, 3, o, o * (o - 1) // 2)]


def _is_exc(x):
    return isinstance(x, list) and x and x[0] == "!exc"


def _leaves(case, impl_obs):
    if _is_exc(impl_obs):
        return []
    if case.get("mode") == "all":
        return [(rk, ob) for rk, ob in impl_obs["leaves"]]
    return [(case.get("ranks", []), impl_obs)]


def model_calls(case, impl_obs):
    if case.get("mode") == "float":
        return [("c09_fl", [k, o]) for k, o in FL_PROBE]
    lv = _leaves(case, impl_obs)
    if not lv:
        lv = [(case.get("ranks", []), None)]
    return [("c09_run", [case["edges"], case["m0"], rk]) for rk, _ in lv]


def _dec(raw):
    if isinstance(raw, str):
        return ["!model", raw]
    if len(raw) == 2 and raw[0] == -1:
        return ["!exc", EXC_CODES.get(raw[1], str(raw[1]))]
    st, cover, fin, rounds, mc, lim = raw
    if st == 2:
        return ["!exc", "ValueError"]
    if st == 1:
        return ["!model", "fuel exhausted"]
    return {"cover": sorted(cover), "has_edges": int(len(fin) > 0), "rounds": rounds, "maxcliques": sorted(mc),
            "limited": sorted(lim)}


def model_obs(case, raws):
    if case.get("mode") == "float":
        return [[r[0], r[1]] for r in raws]
    return [_dec(r) for r in raws]


def _cmp_one(a, b, where):
    if _is_exc(b) or (isinstance(b, list) and b and b[0] == "!model"):
        return f"{where}: implementation returned a cover, model says {b}"
    for k in ("maxcliques", "limited", "rounds", "cover", "has_edges"):
        x = a[k]
        if k == "rounds":
            x = [sorted(r) for r in x]
        if x != b[k]:
            return f"{where}: {k}: impl {a[k]} model {b[k]}"
    return None


def compare(case, impl_obs, model):
    if case.get("mode") == "float":
        from fractions import Fraction
        if _is_exc(impl_obs):
            return f"float probe raised {impl_obs[1]}"
        for (k, o), (mn, md), (xn, xd) in zip(FL_PROBE, model, impl_obs):
            if Fraction(xn, xd) != Fraction(mn, md):
                return f"float score k={k} order={o}: interpreter {xn}/{xd} model {mn}/{md}"
        return None
    if _is_exc(impl_obs):
        if len(model) == 1 and _is_exc(model[0]) and model[0][1] == impl_obs[1]:
            return None
        return f"implementation raised {impl_obs[1]}, model {str(model)[:200]}"
    lv = _leaves(case, impl_obs)
    if len(lv) != len(model):
        return "leaf count mismatch"
    for (rk, ob), mo in zip(lv, model):
        d = _cmp_one(ob, mo, f"ranks {rk}")
        if d:
            return d
    return None


def _valid(case):
    return case["m0"] >= 2 and len(case["edges"]) > 0 and case.get("mode") != "float"


def check_calls(case, impl_obs):
    if case.get("mode") == "float":
        return []
    return [("c09_check", [case["edges"], case["m0"], ob["cover"], ob["has_edges"]]) for _, ob in _leaves(case, impl_obs)]


def check_verdict(case, impl_obs, raws):
    if case.get("mode") == "float":
        return None
    if _is_exc(impl_obs):
        if case["m0"] >= 2:
            return f"implementation raised {impl_obs[1]} on a graph / m0 the property covers"
        return None
    if case["m0"] < 2:
        return None
    names = ["exact_cover_b (members are cliques of the input with 2..m0 vertices, every edge in exactly one)",
             "working graph empty afterwards", "isolated maximal cliques of size <= m0 returned intact"]
    for (rk, ob), r in zip(_leaves(case, impl_obs), raws):
        if r != [1, 1, 1]:
            bad = [n for n, b in zip(names, r if isinstance(r, list) else [0, 0, 0]) if b != 1]
            return f"c09_check rejected the cover returned under ranks {rk}: violated: {'; '.join(bad)}; cover {ob['cover']}"
    return None


def nontrivial_key(case, impl_obs):
    if not _valid(case) or _is_exc(impl_obs):
        return None
    for _, ob in _leaves(case, impl_obs):
        if any(len(r) >= 2 for r in ob["rounds"]) or any(len(c) > case["m0"] for c in ob["maxcliques"]):
            return [case["edges"], case["m0"], case.get("mode", "one"), case.get("ranks", [])]
    return None


# ------------------------------------------------------------------ generators
TEST_FIXTURE = [[1, 2], [1, 14], [2, 4], [2, 13], [2, 14], [3, 4], [3, 5], [4, 5], [4, 13], [4, 14], [6, 7], [6, 13],
                [7, 8], [7, 13], [8, 9], [8, 13], [9, 10], [9, 11], [9, 13], [10, 11], [11, 12], [12, 13], [13, 14]]


def _kn(vs):
    return [[a, b] for a, b in itertools.combinations(sorted(vs), 2)]


def _canon_edges(es):
    return sorted({(min(a, b), max(a, b)) for a, b in es if a != b})


def _case(es, m0, ranks=None, mode=None, cap=None):
    c = {"edges": [list(e) for e in _canon_edges(es)], "m0": m0}
    if mode:
        c["mode"] = mode
        if cap:
            c["cap"] = cap
    else:
        c["ranks"] = list(ranks or [])
    return c


def corpus():
    design = [[0, 2], [0, 5], [1, 3], [1, 4], [1, 5], [2, 3], [2, 4], [2, 5], [4, 5]]
    out = [_case(design, 2, []), _case(design, 2, mode="all"), _case(design, 3, mode="all")]
    out.append({"edges": [], "m0": 2, "mode": "float"})
    for m0 in (2, 3, 4, 5):
        out.append(_case(TEST_FIXTURE, m0, [0, 1, 2, 0, 1, 2, 3]))
        out.append(_case(TEST_FIXTURE, m0, mode="all", cap=60))
    # a K7 and a triangle whose scores tie as rationals (14/21 = 2/3) but not as floats
    k7 = _kn(range(7))
    tri = [[7, 8], [7, 9], [8, 9], [7, 10], [8, 10], [9, 11], [8, 11], [0, 11], [1, 11], [0, 12], [1, 12], [2, 12]]
    out.append(_case(k7 + tri, 7, [0, 0, 0]))
    out.append(_case(k7 + tri, 7, mode="all", cap=40))
    # two K4 sharing an edge, two K5 sharing a triangle, m0 below / at / above
    for m0 in (2, 3, 4, 5, 6):
        out.append(_case(_kn([0, 1, 2, 3]) + _kn([2, 3, 4, 5]), m0, mode="all", cap=80))
        out.append(_case(_kn([0, 1, 2, 3, 4]) + _kn([2, 3, 4, 5, 6]), m0, [1, 2, 0, 3, 1, 0, 2]))
    out += [{"edges": [[0, 1]], "m0": 1, "ranks": []}, {"edges": [[0, 1], [1, 2]], "m0": 0, "ranks": []},
            {"edges": [], "m0": 2, "ranks": []}, {"edges": [], "m0": 0, "ranks": []}]
    return out


def _random_graph(rng):
    kind = rng.choice(["gnp", "gnp", "planted", "planted", "planted", "chain", "dense"])
    n = rng.randint(3, 12)
    es = []
    if kind in ("gnp", "dense"):
        p = rng.choice([0.15, 0.3, 0.5, 0.7]) if kind == "gnp" else rng.choice([0.85, 0.95, 1.0])
        if kind == "dense":
            n = rng.randint(3, 8)
        es = [(i, j) for i in range(n) for j in range(i + 1, n) if rng.random() < p]
    elif kind == "planted":
        n = rng.randint(5, 12)
        for _ in range(rng.randint(2, 4)):
            k = rng.choice([3, 4, 4, 5, 5, 6, 7])
            vs = rng.sample(range(n), min(k, n))
            es += _kn(vs)
        es += [(i, j) for i in range(n) for j in range(i + 1, n) if rng.random() < rng.choice([0.0, 0.1, 0.2])]
    else:  # chain of cliques overlapping in an edge or a vertex
        v = 0
        k = rng.choice([3, 4, 5])
        for _ in range(rng.randint(2, 4)):
            vs = list(range(v, v + k))
            es += _kn(vs)
            v += k - rng.choice([1, 2, 2])
            if v + k > 13:
                break
    # random relabelling so that vertex order is not correlated with structure
    labels = list(range(13))
    rng.shuffle(labels)
    es = [(labels[a], labels[b]) for a, b in es]
    return _canon_edges(es)


def _clique_number(es):
    vs = sorted({v for e in es for v in e})
    adj = {v: set() for v in vs}
    for a, b in es:
        adj[a].add(b)
        adj[b].add(a)
    best = 1 if vs else 0
    for k in range(2, len(vs) + 1):
        found = False
        for sub in itertools.combinations(vs, k):
            if all(b in adj[a] for a, b in itertools.combinations(sub, 2)):
                found = True
                break
        if not found:
            break
        best = k
    return best


def _small_exhaustive(pairs, m0s):
    for mask in range(1 << len(pairs)):
        es = [pairs[i] for i in range(len(pairs)) if mask >> i & 1]
        for m0 in m0s:
            yield es, m0


def generate(rng, tier):
    yield {"edges": [], "m0": 2, "mode": "float"}
    # 1. all graphs on <= 5 labelled vertices x m0 x every tie-break sequence (quick: a seeded sample)
    frac = 0.25 if tier == "quick" else 1.0
    for es, m0 in _small_exhaustive(PAIRS5, (2, 3, 4, 5)):
        if frac >= 1.0 or rng.random() < frac:
            yield _case(es, m0, mode="all")
    # 2. six vertices: a seeded sample (dense ones preferred: more overlap)
    n6 = 100 if tier == "quick" else 1200
    for _ in range(n6):
        dens = rng.choice([0.5, 0.7, 0.85, 1.0])
        es = [p for p in PAIRS6 if rng.random() < dens]
        yield _case(es, rng.choice([2, 3, 3, 4, 5, 6]), mode="all", cap=40 if tier == "quick" else 80)
    # 3. random graphs to 12 vertices, m0 below / at / above the clique number, random ranks
    nrand = 400 if tier == "quick" else 4000
    for i in range(nrand):
        es = _random_graph(rng)
        if not es:
            continue
        w = _clique_number(es)
        m0 = max(2, rng.choice([2, w - 2, w - 1, w - 1, w, w, w + 1, w + 3]))
        if i % 5 == 0:
            yield _case(es, m0, mode="all", cap=10 if tier == "quick" else 20)
        else:
            yield _case(es, m0, [rng.randint(0, 7) for _ in range(rng.randint(0, 30))])
    # 4. malformed stream
    for _ in range(20 if tier == "quick" else 100):
        es = _random_graph(rng) if rng.random() < 0.8 else []
        yield {"edges": [list(e) for e in es], "m0": rng.choice([0, 1]), "ranks": []}


def shrink(case):
    if case.get("mode") == "float":
        return
    es = case["edges"]
    vs = sorted({v for e in es for v in e})
    for v in vs:
        sub = [e for e in es if v not in e]
        if sub:
            yield dict(case, edges=sub)
    for i in range(len(es)):
        if len(es) > 1:
            yield dict(case, edges=es[:i] + es[i + 1:])
    if case.get("mode") == "all":
        yield {"edges": es, "m0": case["m0"], "ranks": []}
    else:
        rk = case.get("ranks", [])
        if rk:
            yield dict(case, ranks=rk[:-1])
            if any(rk):
                yield dict(case, ranks=[0] * len(rk))
    if case["m0"] > 2:
        yield dict(case, m0=case["m0"] - 1)


def describe(case, impl_obs):
    d = {"edges": case["edges"], "m0": case["m0"], "mode": case.get("mode", "one"), "ranks": case.get("ranks")}
    if _is_exc(impl_obs):
        d["impl"] = impl_obs
    elif case.get("mode") == "all":
        d["tie_break_sequences"] = len(impl_obs["leaves"])
        d["first_cover"] = impl_obs["leaves"][0][1]["cover"] if impl_obs["leaves"] else None
    elif case.get("mode") != "float":
        d["cover"] = impl_obs["cover"]
        d["candidates_per_round"] = [len(r) for r in impl_obs["rounds"]]
    return d


def histogram(cases):
    h = {"cases": len(cases), "mode_all": 0, "mode_one": 0, "malformed": 0}
    byn, bym = {}, {}
    for c in cases:
        if c.get("mode") == "float":
            continue
        if c["m0"] < 2 or not c["edges"]:
            h["malformed"] += 1
        h["mode_all" if c.get("mode") == "all" else "mode_one"] += 1
        n = len({v for e in c["edges"] for v in e})
        byn[n] = byn.get(n, 0) + 1
        bym[c["m0"]] = bym.get(c["m0"], 0) + 1
    h["vertices"] = {str(k): v for k, v in sorted(byn.items())}
    h["m0"] = {str(k): v for k, v in sorted(bym.items())}
    return h


def search(rng, tier, seeds):
    # the disagreeing cases first, with every tie-break; then the exhaustive small domain; then random
    batch = [dict(edges=s["edges"], m0=s["m0"], mode="all", cap=200) for s in seeds if s.get("mode") != "float"]
    if batch:
        yield batch
    batch = []
    for es, m0 in _small_exhaustive(PAIRS5, (2, 3, 4, 5, 6)):
        batch.append(_case(es, m0, mode="all"))
        if len(batch) == 400:
            yield batch
            batch = []
    for c in generate(rng, "thorough"):
        batch.append(c)
        if len(batch) == 300:
            yield batch
            batch = []
    if batch:
        yield batch
