"""C09 — EECC (gcmpy/covers/eecc.py) vs the Gallina model (Model/Eecc.v).

The graph reaches the object through every public construction path (`_feed`); graphs beyond the reach of the
brute-force model (mode 'big') are judged by the verified checker entry `c09_check_full_fast` (all three clauses; the
isolated-maximal-clique clause is decided there without enumerating maximal cliques).

Every tie-break of the greedy loop is scripted BY CONTENT: `gcmpy.covers.eecc.choice` is replaced by a
function that reads the clique list `C` from the caller's frame, sorts the offered candidate cliques
lexicographically and returns the index of the r-th one (r from the script, modulo the number of
candidates).  Nothing compared depends on hash-set iteration order: covers are compared as multisets,
clique lists as sorted lists, the candidate list of every round as a sorted list.
"""
import itertools
import sys

from harness import oracles

ID = "C09"
RULE = ("case = (edge list of a simple graph in arbitrary order/orientation, m0 (in 30 % of the cases passed as a numpy integer scalar or a subclass of int), tie-break ranks, construction paths); the "
        "graph reaches the EECC object through every public path - add_edges_from, add_edge, the G setter with a prebuilt "
        "nx.Graph (vertices inserted in an order unrelated to labels, attribute data; or nx.Graph(edge list)), mutation "
        "through the G getter (as the library's EdgeListToNetwork does), re-assignment of G on an object holding other "
        "contents, mixtures of these over chunks of the edge list, edges handed over twice, the bound set before the graph "
        "(about half of the fresh-object cases use another path than one add_edges_from); mode 'all' walks "
        "EVERY tie-break sequence of the real code (depth-first over the candidate counts it reports) and compares each "
        "leaf; mode 'hist' is a history of calls on one or two EECC objects (cliques queried, returned value damaged by "
        "the caller, graph extended through any construction path, m0 changed, get_EECC, graph rebuilt on the same object "
        "by adding edges or by assigning a prebuilt graph to G, get_EECC again), every call "
        "judged against the model on the CURRENT contents; mode 'big' is the CHECKER-ONLY stream: sparse graphs with "
        "25-80 (a share up to 160) vertices, planted overlapping cliques K3-K8 plus many separate cliques (so that nearly "
        "the whole clique list is dropped by the score-zero pass and the survivors sit at large spread-out positions), "
        "m0 in 2..9 around the clique number, three tie-break schedules per graph, no model run (the brute force cannot "
        "enumerate their maximal cliques): the cover is judged by the verified c09_check_full_fast - exact_cover_b, working "
        "graph empty, and the isolated-maximal-clique clause decided by the polynomial isolated_ok_fast_b (one candidate "
        "per edge), proved to give the answers of c09_check on every input; compared per run: find_cliques() as a sorted list, "
        "limited_maximal_cliques() as a sorted list (duplicates visible), the sorted candidate cliques offered to the "
        "tie-break in every round, the cover as a multiset, has_edges() and the vertex set afterwards, that the edge list "
        "handed in is untouched, the exception class for m0 < 2 / isolated vertices; when the tie-break is drawn with "
        "another random primitive than choice(indexes) the cover must be one of the outcomes the model enumerates; "
        "non-trivial = a run with a tie between >= 2 candidates or with a maximal clique larger than m0 "
        "(decomposition), or a history with a non-empty cover, or a 'big' run with at least one greedy round; distinct by "
        "(edges, m0, ranks/mode) or the step list")
EXHAUSTIVE = {"quick": False, "thorough": True}
EXPLANATION = ("GENERAL theorem C09_exact_cover_general / C09_full_holds: all loop-free graphs, all m0 >= 2, all tie-break "
               "schedules (invariant of the greedy loop); checker soundness general; additionally by reflection over all "
               "1024 edge subsets of K5 x m0 in 2..6 x every tie-break sequence the model's outputs pass the executable "
               "checker.  Correspondence: thorough = all 1024 graphs on <= 5 labelled vertices x m0 in 2..5 x all "
               "tie-break sequences, quick = a seeded quarter of those; plus 6-vertex graphs with every tie-break (capped), "
               "random graphs to 12 vertices with planted overlapping cliques and m0 below / at / above the clique "
               "number, histories on shared objects, and the malformed stream (m0 < 2, empty graph, isolated vertices); "
               "every stream feeds the graph through all public construction paths; beyond the model's reach (25-160 "
               "vertices) the implementation's covers are judged by the verified checker entry c09_check_full_fast on ALL THREE "
               "clauses (C09_check_full_fast_agrees: it answers what c09_check answers on every tree; "
               "C09_check_full_fast_entry_cover / _empty / _isolated tie its answers to the Prop-level ExactCover / empty "
               "working graph / IsolatedIntact of the simple graph handed over, C09_norm_graph_spec says which graph that "
               "is; the third clause is decided by isolated_ok_fast_b without enumerating maximal cliques, "
               "C09_check_isolated_fast_sound) - 210 such runs in the quick tier, 2100 in the thorough tier; that stream "
               "is sampled, not exhaustive")
ASSUMPTIONS = [
    "CPython float arithmetic is IEEE-754 binary64 with round-to-nearest-even (the model's fl_round); validated on "
    "every run against the float sums the interpreter computes (c09_fl)",
    "networkx find_cliques returns each maximal clique exactly once (compared with the model's brute force on every case)",
    "content-keyed tie-breaks need `choice(indexes)` to be called from a frame (or its callers) holding the clique list "
    "as local `C`; otherwise the run is position-keyed and judged against the set of all model outcomes",
]
TRUSTED = ["networkx.find_cliques is modelled (brute force over vertex subsets, proved sound and complete for the "
           "Prop-level notion of maximal clique), not verified; its output is compared with the model's on every case"]
TECHNIQUE = ("Coq proof: general invariant proof of the greedy loop (all graphs, all m0 >= 2, all tie-break schedules) + "
             "verified checker (general equivalence with the Prop-level specification) + reflection over a finite "
             "domain + model/implementation correspondence with content-keyed scripted tie-breaks")
LEVEL_TEXT = (
    "coq/Props/C09.v, all closed under the global context: (general) C09_exact_cover_general / C09_full_holds - for "
    "every edge list without self-loops, every m0 >= 2 and EVERY tie-break schedule the model of get_EECC ends "
    "normally within the fuel |E|+1, the working graph is empty, the cover consists of duplicate-free cliques of the "
    "input with 2..m0 vertices, every edge lies in exactly one member, and every maximal clique of size <= m0 sharing "
    "no edge with another maximal clique is a member; (general) exact_cover_b / isolated_ok_b - the checker run on the "
    "implementation's covers - are equivalent to these Prop-level specifications, the brute-force maximal-clique "
    "enumeration is sound and complete; (general) every scripted run is among the outcomes of eecc_all; (bounded, "
    "vm_compute, C09_exact_cover_upto_5) all 1024 edge subsets of K5 x m0 in 2..6 x every tie-break sequence pass the "
    "executable checker; (general, wire level) C09_norm_graph_spec - the graph the checker entries judge is exactly the "
    "simple graph of the edge list handed over; C09_check_cover_entry_sound / _empty / _agrees - the checker-only entry "
    "c09_check_cover answers 1 exactly when ExactCover holds for that graph / the working graph was reported empty, and "
    "its answers are the first two of c09_check; (general) C09_isolated_is_local - a maximal clique shares no edge with a "
    "different maximal clique exactly when no outside vertex has two neighbours in it; C09_check_isolated_fast_sound / "
    "_fast_eq - the polynomial isolated_ok_fast_b (one candidate per edge: the edge plus the common neighbours of its "
    "ends, no maximal-clique enumeration) is equivalent to IsolatedIntact, hence equal to isolated_ok_b, on every "
    "loop-free edge list; (bounded, vm_compute, independent of that proof) C09_check_isolated_fast_agrees_upto_5 - the two "
    "tests agree on all 1024 edge subsets of K5 x m0 in 1..6 x three probe covers; (general, wire level) C09_check_full_fast_agrees - the entry c09_check_full_fast answers "
    "exactly what c09_check answers on every tree, and C09_check_full_fast_entry_cover / _empty / _isolated tie its "
    "three answers to ExactCover / empty working graph / IsolatedIntact of the simple graph handed over.  The model (float-faithful scores, content-keyed tie-breaks) is tied to "
    "gcmpy/covers/eecc.py + network.py by the correspondence described in `rule`; the verified checker c09_check "
    "judges every cover the implementation returns on graphs within the model's reach (<= 12 vertices), "
    "c09_check_full_fast (the same three clauses, proved to give the same answers) the covers of the sampled 25-160 "
    "vertex graphs.")
LEVEL_NOTE = ("Trusted: Coq kernel (+ vm_compute for the bounded theorem only); extraction + OCaml driver + harness for "
              "the correspondence; networkx find_cliques modelled not verified (compared on every case); binary64 "
              "rounding model validated against the interpreter on every run.")
IMPL_TIMEOUT = 12.0

EXC_CODES = {2: "ValueError", 3: "IndexError"}
PAIRS5 = list(itertools.combinations(range(5), 2))
PAIRS6 = list(itertools.combinations(range(6), 2))
LEAF_CAP = 400


# ------------------------------------------------------------------ scripted tie-break
class NonTermination(RuntimeError):
    pass


class RankScript(oracles.Script):
    """One rank per tie-break.  `choice(seq)` called from a frame that holds the clique list `C` is answered BY
    CONTENT (the r-th candidate clique in lexicographic order).  Any other use of the random module (randrange,
    randint, random, choices, sample, shuffle, or a choice whose candidates cannot be read) is answered by position
    (index r mod n) and marks the run `unkeyed`: the cover is then compared with the SET of outcomes the model
    enumerates over all tie-breaks instead of with one scripted run - the property does not care which primitive
    draws the tie-break."""

    def __init__(self, ranks, limit):
        super().__init__([])
        self.ranks = list(ranks)
        self.rounds = []
        self.counts = []
        self.keyed = True
        self.limit = limit

    def _next(self, n):
        r = self.ranks.pop(0) if self.ranks else 0
        self.counts.append(n)
        if len(self.counts) > self.limit:
            raise NonTermination("more tie-breaks than the graph has edges")
        return r % n if n > 0 else 0

    def choice(self, seq):
        if len(seq) == 0:
            raise IndexError("Cannot choose from an empty sequence")
        C = None
        try:
            f = sys._getframe(1)
            for _ in range(3):
                cand = f.f_locals.get("C")
                if isinstance(cand, list) and all(isinstance(i, int) and 0 <= i < len(cand) for i in seq):
                    C = cand
                    break
                f = f.f_back
                if f is None:
                    break
        except Exception:  # noqa: BLE001
            C = None
        if C is None:
            self.keyed = False
            return seq[self._next(len(seq))]
        cands = sorted(([int(v) for v in C[i]], k) for k, i in enumerate(seq))
        self.rounds.append([c for c, _ in cands])
        return seq[cands[self._next(len(cands))][1]]

    def randrange(self, a, b=None, step=1):
        if b is None:
            a, b = 0, a
        self.keyed = False
        return a + self._next(b - a)

    def randint(self, a, b):
        self.keyed = False
        return a + self._next(b - a + 1)

    def random(self):
        self.keyed = False
        return self._next(8) / 8.0

    def choices(self, population, weights=None, *, cum_weights=None, k=1):
        self.keyed = False
        return [population[self._next(len(population))] for _ in range(k)]

    def sample(self, population, k, **kw):
        self.keyed = False
        pop = list(population)
        i = self._next(len(pop))
        return (pop[i:] + pop[:i])[:k]

    def shuffle(self, x):
        self.keyed = False
        i = self._next(len(x)) if len(x) else 0
        x[:] = x[i:] + x[:i]


PRIMS = ["choice", "randrange", "randint", "random", "choices", "sample", "shuffle"]


class _patched:
    """replace the random entry points - in the random module and every from-import of them in the anchored modules"""

    def __init__(self, script):
        self.script = script
        self.saved = []

    def __enter__(self):
        import random as _r
        import gcmpy.covers.eecc as E
        import gcmpy.network.network as NW
        for n in PRIMS:
            self.saved.append((_r, n, getattr(_r, n)))
            setattr(_r, n, getattr(self.script, n))
        for mod in (E, NW):
            for name, val in list(vars(mod).items()):
                if getattr(val, "__self__", None) is _r._inst and getattr(val, "__name__", None) in PRIMS:
                    self.saved.append((mod, name, val))
                    setattr(mod, name, getattr(self.script, val.__name__))
        return self.script

    def __exit__(self, *a):
        for mod, name, val in reversed(self.saved):
            setattr(mod, name, val)
        return False


def _canon_cliques(cs):
    return sorted([int(v) for v in c] for c in cs)


def _eecc_call(net, ranks, nedges):
    script = RankScript(ranks, 4 * nedges + 20)
    with _patched(script):
        cover = net.get_EECC()
        he_api = bool(net.has_edges())
    # the working graph itself is inspected (a wrong has_edges() must not vouch for itself); the API answer is compared too
    he = net.G.number_of_edges() > 0
    return {"cover": _canon_cliques(cover), "has_edges": int(he), "has_edges_api": int(he_api), "keyed": int(script.keyed),
            "rounds": script.rounds if script.keyed else None, "counts": script.counts,
            "nodes_after": sorted(int(v) for v in net.G.nodes())}, cover


# ------------------------------------------------------------------ construction paths
# every public way a graph reaches an EECC object (the property is about the graph the object holds, not about how it
# got there): the two mutators of Network, the `G` setter with a prebuilt nx.Graph (how the library hands graphs
# around), mutation through the `G` getter (how the library's own EdgeListToNetwork fills a Network), and
# re-assignment of G on an object that already holds other contents
BUILD_PATHS = ["aef", "ae", "set", "setc", "get", "gete", "reset", "aefi", "aefg", "aefl"]
JUNK = 2000003


def _chunks(seq, k):
    n = len(seq)
    return [seq[i * n // k:(i + 1) * n // k] for i in range(k)]


def _prebuilt(net, chunk, ctor=False, keep=True):
    """an nx.Graph holding what `net` holds now (when `keep`) plus `chunk`; vertices inserted in an order unrelated to
    their labels, vertices / edges / graph carrying attribute data"""
    import networkx as nx
    old_nodes = list(net.G.nodes()) if keep else []
    old_edges = list(net.G.edges()) if keep else []
    if ctor:
        g = nx.Graph(old_edges + [tuple(e) for e in chunk])
        g.add_nodes_from(old_nodes)
        return g
    g = nx.Graph(name="prebuilt")
    seen = set(old_nodes)
    nodes = list(old_nodes)
    for e in chunk:
        for v in e:
            if v not in seen:
                seen.add(v)
                nodes.append(v)
    for i, v in enumerate(reversed(nodes)):
        g.add_node(v, tag=("n", i))
    for i, e in enumerate(old_edges + [tuple(e) for e in chunk]):
        g.add_edge(e[0], e[1], w=i)
    return g


def _feed(net, chunk, path):
    """hand the edges of `chunk` (list of tuples) to `net` through one public path; what the object held before
    stays (for the paths that assign a new graph it is copied into the new graph)"""
    if path == "aef":
        net.add_edges_from(chunk)
    elif path == "aefi":
        net.add_edges_from(iter(chunk))                  # a one-shot iterator
    elif path == "aefg":
        net.add_edges_from((a, b) for a, b in chunk)     # a generator
    elif path == "aefl":
        net.add_edges_from([list(e) for e in chunk])     # edges as lists, in a list
    elif path == "ae":
        for e in chunk:
            net.add_edge(e)
    elif path == "get":
        net.G.add_edges_from(chunk)
    elif path == "gete":
        for e in chunk:
            net.G.add_edge(e[0], e[1])
    elif path in ("set", "setc"):
        net.G = _prebuilt(net, chunk, ctor=(path == "setc"))
    elif path == "reset":
        # other contents arrive through the mutators first, then the whole graph is replaced by assignment
        g = _prebuilt(net, chunk)
        vs = sorted({v for e in chunk for v in e})
        net.add_edges_from([(vs[0], JUNK), (JUNK, JUNK + 1), (vs[0], JUNK + 1)] + [(e[1], e[0]) for e in chunk[:2]])
        net.add_edge((JUNK + 1, JUNK + 2))
        net.G = g
    else:
        raise ValueError(f"unknown construction path {path}")


M0_TYPES = ["np.int64", "np.int32", "np.int16", "np.uint8", "np.intp", "intsub"]


class _IntSub(int):
    """a user-defined subclass of int"""


def _m0_value(m0, typ):
    """m0 in the number type the case asks for (case key "m0type"; default: a Python int)"""
    if not typ or typ == "int":
        return m0
    if typ == "intsub":
        return _IntSub(m0)
    import numpy as np
    return getattr(np, typ[3:])(m0)


def _run_once(edges, m0, ranks, labels=None, build=None, big=False, dup=False, m0type=None):
    """one fresh object; `labels` (strictly increasing ints, vertex i -> labels[i]) relabels the graph handed to the
    implementation order-preservingly (non-contiguous / large / negative labels); observations are mapped back;
    `build` = the construction paths, one per consecutive chunk of the edge list (default: one add_edges_from);
    `big` = no clique queries before get_EECC (checker-only stream)"""
    import copy
    import gcmpy.covers.eecc as E
    build = list(build or ["aef"])
    fwd = (lambda v: labels[v]) if labels else (lambda v: v)
    inv = {l: i for i, l in enumerate(labels)} if labels else None
    net = E.EECC()
    given = _chunks([tuple(fwd(v) for v in e) for e in edges], len(build))
    keep = copy.deepcopy(given)
    if build[0] == "late":
        # the bound is set before the graph arrives
        net.set_max_clique_size(_m0_value(m0, m0type))
        build = build[1:] or ["aef"]
        given = _chunks([e for ch in given for e in ch], len(build))
        keep = copy.deepcopy(given)
    for ch, path in zip(given, build):
        if ch:
            _feed(net, ch, path)
    if dup and edges:
        # edges the graph already has are handed over again (other orientation, each mutator): contents unchanged
        flat = [e for ch in given for e in ch]
        for e in flat[:3]:
            net.add_edge((e[1], e[0]))
        net.add_edges_from([(e[1], e[0]) for e in flat[-3:]] + flat[:1])
    net.set_max_clique_size(_m0_value(m0, m0type))
    # a second object with other contents and another bound, built through another path, stays alive while the first is read
    decoy = E.EECC()
    dch = ([(fwd(0) + 1000003, fwd(0) + 1000004), (fwd(0) + 1000004, fwd(0) + 1000005),
            (fwd(0) + 1000003, fwd(0) + 1000005)] if edges else [(1000003, 1000004)])
    _feed(decoy, dch, "set" if build[0] in ("aef", "ae") else "aef")
    decoy.set_max_clique_size(m0 + 1)
    mc = lim = None
    if not big:
        with _patched(RankScript([], 10)):
            mc = sorted(sorted(int(v) for v in c) for c in net.find_cliques())
            lim = _canon_cliques(net.limited_maximal_cliques())
            decoy.limited_maximal_cliques()
    obs, _ = _eecc_call(net, ranks, len(edges))
    if not big:
        obs["maxcliques"] = mc
        obs["limited"] = lim
    obs["input_unchanged"] = int(given == keep)
    obs["decoy_edges"] = int(decoy.G.number_of_edges())
    if inv is not None:
        def back(cs):
            # a label the graph never had stays recognisable (and is rejected by the checker as a non-vertex)
            return sorted(sorted(inv.get(v, 100000 + abs(v)) for v in c) for c in cs)
        obs["cover"] = back(obs["cover"])
        if not big:
            obs["maxcliques"] = back(mc)
            obs["limited"] = back(lim)
        obs["nodes_after"] = sorted(inv.get(v, 100000 + abs(v)) for v in obs["nodes_after"])
        if obs["rounds"] is not None:
            obs["rounds"] = [[[inv.get(v, 100000 + abs(v)) for v in c] for c in r] for r in obs["rounds"]]
    if big:
        obs["rounds"] = None          # not compared (no model run); keeps the replay file small
    return obs


def _contents(steps):
    """bookkeeping of a history: the contents (edges, isolated vertices, m0) each object has BEFORE every step"""
    cur = {}
    out = []
    for st in steps:
        o = st[1]
        es, nodes, m0 = cur.get(o, (set(), set(), 2))
        out.append((sorted(es), sorted(nodes - {v for e in es for v in e}), m0))
        if st[0] == "add":
            new = {(min(a, b), max(a, b)) for a, b in st[2]}
            es = es | new
            nodes = nodes | {v for e in new for v in e}
        elif st[0] == "setg":
            # the whole graph is replaced by assignment: nothing of the old contents (not even its vertices) stays
            es = {(min(a, b), max(a, b)) for a, b in st[2]}
            nodes = {v for e in es for v in e}
        elif st[0] == "m0":
            m0 = st[2]
        elif st[0] == "eecc":
            es = set()
        cur[o] = (es, nodes, m0)
    return out


def _run_history(steps, m0type=None):
    import gcmpy.covers.eecc as E
    objs, last, out = {}, {}, []
    for st, (es, iso, m0) in zip(steps, _contents(steps)):
        o = st[1]
        if o not in objs:
            objs[o] = E.EECC()
        net = objs[o]
        if st[0] == "add":
            _feed(net, [tuple(e) for e in st[2]], st[3] if len(st) > 3 else "aef")
            out.append(None)
        elif st[0] == "setg":
            net.G = _prebuilt(net, [tuple(e) for e in st[2]], ctor=bool(len(st) > 3 and st[3]), keep=False)
            out.append(None)
        elif st[0] == "m0":
            net.set_max_clique_size(_m0_value(st[2], m0type))
            out.append(None)
        elif st[0] == "mc":
            with _patched(RankScript([], 10)):
                last[o] = net.find_cliques()
            out.append(_canon_cliques(sorted(c) for c in last[o]))
        elif st[0] == "lim":
            with _patched(RankScript([], 10)):
                last[o] = net.limited_maximal_cliques()
            out.append(_canon_cliques(last[o]))
        elif st[0] == "he":
            out.append(int(bool(net.has_edges())))
        elif st[0] == "damage":
            # the caller damages the value it was handed last (legitimate: it owns it)
            r = last.get(o)
            if isinstance(r, list):
                for c in r:
                    if isinstance(c, list):
                        c.append(99)
                r.reverse()
                r.append([97, 98])
            out.append(None)
        else:  # eecc
            try:
                obs, raw = _eecc_call(net, st[2], len(es))
                last[o] = raw
                out.append(obs)
            except NonTermination:
                raise
            except (IndexError, ValueError) as e:
                out.append(["!exc", type(e).__name__])
    return {"steps": out}


def impl(case):
    mode = case.get("mode")
    if mode == "float":
        # the float the interpreter accumulates: r = 0.0; k times r += 1.0 / binom(order, 2)
        from fractions import Fraction
        from gcmpy.covers.eecc import binom
        out = []
        for k, o in FL_PROBE:
            r = 0.0
            for _ in range(k):
                r += 1.0 / binom(o, 2)
            f = Fraction(r)
            out.append([f.numerator, f.denominator])
        return out
    if mode == "hist":
        return _run_history(case["steps"], case.get("m0type"))
    edges, m0 = case["edges"], case["m0"]
    labels = case.get("labels")
    build, dup = case.get("build"), bool(case.get("dup"))
    if mode != "all":
        return _run_once(edges, m0, case.get("ranks", []), labels, build, big=(mode == "big"), dup=dup, m0type=case.get("m0type"))
    # walk every tie-break sequence of the real code: each run follows `prefix` and then rank 0 to the end, which
    # is one leaf; its siblings at every depth beyond the prefix are pushed
    leaves = []
    stack = [[]]
    cap = case.get("cap", LEAF_CAP)
    while stack and len(leaves) < cap:
        prefix = stack.pop()
        obs = _run_once(edges, m0, prefix, labels, build, dup=dup, m0type=case.get("m0type"))
        counts = obs["counts"]
        full = prefix + [0] * (len(counts) - len(prefix))
        leaves.append([full, obs])
        for d in range(len(counts) - 1, len(prefix) - 1, -1):
            for k in range(counts[d] - 1, 0, -1):
                stack.append(full[:d] + [k])
    return {"leaves": leaves, "truncated": int(bool(stack))}


# ------------------------------------------------------------------ model side
FL_PROBE = [(k, o) for o in range(3, 9) for k in (1, 2, 3, o, o * (o - 1) // 2)]
ALL_MAX_VERTS = 6


def _is_exc(x):
    return isinstance(x, list) and len(x) > 0 and x[0] == "!exc"


def _nverts(edges):
    return len({v for e in edges for v in e})


def _leaves(case, impl_obs):
    if _is_exc(impl_obs):
        return []
    if case.get("mode") == "all":
        return [(rk, ob) for rk, ob in impl_obs["leaves"]]
    return [(case.get("ranks", []), impl_obs)]


def _hist_obs_steps(case, impl_obs):
    """(step, contents, observation) of the observing steps of a history"""
    if _is_exc(impl_obs):
        return []
    return [(st, ct, ob) for st, ct, ob in zip(case["steps"], _contents(case["steps"]), impl_obs["steps"])
            if st[0] in ("mc", "lim", "eecc", "he")]


def _need_all(case, impl_obs):
    return (not _is_exc(impl_obs) and case["m0"] >= 2 and _nverts(case["edges"]) <= ALL_MAX_VERTS
            and any(not ob["keyed"] for _, ob in _leaves(case, impl_obs)))


def model_calls(case, impl_obs):
    mode = case.get("mode")
    if mode == "float":
        return [("c09_fl", [k, o]) for k, o in FL_PROBE]
    if mode == "hist":
        calls = []
        for st, (es, iso, m0), ob in _hist_obs_steps(case, impl_obs):
            if st[0] == "eecc":
                calls.append(("c09_run", [es, m0, st[2], iso]))
            else:
                calls.append(("c09_lim", [es, m0, iso]))
        return calls
    if mode == "big":
        return []            # checker-only stream: the brute-force model cannot enumerate the maximal cliques of these graphs
    lv = _leaves(case, impl_obs)
    if not lv:
        lv = [(case.get("ranks", []), None)]
    calls = [("c09_run", [case["edges"], case["m0"], rk]) for rk, _ in lv]
    if _need_all(case, impl_obs):
        calls.append(("c09_all", [case["edges"], case["m0"]]))
    return calls


def _dec(raw):
    if isinstance(raw, str):
        return ["!model", raw]
    if len(raw) == 2 and raw[0] == -1:
        return ["!exc", EXC_CODES.get(raw[1], str(raw[1]))]
    st, cover, fin, rounds, mc, lim = raw
    if st == 2:
        return ["!exc", "ValueError"]
    if st == 1:
        return ["!model", "fuel exhausted"]
    return {"cover": sorted(cover), "has_edges": int(len(fin) > 0), "rounds": rounds, "maxcliques": sorted(mc),
            "limited": sorted(lim)}


def model_obs(case, raws):
    mode = case.get("mode")
    if mode == "float":
        return [[r[0], r[1]] for r in raws]
    if mode == "hist":
        obs_steps = [st for st in case["steps"] if st[0] in ("mc", "lim", "eecc", "he")]
        if len(raws) != len(obs_steps):
            return []
        return [_dec(r) if st[0] == "eecc" else r for st, r in zip(obs_steps, raws)]
    if mode == "big":
        return []
    out = []
    for r in raws:
        if isinstance(r, list) and (r == [] or isinstance(r[0], list)):  # c09_all: list of (status cover)
            out.append({"all": sorted(sorted(c) for st, c in r if st == 0), "bad": [st for st, c in r if st != 0]})
        else:
            out.append(_dec(r))
    return out


def _cmp_one(a, b, where, edges, alls=None):
    if _is_exc(a):
        if _is_exc(b) and a[1] == b[1]:
            return None
        return f"{where}: implementation raised {a[1]}, model {str(b)[:160]}"
    if _is_exc(b) or (isinstance(b, list) and b and b[0] == "!model"):
        return f"{where}: implementation returned a cover, model says {b}"
    keys = ["maxcliques", "limited", "has_edges"] if "maxcliques" in a else ["has_edges"]
    for k in keys:
        if a[k] != b[k]:
            return f"{where}: {k}: impl {a[k]} model {b[k]}"
    d = _cmp_self(a, where)
    if d:
        return d
    if a["keyed"]:
        if [sorted(r) for r in a["rounds"]] != b["rounds"]:
            return f"{where}: candidates offered to the tie-break: impl {a['rounds']} model {b['rounds']}"
        if a["cover"] != b["cover"]:
            return f"{where}: cover: impl {a['cover']} model {b['cover']}"
    elif alls is not None:
        if a["cover"] not in alls["all"]:
            return f"{where}: cover {a['cover']} is none of the {len(alls['all'])} outcomes the model reaches (position-keyed tie-break)"
    return None


def _cmp_self(a, where):
    """the observations that need no model: has_edges() against the working graph itself, the edge lists handed in
    untouched, the second object alive at the same time undisturbed"""
    if a["has_edges_api"] != a["has_edges"]:
        return f"{where}: has_edges() says {a['has_edges_api']} but the working graph has {'some' if a['has_edges'] else 'no'} edges"
    if a.get("input_unchanged", 1) != 1:
        return f"{where}: the edge list handed to the construction path was modified"
    if a.get("decoy_edges", 3) not in (1, 3):
        return f"{where}: a second EECC object alive at the same time lost / gained edges ({a.get('decoy_edges')})"
    return None


def compare(case, impl_obs, model):
    mode = case.get("mode")
    if mode == "float":
        from fractions import Fraction
        if _is_exc(impl_obs):
            return f"float probe raised {impl_obs[1]}"
        for (k, o), (mn, md), (xn, xd) in zip(FL_PROBE, model, impl_obs):
            if Fraction(xn, xd) != Fraction(mn, md):
                return f"float score k={k} order={o}: interpreter {xn}/{xd} model {mn}/{md}"
        return None
    if mode == "hist":
        if _is_exc(impl_obs):
            return f"history raised {impl_obs[1]}"
        hs = _hist_obs_steps(case, impl_obs)
        if len(hs) != len(model):
            return "history length mismatch"
        for n, ((st, (es, iso, m0), ob), mo) in enumerate(zip(hs, model)):
            where = f"history step {st[:2]} (edges {es}, isolated {iso}, m0 {m0})"
            if st[0] == "eecc":
                d = _cmp_one(ob, mo, where, es)
                if d:
                    return d
                if not _is_exc(ob) and ob["nodes_after"] != sorted(set(iso) | {v for e in es for v in e}):
                    return f"{where}: vertex set afterwards {ob['nodes_after']}"
            elif st[0] == "he":
                if ob != int(len(es) > 0):
                    return f"{where}: has_edges() = {ob}"
            else:
                want = mo[0] if st[0] == "mc" else mo[1]
                if ob != sorted(want):
                    return f"{where}: impl {ob} model {sorted(want)}"
        return None
    if mode == "big":
        if _is_exc(impl_obs):
            return f"implementation raised {impl_obs[1]} (checker-only stream, no model run)"
        d = _cmp_self(impl_obs, f"ranks {case.get('ranks', [])}")
        if d:
            return d
        if impl_obs["nodes_after"] != sorted({v for e in case["edges"] for v in e}):
            return f"vertex set afterwards {impl_obs['nodes_after']}"
        return None
    if _is_exc(impl_obs):
        if len(model) >= 1 and _is_exc(model[0]) and model[0][1] == impl_obs[1]:
            return None
        return f"implementation raised {impl_obs[1]}, model {str(model)[:200]}"
    lv = _leaves(case, impl_obs)
    alls = model[-1] if _need_all(case, impl_obs) else None
    runs = model[:-1] if alls is not None else model
    if len(lv) != len(runs):
        return "leaf count mismatch"
    for (rk, ob), mo in zip(lv, runs):
        d = _cmp_one(ob, mo, f"ranks {rk}", case["edges"], alls)
        if d:
            return d
        if ob["nodes_after"] != sorted({v for e in case["edges"] for v in e}):
            return f"ranks {rk}: vertex set afterwards {ob['nodes_after']}"
    if alls is not None:
        if alls["bad"]:
            return f"model enumeration has abnormal outcomes {alls['bad'][:3]}"
        if mode == "all" and not impl_obs.get("truncated"):
            got = sorted({json_key(ob["cover"]) for _, ob in lv})
            want = sorted({json_key(c) for c in alls["all"]})
            if got != want:
                return (f"walking every tie-break of the implementation reaches {len(got)} distinct covers, "
                        f"the model {len(want)}")
    return None


def json_key(x):
    import json
    return json.dumps(x)


def _valid(case):
    return case["m0"] >= 2 and len(case["edges"]) > 0 and case.get("mode") != "float"


def check_calls(case, impl_obs):
    mode = case.get("mode")
    if mode == "float":
        return []
    if mode == "hist":
        return [("c09_check", [es, m0, ob["cover"], ob["has_edges"]])
                for st, (es, iso, m0), ob in _hist_obs_steps(case, impl_obs)
                if st[0] == "eecc" and not iso and m0 >= 2 and not _is_exc(ob)]
    # checker-only stream: all three clauses, the third decided without enumerating maximal cliques
    # (C09_check_full_fast_agrees: the same answers as c09_check on every tree)
    entry = "c09_check_full_fast" if mode == "big" else "c09_check"
    return [(entry, [case["edges"], case["m0"], ob["cover"], ob["has_edges"]]) for _, ob in _leaves(case, impl_obs)]


CHECK_NAMES = ["exact_cover_b (members are cliques of the input with 2..m0 vertices, every edge in exactly one)",
               "working graph empty afterwards", "isolated maximal cliques of size <= m0 returned intact"]


def _verdict_one(r, where, cover, entry="c09_check"):
    nclauses = 3
    if r != [1] * nclauses:
        bad = [n for n, b in zip(CHECK_NAMES, r if isinstance(r, list) and len(r) == nclauses else [0] * nclauses) if b != 1]
        return (f"{entry} rejected the cover returned {where}: "
                f"violated: {'; '.join(bad)}; cover {cover}")
    return None


def check_verdict(case, impl_obs, raws):
    mode = case.get("mode")
    if mode == "float":
        return None
    if mode == "hist":
        if _is_exc(impl_obs):
            return (f"implementation raised {impl_obs[1]} in a history of calls the property covers"
                    if impl_obs[1] in ("NonTermination", "Timeout") else None)
        k = 0
        for st, (es, iso, m0), ob in _hist_obs_steps(case, impl_obs):
            if st[0] != "eecc" or iso or m0 < 2:
                continue
            if _is_exc(ob):
                return f"get_EECC raised {ob[1]} on edges {es}, m0 {m0} (no isolated vertices): the property covers it"
            d = _verdict_one(raws[k], f"by history step {st[:2]} on edges {es}, m0 {m0}", ob["cover"])
            k += 1
            if d:
                return d
        return None
    if _is_exc(impl_obs):
        if case["m0"] >= 2:
            return f"implementation raised {impl_obs[1]} on a graph / m0 the property covers"
        return None
    if case["m0"] < 2:
        return None
    for (rk, ob), r in zip(_leaves(case, impl_obs), raws):
        d = _verdict_one(r, f"under ranks {rk}", ob["cover"], "c09_check_full_fast" if mode == "big" else "c09_check")
        if d:
            return d
    return None


def nontrivial_key(case, impl_obs):
    mode = case.get("mode")
    if mode == "float" or _is_exc(impl_obs):
        return None
    if mode == "hist":
        n = sum(1 for st, ct, ob in _hist_obs_steps(case, impl_obs) if st[0] == "eecc" and not _is_exc(ob) and ob["cover"])
        return case["steps"] if n >= 1 else None
    if not _valid(case):
        return None
    for _, ob in _leaves(case, impl_obs):
        if any(n >= 2 for n in ob["counts"]) or any(len(c) > case["m0"] for c in ob.get("maxcliques", [])) \
                or (mode == "big" and len(ob["counts"]) >= 1):
            return [case["edges"], case["m0"], case.get("mode", "one"), case.get("ranks", [])]
    return None


# ------------------------------------------------------------------ generators
TEST_FIXTURE = [[1, 2], [1, 14], [2, 4], [2, 13], [2, 14], [3, 4], [3, 5], [4, 5], [4, 13], [4, 14], [6, 7], [6, 13],
                [7, 8], [7, 13], [8, 9], [8, 13], [9, 10], [9, 11], [9, 13], [10, 11], [11, 12], [12, 13], [13, 14]]


def _kn(vs):
    return [[a, b] for a, b in itertools.combinations(sorted(vs), 2)]


def _canon_edges(es):
    return sorted({(min(a, b), max(a, b)) for a, b in es if a != b})


def _scramble(rng, es):
    """the same graph handed over in another edge order / orientation (the result must not depend on it)"""
    es = [list(e) if rng.random() < 0.5 else [e[1], e[0]] for e in es]
    rng.shuffle(es)
    return es


def _pick_path(rng):
    return "aef" if rng.random() < 0.35 else rng.choice(BUILD_PATHS)


def _pick_build(rng):
    """construction paths of a fresh object: one path for the whole edge list, or a mixture over 2-3 chunks;
    sometimes the bound is set before the graph arrives"""
    b = [_pick_path(rng) for _ in range(rng.choice([1, 1, 2, 3]))]
    if rng.random() < 0.1:
        b = ["late"] + b
    return b


def _history(rng):
    """a history of calls on one or two EECC objects: cliques queried, the returned value damaged by the caller, the
    graph extended (through any construction path), m0 changed, get_EECC, the graph rebuilt on the same object (edges
    added again, or a prebuilt graph assigned to G) and get_EECC again"""
    per = {}
    for o in ([0, 1] if rng.random() < 0.5 else [0]):
        es = []
        while not es:
            es = _random_graph(rng, nmax=8)
        es = _scramble(rng, es)
        k = rng.randint(1, len(es))
        w = _clique_number(es)
        if rng.random() < 0.3:
            k = 1
        st = [["add", o, es[:k], _pick_path(rng)], ["he", o], ["m0", o, max(2, rng.choice([2, w - 1, w, w + 1]))]]
        st.append([rng.choice(["mc", "lim"]), o])
        if rng.random() < 0.6:
            st.append(["damage", o])
        if k < len(es):
            st.append(["add", o, es[k:], _pick_path(rng)])
        st.append([rng.choice(["mc", "lim"]), o])
        if rng.random() < 0.5:
            st += [["m0", o, max(2, rng.choice([2, 3, w - 1, w]))], ["lim", o]]
        st.append(["eecc", o, [rng.randint(0, 5) for _ in range(rng.randint(0, 8))]])
        st.append(["he", o])
        if rng.random() < 0.5:
            st.append(["damage", o])
        if rng.random() < 0.25:
            st.append(["eecc", o, []])            # nothing but isolated vertices: the code raises IndexError
        # rebuild on the same object so that every old vertex carries an edge again
        old = sorted({v for e in es for v in e})
        es2 = []
        while not es2:
            es2 = _random_graph(rng, nmax=7)
        vs2 = sorted({v for e in es2 for v in e} | set(old))
        touched = {v for e in es2 for v in e}
        for v in old:
            if v not in touched:
                u = rng.choice([x for x in vs2 if x != v])
                es2.append((min(u, v), max(u, v)))
                touched |= {u, v}
        es2 = _scramble(rng, _canon_edges(es2))
        if rng.random() < 0.35:
            # a prebuilt graph is assigned to G of the used object (its old vertices go with the old graph)
            es3 = []
            while not es3:
                es3 = _random_graph(rng, nmax=7)
            st.append(["setg", o, _scramble(rng, es3), rng.randint(0, 1)])
            if rng.random() < 0.3:
                st.append(["he", o])
        else:
            k2 = rng.randint(1, len(es2))
            st.append(["add", o, es2[:k2], _pick_path(rng)])
            if k2 < len(es2):
                st.append(["add", o, es2[k2:], _pick_path(rng)])
        if rng.random() < 0.5:
            st.append(["lim", o])
        st.append(["eecc", o, [rng.randint(0, 5) for _ in range(rng.randint(0, 8))]])
        per[o] = st
    # interleave the objects' steps, keeping each object's order
    steps = []
    while any(per.values()):
        o = rng.choice([o for o in per if per[o]])
        steps.append(per[o].pop(0))
    return {"mode": "hist", "steps": steps}


def _case(es, m0, ranks=None, mode=None, cap=None, rng=None, build=None, dup=False):
    c = {"edges": [list(e) for e in _canon_edges(es)], "m0": m0}
    if build:
        c["build"] = list(build)
    if dup:
        c["dup"] = 1
    if rng is not None:
        c["edges"] = _scramble(rng, c["edges"])
        if rng.random() < 0.5 and c["edges"]:
            # non-contiguous labels (order-preserving): the model keeps 0..n-1, the implementation sees the labels
            vs = sorted({v for e in c["edges"] for v in e})
            lab = sorted(rng.sample(range(-50, 3000), len(vs)))
            idx = {v: i for i, v in enumerate(vs)}
            c["edges"] = [[idx[a], idx[b]] for a, b in c["edges"]]
            c["labels"] = lab
    if mode:
        c["mode"] = mode
        if cap:
            c["cap"] = cap
    if not mode or mode == "big":
        c["ranks"] = list(ranks or [])
    return c


def corpus():
    design = [[0, 2], [0, 5], [1, 3], [1, 4], [1, 5], [2, 3], [2, 4], [2, 5], [4, 5]]
    out = [_case(design, 2, []), _case(design, 2, mode="all"), _case(design, 3, mode="all")]
    out.append({"edges": [], "m0": 2, "mode": "float"})
    for m0 in (2, 3, 4, 5):
        out.append(_case(TEST_FIXTURE, m0, [0, 1, 2, 0, 1, 2, 3]))
        out.append(_case(TEST_FIXTURE, m0, mode="all", cap=60))
    # a K7 and a triangle whose scores tie as rationals (14/21 = 2/3) but not as floats
    k7 = _kn(range(7))
    tri = [[7, 8], [7, 9], [8, 9], [7, 10], [8, 10], [9, 11], [8, 11], [0, 11], [1, 11], [0, 12], [1, 12], [2, 12]]
    out.append(_case(k7 + tri, 7, [0, 0, 0]))
    out.append(_case(k7 + tri, 7, mode="all", cap=40))
    # graphs on which exact-rational scores and the binary64 scores of the code pick different cliques (found by search)
    fl1 = [(0, 1), (0, 2), (0, 3), (0, 4), (0, 5), (0, 6), (0, 7), (0, 8), (1, 2), (1, 3), (1, 4), (1, 5), (1, 6), (1, 7),
           (1, 8), (2, 3), (2, 4), (2, 5), (2, 6), (3, 4), (3, 5), (3, 6), (3, 7), (3, 8), (4, 5), (4, 6), (4, 7), (4, 8),
           (5, 6), (5, 7), (6, 8)]
    fl2 = [(0, 1), (0, 2), (0, 3), (0, 4), (0, 5), (0, 6), (0, 7), (0, 8), (0, 9), (1, 2), (1, 3), (1, 4), (1, 5), (1, 6),
           (1, 9), (2, 3), (2, 4), (2, 5), (2, 6), (2, 7), (3, 4), (3, 5), (3, 6), (3, 7), (4, 5), (4, 6), (4, 7), (4, 8),
           (4, 9), (5, 6), (5, 7), (6, 8), (8, 9)]
    for fl in (fl1, fl2):
        out.append(_case(fl, 7, []))
        out.append(_case(fl, 7, mode="all", cap=30))
    # two K4 sharing an edge, two K5 sharing a triangle, m0 below / at / above
    for m0 in (2, 3, 4, 5, 6):
        out.append(_case(_kn([0, 1, 2, 3]) + _kn([2, 3, 4, 5]), m0, mode="all", cap=80))
        out.append(_case(_kn([0, 1, 2, 3, 4]) + _kn([2, 3, 4, 5, 6]), m0, [1, 2, 0, 3, 1, 0, 2]))
    out.append({"mode": "hist", "steps": [
        ["add", 0, [[0, 1], [1, 2]]], ["m0", 0, 3], ["lim", 0], ["damage", 0], ["add", 0, [[2, 0], [2, 3]]], ["lim", 0],
        ["mc", 0], ["m0", 0, 2], ["lim", 0], ["eecc", 0, [0]], ["damage", 0], ["eecc", 0, []],
        ["add", 0, [[0, 3], [1, 2], [1, 3], [0, 1]]], ["m0", 0, 3], ["lim", 0], ["eecc", 0, [1, 1]]]})
    out.append({"mode": "hist", "steps": [
        ["add", 0, [[0, 1], [0, 2], [1, 2], [2, 3]]], ["add", 1, [[5, 6], [6, 7], [5, 7], [4, 5], [4, 6], [4, 7]]],
        ["m0", 0, 3], ["m0", 1, 3], ["lim", 1], ["lim", 0], ["mc", 1], ["eecc", 1, [2]], ["eecc", 0, []],
        ["add", 1, [[4, 5], [6, 7], [4, 6]]], ["lim", 1], ["eecc", 1, []]]})
    # every public construction path (and mixtures, edges handed twice, the bound set first) on graphs with overlap
    tt = [[1, 2], [1, 3], [2, 3], [2, 4], [3, 4]]
    for b in [[x] for x in BUILD_PATHS] + [["set", "ae"], ["aef", "reset", "get"], ["late", "setc"], ["gete", "set", "aef"]]:
        out.append(_case(tt, 3, mode="all", build=b))
        out.append(_case(design, 3, [1, 0, 2], build=b, dup=(len(b) > 1)))
    out.append({"mode": "hist", "steps": [
        ["add", 0, [[0, 1], [1, 2], [0, 2]], "set"], ["add", 0, [[1, 3], [2, 3]], "ae"], ["m0", 0, 3], ["he", 0],
        ["eecc", 0, [1]], ["he", 0], ["setg", 0, [[4, 5], [5, 6], [4, 6], [5, 7], [6, 7]], 0], ["he", 0], ["lim", 0],
        ["eecc", 0, [0]], ["setg", 0, [[1, 0], [2, 1], [0, 2], [3, 1], [2, 3], [0, 3]], 1], ["m0", 0, 2], ["eecc", 0, []],
        ["add", 0, [[0, 1], [1, 2], [0, 2]], "get"], ["add", 0, [[2, 3], [1, 3], [0, 3]], "reset"], ["m0", 0, 3],
        ["eecc", 0, [2, 1]]]})
    # checker-only: separate K5 / K4 (taken by the score-zero pass) around two K5 sharing a triangle and two K4
    # sharing an edge - survivors with large, spread-out positions in the clique list
    big, nxt = [], 0
    for k, sh in [(5, 0), (5, 0), (5, 3), (4, 0), (4, 0), (4, 0), (4, 0), (4, 2), (3, 0), (6, 0), (3, 1)]:
        big += _kn(range(nxt, nxt + k))
        if sh:
            big += _kn(list(range(nxt + k - sh, nxt + 2 * k - sh)))
            nxt += k - sh
        nxt += k
    for m0, rk, b in [(5, [], None), (5, [1, 1, 1, 1], ["set"]), (6, [0, 1, 0, 1], None), (3, [2, 5, 1, 7, 3], ["ae", "get"]),
                      (4, [], None), (2, [], ["reset"])]:
        out.append(_case(big, m0, rk, mode="big", build=b))
    out += [{"edges": [[0, 1]], "m0": 1, "ranks": []}, {"edges": [[0, 1], [1, 2]], "m0": 0, "ranks": []},
            {"edges": [], "m0": 2, "ranks": []}, {"edges": [], "m0": 0, "ranks": []}]
    # m0 held in another integer type (numpy scalars, a subclass of int)
    for i, t in enumerate(M0_TYPES):
        out.append(dict(_case(_kn([0, 1, 2, 3, 4]) + _kn([2, 3, 4, 5, 6]), 2 + i % 4, [1, 2, 0, 3, 1, 0, 2]), m0type=t))
        out.append(dict(_case(TEST_FIXTURE, 2 + (i + 1) % 3, mode="all", cap=20), m0type=t))
    return out


def _random_graph(rng, nmax=12):
    kind = rng.choice(["gnp", "gnp", "planted", "planted", "planted", "chain", "dense"])
    n = rng.randint(3, nmax)
    es = []
    if kind in ("gnp", "dense"):
        p = rng.choice([0.15, 0.3, 0.5, 0.7]) if kind == "gnp" else rng.choice([0.85, 0.95, 1.0])
        if kind == "dense":
            n = rng.randint(3, 8)
        es = [(i, j) for i in range(n) for j in range(i + 1, n) if rng.random() < p]
    elif kind == "planted":
        n = rng.randint(min(5, nmax), nmax)
        for _ in range(rng.randint(2, 4)):
            k = rng.choice([3, 4, 4, 5, 5, 6, 7])
            vs = rng.sample(range(n), min(k, n))
            es += _kn(vs)
        es += [(i, j) for i in range(n) for j in range(i + 1, n) if rng.random() < rng.choice([0.0, 0.1, 0.2])]
    else:  # chain of cliques overlapping in an edge or a vertex
        v = 0
        k = rng.choice([3, 4, 5])
        for _ in range(rng.randint(2, 4)):
            vs = list(range(v, v + k))
            es += _kn(vs)
            v += k - rng.choice([1, 2, 2])
            if v + k > nmax + 1:
                break
    # random relabelling so that vertex order is not correlated with structure
    labels = list(range(max(13, nmax + 1)))
    rng.shuffle(labels)
    es = [(labels[a], labels[b]) for a, b in es]
    return _canon_edges(es)


def _big_graph(rng):
    """checker-only stream, 25-80 vertices (a share up to 160), sparse, labels unrelated to the structure; two kinds:
    'mixed' = a few groups of overlapping planted cliques (chains sharing a vertex, an edge or a triangle, different
    sizes), separate planted cliques, a sprinkling of random edges / a random tree / a sparse G(n,p);
    'archipelago' = MANY separate cliques (all taken whole by the score-zero pass) around one to three small groups of
    edge-sharing cliques of different sizes: the clique list is long, nearly all of it is dropped at once and the few
    survivors sit at large, spread-out positions (position sets of small ints iterate in hash-slot order, not
    ascending, once a position exceeds the set's table: > 8 with <= 4 survivors, > 32 with <= 18)"""
    arch = rng.random() < 0.5
    n = rng.randint(25, 80) if not (arch and rng.random() < 0.25) else rng.randint(81, 160)
    verts = list(range(n))
    rng.shuffle(verts)
    pos = 0
    es = []

    def take(k):
        nonlocal pos
        vs = verts[pos:pos + k]
        pos += k
        return vs

    if arch:
        sep = rng.choice([[4, 5, 6], [5, 6], [3, 4, 5, 6], [3], [3, 4], [4, 5], [4], [3, 3, 3, 7, 8]])
        small = [k for k in (3, 4, 5, 6) if k <= max(sep)]
        for _ in range(rng.choice([1, 1, 2, 2, 3])):
            prev = take(rng.choice(small))
            es += _kn(prev)
            for _ in range(rng.choice([1, 1, 1, 2])):
                b = rng.choice(small)
                sh = rng.randint(2, max(2, min(len(prev), b) - 1))
                cur = rng.sample(prev, sh) + take(b - sh + (1 if b == sh else 0))
                es += _kn(cur)
                prev = cur
        while pos + max(sep) <= n:
            es += _kn(take(rng.choice(sep)))
        if rng.random() < 0.3:
            for _ in range(rng.randint(1, 4)):
                a, b = rng.sample(range(n), 2)
                es.append((a, b))
        return _canon_edges(es)
    sizes = rng.choice([[3, 4, 4, 5, 5, 6], [4, 5, 6], [3, 4, 5, 6, 7, 8], [2, 3, 4], [5, 6]])
    for _ in range(rng.choice([1, 1, 2, 2, 3, 4, 6])):
        chain = rng.choice([2, 2, 2, 3, 4])
        a = rng.choice(sizes)
        if pos + a > n:
            break
        prev = take(a)
        es += _kn(prev)
        for _ in range(chain - 1):
            b = rng.choice(sizes)
            sh = rng.randint(1, max(1, min(len(prev), b) - 1))
            if pos + b - sh > n:
                break
            cur = rng.sample(prev, sh) + take(b - sh)
            es += _kn(cur)
            prev = cur
    fill = rng.choice([0.4, 0.7, 1.0, 1.0])
    while pos + 8 <= n * fill:
        es += _kn(take(rng.choice(sizes + [2, 3])))
    kind = rng.choice(["none", "none", "few", "few", "tree", "gnp"])
    if kind == "few":
        for _ in range(rng.randint(1, max(1, n // 6))):
            a, b = rng.sample(range(n), 2)
            es.append((a, b))
    elif kind == "tree":
        vs = rng.sample(range(n), rng.randint(2, n))
        for i in range(1, len(vs)):
            es.append((vs[rng.randrange(i)], vs[i]))
    elif kind == "gnp":
        c = rng.choice([0.5, 1.0, 2.0, 3.0])
        es += [(i, j) for i in range(n) for j in range(i + 1, n) if rng.random() < c / n]
    return _canon_edges(es)


def _clique_number_nx(es):
    """size of the largest maximal clique (networkx on a private graph; generator side only)"""
    import networkx as nx
    g = nx.Graph()
    g.add_edges_from(es)
    return max((len(c) for c in nx.find_cliques(g)), default=0)


def _clique_number(es):
    vs = sorted({v for e in es for v in e})
    adj = {v: set() for v in vs}
    for a, b in es:
        adj[a].add(b)
        adj[b].add(a)
    best = 1 if vs else 0
    for k in range(2, len(vs) + 1):
        found = False
        for sub in itertools.combinations(vs, k):
            if all(b in adj[a] for a, b in itertools.combinations(sub, 2)):
                found = True
                break
        if not found:
            break
        best = k
    return best


def _small_exhaustive(pairs, m0s):
    for mask in range(1 << len(pairs)):
        es = [pairs[i] for i in range(len(pairs)) if mask >> i & 1]
        for m0 in m0s:
            yield es, m0


def generate(rng, tier):
    """30 % of all cases (histories and the malformed stream included) pass m0 in another integer type"""
    import random
    trng = random.Random(rng.getrandbits(64))
    for c in _generate1(rng, tier):
        if c.get("mode") != "float" and trng.random() < 0.3:
            c["m0type"] = trng.choice(M0_TYPES)
        yield c


def _generate1(rng, tier):
    # every stream of fresh-object cases: half the cases reach the object through another public construction path
    # than one add_edges_from (a mixture of paths over chunks of the edge list, edges handed over twice)
    brng = __import__("random").Random(rng.getrandbits(64))
    for c in _generate(rng, tier):
        if c.get("mode") not in ("float", "hist") and c["edges"] and "build" not in c and brng.random() < 0.5:
            c["build"] = _pick_build(brng)
            if brng.random() < 0.2:
                c["dup"] = 1
        yield c


def _generate(rng, tier):
    yield {"edges": [], "m0": 2, "mode": "float"}
    # 1. all graphs on <= 5 labelled vertices x m0 x every tie-break sequence (quick: a seeded sample)
    frac = 0.25 if tier == "quick" else 1.0
    for es, m0 in _small_exhaustive(PAIRS5, (2, 3, 4, 5)):
        if frac >= 1.0 or rng.random() < frac:
            yield _case(es, m0, mode="all", rng=rng if rng.random() < 0.3 else None)
    # 2. six vertices: a seeded sample (dense ones preferred: more overlap)
    n6 = 100 if tier == "quick" else 1200
    for _ in range(n6):
        dens = rng.choice([0.5, 0.7, 0.85, 1.0])
        es = [p for p in PAIRS6 if rng.random() < dens]
        yield _case(es, rng.choice([2, 3, 3, 4, 5, 6]), mode="all", cap=40 if tier == "quick" else 80,
                    rng=rng if rng.random() < 0.5 else None)
    # 3. random graphs to 12 vertices, m0 below / at / above the clique number, random ranks
    nrand = 400 if tier == "quick" else 4000
    for i in range(nrand):
        es = _random_graph(rng)
        if not es:
            continue
        w = _clique_number(es)
        m0 = max(2, rng.choice([2, w - 2, w - 1, w - 1, w, w, w + 1, w + 3]))
        sc = rng if rng.random() < 0.5 else None
        if i % 5 == 0:
            yield _case(es, m0, mode="all", cap=10 if tier == "quick" else 20, rng=sc)
        else:
            yield _case(es, m0, [rng.randint(0, 7) for _ in range(rng.randint(0, 30))], rng=sc)
    # 3b. sizes beyond the usual: K9 .. K12 (minus / plus a few edges), m0 far below, just below, at and above
    for _ in range(12 if tier == "quick" else 150):
        n = rng.choice([9, 9, 10, 10, 11, 12])
        es = [p for p in itertools.combinations(range(n), 2) if rng.random() < rng.choice([1.0, 1.0, 0.93])]
        es += [(rng.randrange(n), n + k) for k in range(rng.randint(0, 3))]
        m0 = rng.choice([2, 3, 4, n - 2, n - 1, n, n + 1, 9, 16])
        yield _case(es, m0, [rng.randint(0, 40) for _ in range(rng.randint(0, 12))], rng=rng if rng.random() < 0.5 else None)
    # 3c. CHECKER-ONLY stream: sparse graphs with 25-80 vertices (planted overlapping and separate cliques), m0 in
    #     2..6 (sometimes up to 9), several tie-break schedules per graph; judged by c09_check_full_fast (all three clauses) without the model
    for _ in range(70 if tier == "quick" else 700):
        es = _big_graph(rng)
        if not es:
            continue
        w = _clique_number_nx(es)
        for k in range(3):
            m0 = max(2, rng.choice([2, 3, 4, 5, 6, w - 1, w, w, w + 1, rng.randint(2, 9)]))
            ranks = [] if k == 0 and rng.random() < 0.5 else [rng.randint(0, 11) for _ in range(rng.randint(1, 40))]
            yield _case(es, m0, ranks, mode="big", rng=rng if rng.random() < 0.5 else None)
    # 4. histories of calls on the same objects
    for _ in range(150 if tier == "quick" else 1500):
        yield _history(rng)
    # 5. malformed stream
    for _ in range(20 if tier == "quick" else 100):
        es = _random_graph(rng) if rng.random() < 0.8 else []
        yield {"edges": [list(e) for e in es], "m0": rng.choice([0, 1]), "ranks": []}


def shrink(case):
    """smaller cases; the number type of m0 is kept (and dropped as a separate step)"""
    t = case.get("m0type")
    for c in _shrink0(case):
        if t:
            c["m0type"] = t
        yield c
    if t:
        yield {k: v for k, v in case.items() if k != "m0type"}


def _shrink0(case):
    mode = case.get("mode")
    if mode == "float":
        return
    if mode == "hist":
        st = case["steps"]
        objs = sorted({x[1] for x in st})
        if len(objs) > 1:
            for o in objs:
                yield {"mode": "hist", "steps": [x for x in st if x[1] != o]}
        for i in range(len(st)):
            yield {"mode": "hist", "steps": st[:i] + st[i + 1:]}
        for i, x in enumerate(st):
            if x[0] == "add" and len(x[2]) > 1:
                for k in range(len(x[2])):
                    yield {"mode": "hist", "steps": st[:i] + [["add", x[1], x[2][:k] + x[2][k + 1:]] + x[3:]] + st[i + 1:]}
            if x[0] in ("add", "setg") and len(x) > 3 and x[3] not in (0, "aef"):
                yield {"mode": "hist", "steps": st[:i] + [x[:3]] + st[i + 1:]}
            if x[0] == "eecc" and x[2]:
                yield {"mode": "hist", "steps": st[:i] + [["eecc", x[1], []]] + st[i + 1:]}
        return
    es = case["edges"]
    vs = sorted({v for e in es for v in e})
    if mode == "big" and len(vs) > 12:
        # whole connected components first (the graphs of this stream have many)
        comp = {v: v for v in vs}

        def find(v):
            while comp[v] != v:
                comp[v] = comp[comp[v]]
                v = comp[v]
            return v
        for a, b in es:
            comp[find(a)] = find(b)
        roots = sorted({find(v) for v in vs})
        if len(roots) > 1:
            for r in roots:
                yield dict(case, edges=[e for e in es if find(e[0]) != r])
    if case.get("dup"):
        yield {k: v for k, v in case.items() if k != "dup"}
    if case.get("build"):
        yield {k: v for k, v in case.items() if k != "build"}
        if len(case["build"]) > 1:
            for b in case["build"]:
                yield dict(case, build=[b])
    if case.get("labels"):
        yield {k: v for k, v in case.items() if k != "labels"}
    for v in vs:
        sub = [e for e in es if v not in e]
        if sub:
            yield dict(case, edges=sub)
    for i in range(len(es)):
        if len(es) > 1:
            yield dict(case, edges=es[:i] + es[i + 1:])
    if es != [list(e) for e in _canon_edges(es)]:
        yield dict(case, edges=[list(e) for e in _canon_edges(es)])
    if mode == "all":
        yield {k: v for k, v in dict(case, ranks=[]).items() if k not in ("mode", "cap")}
    else:
        rk = case.get("ranks", [])
        if rk:
            yield dict(case, ranks=rk[:-1])
            if any(rk):
                yield dict(case, ranks=[0] * len(rk))
    if case["m0"] > 2:
        yield dict(case, m0=case["m0"] - 1)


def describe(case, impl_obs):
    mode = case.get("mode", "one")
    if mode == "hist":
        return {"mode": "hist", "steps": case["steps"][:14],
                "observed": [ob if not isinstance(ob, dict) else ob["cover"]
                             for ob in (impl_obs["steps"] if isinstance(impl_obs, dict) else [])][:14]}
    d = {"edges": case["edges"], "m0": case["m0"], "mode": mode, "ranks": case.get("ranks"),
         "construction_paths": case.get("build", ["aef"])}
    if _is_exc(impl_obs):
        d["impl"] = impl_obs
    elif mode == "all":
        d["tie_break_sequences"] = len(impl_obs["leaves"])
        d["first_cover"] = impl_obs["leaves"][0][1]["cover"] if impl_obs["leaves"] else None
    elif mode != "float":
        d["cover"] = impl_obs["cover"]
        d["candidates_per_round"] = impl_obs["counts"]
    return d


def histogram(cases):
    h = {"cases": len(cases), "mode_all": 0, "mode_one": 0, "mode_big_checker_only": 0, "histories": 0,
         "history_steps": 0, "malformed": 0, "scrambled_edge_order": 0, "edges_handed_twice": 0}
    byn, bym, byp = {}, {}, {}
    h["construction_paths"] = byp
    for c in cases:
        if c.get("mode") == "float":
            continue
        if c.get("mode") == "hist":
            h["histories"] += 1
            h["history_steps"] += len(c["steps"])
            for st in c["steps"]:
                if st[0] in ("add", "setg"):
                    k = "hist:" + ("setg" if st[0] == "setg" else (st[3] if len(st) > 3 else "aef"))
                    byp[k] = byp.get(k, 0) + 1
            continue
        for b in c.get("build", ["aef"]):
            byp[b] = byp.get(b, 0) + 1
        if len(c.get("build", [])) > 1:
            byp["mixture"] = byp.get("mixture", 0) + 1
        h["edges_handed_twice"] += int(bool(c.get("dup")))
        if c.get("mode") == "big":
            h["mode_big_checker_only"] += 1
        if c["m0"] < 2 or not c["edges"]:
            h["malformed"] += 1
        if c["edges"] != [list(e) for e in _canon_edges(c["edges"])]:
            h["scrambled_edge_order"] += 1
        if c.get("mode") != "big":
            h["mode_all" if c.get("mode") == "all" else "mode_one"] += 1
        n = _nverts(c["edges"])
        n = n if n <= 12 else f"{n // 10 * 10}-{n // 10 * 10 + 9}"
        byn[n] = byn.get(n, 0) + 1
        bym[c["m0"]] = bym.get(c["m0"], 0) + 1
    h["vertices"] = {str(k): v for k, v in sorted(byn.items(), key=lambda kv: (len(str(kv[0])), str(kv[0])))}
    h["m0"] = {str(k): v for k, v in sorted(bym.items())}
    return h


def search(rng, tier, seeds):
    # the disagreeing cases first, with every tie-break; then the exhaustive small domain; then random
    batch = [dict(edges=s["edges"], m0=s["m0"], mode="all", cap=30) for s in seeds
             if s.get("mode") not in ("float", "hist") and s["m0"] >= 2]
    if batch:
        yield batch
    batch = []
    for es, m0 in _small_exhaustive(PAIRS5, (2, 3, 4, 5, 6)):
        batch.append(_case(es, m0, mode="all"))
        if len(batch) == 400:
            yield batch
            batch = []
    for c in generate(rng, "thorough"):
        batch.append(c)
        if len(batch) == 300:
            yield batch
            batch = []
    if batch:
        yield batch
