"""C12 — MCMC rewiring only creates pairings the target allows (and the acceptance rule is the
Metropolis rule of the target).  Model: coq/Model/Mcmc.v; theorems coq/Props/C12.v."""
from harness.props import mcmc_common as mc

ID = "C12"
IMPL_TIMEOUT = 120.0
RULE = ("as C11 (clean motif networks, scripted oracle streams, run level + method level) with symmetric dyadic "
        "targets from which random symmetric subsets of pairings ABSENT from the network are deleted or set to 0.0 "
        "(existing edges keep positive weight); sometimes a whole unused topology is missing from the target; the "
        "mixed-corner cases of C11 (diamond networks, grid targets holding the wrong-slot keys) with absent pairings "
        "deleted / zeroed sparingly (<= 24% / <= 12%), so that swaps between mixed corners are decided by the "
        "Metropolis draw and a pairing manufactured through a wrong slot is either a created edge of zero target "
        "weight or a wrong numerator. "
        "c12_check judges every step of every real run: each edge present after a change and absent before must have "
        "positive target weight for its topology and joint-excess-degree pair. swap_condition's decision, numerator "
        "and denominator are compared exactly (rationals vs floats). Non-trivial = at least one accepted swap")
EXHAUSTIVE = {"quick": False, "thorough": False}
EXPLANATION = ("general theorems C12_allowed / C12_ratio in Props/C12.v (all networks, targets, oracle streams); the "
               "statistical sentence (distance to the target decreases) is labelled partial: see C12_full")
ASSUMPTIONS = ["a target matrix is a mixing matrix, i.e. symmetric (DESIGN C12); for an asymmetric dictionary the "
               "code tests the focal-first orientation only, which is noted, not claimed",
               "dyadic target weights and uniforms: float products are exact, so float and rational decisions agree"]
TRUSTED = ["instrumentation as for C11"]
PARTIAL = ['the second sentence (the distance to the target is smaller after rewiring) is a statement about the distribution of runs; no theorem and no check covers it (C12_full keeps it as an opaque Prop parameter); proved instead: the acceptance ratio is the Metropolis ratio for the target (C12_ratio, C12_ratio_pi)']
TECHNIQUE = ("Coq proof (numerator non-zero implies every factor positive; acceptance ratio = ratio of the target "
             "products) + model/implementation correspondence under scripted randomness + verified checker on runs")
LEVEL_TEXT = (
    "General theorems in coq/Props/C12.v on the Gallina model, for every clean network, every target with non-negative "
    "entries, all limits, every RNG outcome and swap history: between consecutive accepted states every new edge has a "
    "pairing of positive target weight and nothing but the proposal edges is created (C12_allowed_partial = the verified "
    "checker c12_check holds on every model trace); for symmetric targets the numerator/denominator of swap_condition "
    "are the target products over the proposal / removed edges, i.e. the acceptance ratio is pi(g')/pi(g) (C12_ratio, "
    "C12_ratio_pi). PARTIAL: the statistical sentence (the distance to the target decreases) is a statement about the "
    "distribution of runs, false for individual RNG outcomes, and is not proved (C12_full keeps it). Non-vacuity "
    "(Example C12_nonvacuous, the network / target / oracle stream of a real run): the hypotheses WF and NonNeg hold, "
    "an ACCEPTED swap creates two pairings of positive target weight (7/16, 7/8) and the trace is not empty; with the "
    "weight of one of those pairings set to 0 the same proposal is REFUSED before the uniform is drawn, and the checker "
    "judged against that target rejects the chain that created the pairing.")
LEVEL_NOTE = ("Trusted: Coq kernel; extraction + OCaml driver + Python harness; symmetric targets assumed (DESIGN C12); dyadic "
              "test data so float products are exact. Partial: convergence towards the target.")

DROP, ZERO = 0.6, 0.4


def corpus():
    return mc.corpus_cases()


def generate(rng, tier):
    return mc.generate(rng, tier, DROP, ZERO)


impl = mc.impl
model_obs = mc.model_obs
compare = mc.compare
nontrivial_key = mc.nontrivial_key
shrink = mc.shrink
describe = mc.describe
histogram = mc.histogram


def model_calls(case, obs):
    return mc.model_calls(case, obs, "c12_run")


def check_calls(case, obs):
    if mc.is_exc(obs) or not case.get("valid", True):
        return []
    g0 = mc.canon_net(case["net"])
    if case["kind"] == "run":
        calls = [("c12_check", [g0[0], mc.wire_target(case["tg"]), g0[1], [g[1] for g in mc.run_graphs(obs)]])]
        o2 = mc.second_obs(obs)
        if o2 is not None:
            calls.append(("c12_check", [o2["input"][0], mc.wire_target(case["tg"]), o2["input"][1],
                                        [g[1] for g in mc.run_graphs(o2)]]))
        return calls
    calls = [("c12_check_swap", mc.swap_tree(case, q, it) + [mc.wire_target(case["tg"])])
             for q, it in mc.accepted_items(case, obs)]
    # the Metropolis ratio: numerator / denominator the implementation computed (read as exact rationals)
    # against the target products over the proposal edges / the corner edges
    calls += [("c12_ratio_check", mc.swap_tree(case, q, it) + [mc.wire_target(case["tg"])] + it["top_bot"])
              for q, it in ratio_items(case, obs)]
    return calls


def ratio_items(case, obs):
    out = []
    for q, it in zip(case["queries"], obs["items"]):
        tb = it.get("top_bot")
        if it.get("suitable") and tb and tb[0] is not None and tb[1] is not None and "props" in it:
            out.append((q, it))
    return out


def check_verdict(case, obs, raws):
    if not case.get("valid", True):
        return None
    if mc.is_exc(obs):
        return f"{obs[1]} raised on an admissible input (constructor / rewire)"
    if case["kind"] == "run":
        if obs["status"][0] == 2:
            return f"rewire() raised {obs['status'][1]} although every existing pairing has positive target weight"
        if not raws:
            return "checker did not run"
        o2 = mc.second_obs(obs)
        if o2 is not None and o2["status"][0] == 2:
            return f"second rewire() call on the same object raised {o2['status'][1]}"
        return None if all(r == 1 for r in raws) else \
            "an edge was created whose pairing has no positive weight in the target"
    acc = mc.accepted_items(case, obs)
    for (q, it), r in zip(acc, raws):
        if r != 1:
            return (f"accepted swap u0={q[0]} e0={q[1]} v0={q[2]} e1={q[3]} proposals {it['props']}: "
                    "a proposal's pairing has no positive target weight")
    for (q, it), r in zip(ratio_items(case, obs), raws[len(acc):]):
        if r != 1:
            return (f"swap_condition u0={q[0]} e0={q[1]} v0={q[2]} e1={q[3]}: numerator/denominator {it['top_bot']} "
                    "are not the target products over the proposal edges / the removed corner edges "
                    "(the acceptance rule is not the Metropolis rule of the target)")
    return None


def search(rng, tier, seeds):
    return mc.search_batches(rng, DROP, ZERO)
