"""C10 — MPCC (gcmpy/covers/mpcc.py) vs the Gallina model (Model/Mpcc.v).

The scripted shuffle imposes an arrangement of the clique list and logs the resulting (post-shuffle)
list; that list is the content-keyed schedule handed to the model, which validates it as an
arrangement of its own brute-force clique enumeration and applies the same stable sort.
The verified checker c10_check judges the labels the implementation wrote (the property itself);
equality with the model's labels is only the correspondence."""
import copy
import hashlib
import itertools
import json
import math
import random as _pyrandom
import re

from harness import oracles

ID = "C10"
RULE = ("simple loop-free graphs (arbitrary vertex names / insertion order) x max_size in {0,2,3,4} (random graphs: 0,2..7; "
        "passed as a Python int, and in 25-40 % of the cases as np.int64 / int32 / int16 / intp / uint8, bool, a subclass "
        "of int, or not passed at all when 0) x a scripted "
        "shuffle of the full clique list; all graphs on <= 4 vertices and (thorough: all / quick: a seeded third of) "
        "the 1024 labelled graphs on 5 vertices, each with identity, reversed, random full permutations, random "
        "per-size-class permutations and ALL permutations of the whole list (when it has <= 6 entries) or of the 2-/3-clique "
        "classes (when there are <= 500 in thorough, <= 24 in quick); "
        "random graphs to 10 vertices with planted / overlapping cliques (max_size to 7; 30 % of them are histories: "
        "the identical call twice, call / caller edits the graph / call again on the SAME object, another limit or "
        "another graph (unrelated, or same node list and edge count) first; every call of a history is judged on the graph's current contents); input graphs carry "
        "graph, node and edge data and are deep-compared before / after (data and iteration orders); a small stream with max_size 1 / "
        "negative (outside the property: correspondence only). Compared with the model: the label "
        "(size, member list in order, id) of every edge, node and edge sets before/after, `ret is G`, one shuffle "
        "call on the full clique list. non-trivial = some edge labelled with a clique of >= 3 vertices; distinct by "
        "(graph, max_size, post-shuffle clique list)")
EXHAUSTIVE = {"quick": False, "thorough": True}
EXPLANATION = ("general theorems (all graphs, all size limits 0 or >= 2, all arrangements of the clique list) in "
               "Props/C10.v; correspondence: thorough = every labelled graph on <= 5 vertices x 4 size limits x "
               "(all schedules when the clique list has <= 6 entries, else all 2-/3-clique class permutations when "
               "<= 500, plus seeded samples); quick = all graphs <= 4 vertices and a seeded third of the 5-vertex "
               "ones with fewer schedules each; random graphs to 10 vertices in both tiers")
ASSUMPTIONS = [
    "nx.enumerate_all_cliques(g) lists every clique of g exactly once (checked on every case: the logged list must "
    "be an arrangement of the model's own enumeration, each clique as a set)",
    "Python sorted(key=len, reverse=True) is stable; random.shuffle permutes in place (the scripted shuffle does)",
    "nx.Graph.copy / has_edge / remove_edges_from / edge attribute assignment behave as modelled",
]
TRUSTED = ["label parser of harness/props/c10.py: f'{len(c)}-{c}-{ID}' -> (size, members, id)",
           "before/after deep-copy comparison of graph, node and edge DATA (harness level; the Coq checker judges "
           "vertex and edge sets and the labels)"]
TECHNIQUE = ("Coq proof (invariant over the processed prefix of the sorted clique list, induction; checker proved "
             "equivalent to the Prop-level specification) + model/implementation correspondence under a scripted "
             "shuffle")
LEVEL_TEXT = (
    "General theorems in coq/Props/C10.v, for every simple loop-free graph, size limit 0 or >= 2 and every "
    "arrangement of the clique list the shuffle can produce: the graph is unchanged, accepted cliques are pairwise "
    "edge-disjoint, every edge lies in exactly one accepted clique and carries exactly its label, the rows sharing a "
    "label are all pairs of its member list, size = |members| <= limit, ids unique, and greedy-maximality (every "
    "clique within the limit has an edge labelled with a clique at least as large). The executable checker "
    "c10_check is proved equivalent to that specification and is run on the labels the real MPCC writes; the model "
    "is tied to gcmpy/covers/mpcc.py by comparing every edge label under the same scripted shuffle.")
LEVEL_NOTE = ("Trusted: Coq kernel; extraction (ExtrOcamlBasic) + OCaml driver + Python harness (incl. the label "
              "parser) for the correspondence; nx.enumerate_all_cliques is modelled (brute force), its output is "
              "validated against the model's enumeration on every case. No axioms.")

MS_VALUES = [0, 2, 3, 4]


# ------------------------------------------------------------------ schedules
def _perm_of_rank(n, r):
    """r-th permutation of range(n) in lexicographic order (r taken mod n!)"""
    r %= math.factorial(n) if n > 1 else 1
    items = list(range(n))
    out = []
    for i in range(n, 0, -1):
        f = math.factorial(i - 1)
        q, r = divmod(r, f)
        out.append(items.pop(q))
    return out


def _perm_from_spec(spec, x):
    n = len(x)
    kind = spec[0]
    if kind == "id":
        return list(range(n))
    if kind == "rev":
        return list(range(n - 1, -1, -1))
    if kind == "rank":
        return _perm_of_rank(n, spec[1])
    if kind == "classrank":
        # permute inside every size class separately; the positions a class occupies stay its own
        ranks = {int(k): v for k, v in spec[1]}
        perm = list(range(n))
        sizes = sorted({len(c) for c in x})
        for k in sizes:
            pos = [i for i in range(n) if len(x[i]) == k]
            p = _perm_of_rank(len(pos), ranks.get(k, 0))
            for a, b in zip(pos, p):
                perm[a] = pos[b]
        return perm
    raise ValueError(spec)


class SchedScript:
    """Scripted `random` for one MPCC call.  The FIRST shuffle call is answered by the schedule spec of the case
    and logged (list before / after).  The property does not care which primitive produces the order, so every
    other call (further shuffles, random, randrange, choice, choices) is answered from a private seeded PRNG
    instead of raising: a rewrite of the shuffle in terms of other primitives is not an oracle error here, the
    schedule is then inferred from the output (see _infer_sched)."""

    def __init__(self, spec, seed):
        self.spec = spec
        self.log = []
        self.n_shuffle = 0
        self._rng = _pyrandom.Random(seed)

    def shuffle(self, x):
        self.n_shuffle += 1
        old = [list(c) if isinstance(c, (list, tuple)) else c for c in x]
        perm = None
        if self.n_shuffle == 1:
            try:
                perm = _perm_from_spec(self.spec, old)
            except Exception:  # noqa: BLE001 - shuffle called on something that is not a list of cliques
                perm = None
        if perm is None:
            perm = list(range(len(old)))
            self._rng.shuffle(perm)
        self.log.append(("shuffle", old, [old[p] for p in perm]))
        cur = list(x)
        x[:] = [cur[p] for p in perm]

    def random(self):
        return self._rng.random()

    def randrange(self, *a, **k):
        return self._rng.randrange(*a, **k)

    def choice(self, seq):
        return seq[self._rng.randrange(len(seq))] if len(seq) else _pyrandom.Random().choice(seq)

    def choices(self, *a, **k):
        return self._rng.choices(*a, **k)


# ------------------------------------------------------------------ cases
def _case(nodes, edges, ms, sched, prior=None, mstype=None):
    c = {"nodes": list(nodes), "edges": [list(e) for e in edges], "ms": ms, "sched": sched}
    if prior:
        # an earlier MPCC call in the same process: on the same graph object (no "nodes" key) or on another graph
        c["prior"] = prior
    if mstype and mstype != "int":
        # the number type max_size is passed in (default: a Python int)
        c["mstype"] = mstype
    return c


# every integer type a caller may hold the limit in (e.g. max() of a numpy array of motif sizes)
def _ms_types_for(ms):
    out = ["np.int64", "np.int32", "np.int16", "np.intp", "intsub"]
    if ms >= 0:
        out.append("np.uint8")
    if ms in (0, 1):
        out.append("bool")
    if ms == 0:
        out.append("omitted")
    return out


def _pick_mstype(rng, ms, p=0.4):
    return rng.choice(_ms_types_for(ms)) if rng.random() < p else None


class _IntSub(int):
    """a user-defined subclass of int (an IntEnum member behaves alike)"""


def _ms_value(ms, typ):
    if not typ or typ == "int":
        return ms
    if typ == "bool":
        return bool(ms)
    if typ == "intsub":
        return _IntSub(ms)
    import numpy as np
    return getattr(np, typ[3:])(ms)


def corpus():
    tri_pend = [[0, 1], [1, 2], [0, 2], [2, 3]]
    diamond = [[0, 1], [0, 2], [1, 2], [1, 3], [2, 3]]
    k4 = [list(e) for e in itertools.combinations(range(4), 2)]
    k5 = [list(e) for e in itertools.combinations(range(5), 2)]
    bow = [[0, 1], [0, 2], [1, 2], [2, 3], [2, 4], [3, 4]]
    out = [
        # histories first (self-contained replays): same node list and edge count but other edges before;
        # the same object covered, edited by the caller, covered again
        _case([0, 1, 2, 3], diamond, 0, ["id"],
              {"nodes": [0, 1, 2, 3], "edges": [[0, 1], [1, 2], [2, 3], [0, 3], [0, 2]], "ms": 0, "sched": ["id"]}),
        _case([0, 1, 2], [[0, 1], [1, 2]], 0, ["id"],
              {"nodes": [0, 1, 2], "edges": [[0, 1], [0, 2]], "ms": 0, "sched": ["id"]}),
        _case([0, 1, 2], [[0, 1], [1, 2]], 0, ["id"], {"ms": 0, "sched": ["id"], "mutate": {"add_edges": [[0, 2]]}}),
        _case([3, 0, 1, 2, 4], tri_pend, 0, ["id"]),
        _case([0, 1, 2, 3], tri_pend, 2, ["rev"]),
        _case([], [], 0, ["id"]),
        _case([7], [], 3, ["id"]),
        _case([0, 1], [[1, 0]], 2, ["id"]),
    ]
    for ms in (0, 2, 3, 4):
        out.append(_case([0, 1, 2, 3], diamond, ms, ["rank", 12345]))
        out.append(_case([3, 2, 1, 0], diamond, ms, ["classrank", [[2, 77], [3, 1]]]))
        out.append(_case([0, 1, 2, 3], k4, ms, ["rank", 987654321]))
        out.append(_case([4, 0, 3, 1, 2], k5, ms, ["classrank", [[2, 1234567], [3, 4321], [4, 3]]]))
        out.append(_case([0, 1, 2, 3, 4], bow, ms, ["rev"]))
    # a second call on an already covered graph must relabel everything (stale labels from the first call)
    out.append(_case([0, 1, 2, 3], diamond, 2, ["id"], {"ms": 0, "sched": ["rev"]}))
    out.append(_case([0, 1, 2, 3], k4, 3, ["rank", 5], {"ms": 0, "sched": ["id"]}))
    out.append(_case([0, 1, 2, 3], k4, 0, ["rank", 5], {"ms": 2, "sched": ["id"]}))
    out.append(_case([0, 1, 2, 3], diamond, 0, ["id"], {"nodes": [0, 1, 2, 3], "edges": k4, "ms": 0, "sched": ["id"]}))
    # call, the caller closes the triangle / opens the K4, call again on the same object
    out.append(_case([0, 1, 2], [[0, 1], [1, 2]], 0, ["id"], {"ms": 0, "sched": ["id"], "mutate": {"add_edges": [[0, 2]]}}))
    out.append(_case([0, 1, 2, 3], k4, 0, ["id"], {"ms": 0, "sched": ["id"], "mutate": {"del_edges": [[1, 2]]}}))
    out.append(_case([0, 1, 2], [[0, 1], [1, 2], [0, 2]], 0, ["id"],
                     {"ms": 0, "sched": ["id"], "mutate": {"add_nodes": [3], "add_edges": [[3, 0], [3, 1], [3, 2]]}}))
    out.append(_case([0, 1, 2, 3], diamond, 3, ["rev"], {"ms": 3, "sched": ["rev"]}))
    # two K4 sharing an edge plus a pendant triangle, limit below / at / above the clique number
    g2 = [list(e) for e in itertools.combinations([0, 1, 2, 3], 2)] + \
         [list(e) for e in itertools.combinations([2, 3, 4, 5], 2) if list(e) != [2, 3]] + [[5, 6], [5, 7], [6, 7]]
    for ms in (0, 2, 3, 4, 5):
        out.append(_case([0, 1, 2, 3, 4, 5, 6, 7], g2, ms, ["rank", 31337 * (ms + 1)]))
    # the limit held in another integer type (numpy scalars, bool, a subclass of int) or not passed at all
    for i, ms in enumerate((0, 2, 3, 3, 4, 4, 5)):
        for j, t in enumerate(_ms_types_for(ms)):
            if (i + j) % 2 == 0:
                out.append(_case([0, 1, 2, 3, 4, 5, 6, 7], g2, ms, ["rank", 4242 * (i + 3 * j + 1)], None, t))
    out.append(_case([4, 0, 3, 1, 2], k5, 3, ["rev"], {"ms": 4, "sched": ["id"], "mstype": "np.int32"}, "np.int64"))
    out.append(_case([4, 0, 3, 1, 2], k5, 2, ["id"], {"ms": 0, "sched": ["id"], "mstype": "omitted"}, "np.uint8"))
    return out


def _clique_count_by_size(nodes, edges):
    adj = {v: set() for v in nodes}
    for u, v in edges:
        adj[u].add(v)
        adj[v].add(u)
    counts = {1: len(nodes)}
    level = [(v,) for v in nodes]
    k = 1
    while level:
        nxt = []
        for c in level:
            for w in nodes:
                if w > c[-1] and all(w in adj[x] for x in c):
                    nxt.append(c + (w,))
        k += 1
        if nxt:
            counts[k] = len(nxt)
        level = nxt
    return counts


def _scheds_for(rng, nodes, edges, tier, nrand):
    counts = _clique_count_by_size(nodes, edges)
    total = sum(counts.values())
    scheds = [["id"], ["rev"]]
    if total <= 6:
        scheds = [["rank", r] for r in range(math.factorial(total))]
        return scheds
    # all permutations inside the 2- and 3-clique classes when that is small
    c2, c3 = counts.get(2, 0), counts.get(3, 0)
    n23 = math.factorial(c2) * math.factorial(c3)
    cap = 500 if tier == "thorough" else 24
    if 1 < n23 <= cap:
        for r2 in range(math.factorial(c2)):
            for r3 in range(math.factorial(c3)):
                scheds.append(["classrank", [[2, r2], [3, r3], [1, rng.randrange(10**6)]]])
    for _ in range(nrand):
        scheds.append(["rank", rng.randrange(math.factorial(min(total, 60)))])
        scheds.append(["classrank", [[k, rng.randrange(math.factorial(min(c, 30)))] for k, c in sorted(counts.items())]])
    return scheds


def _all_graphs(n):
    prs = list(itertools.combinations(range(n), 2))
    for mask in range(1 << len(prs)):
        yield [list(p) for i, p in enumerate(prs) if mask >> i & 1]


def _random_graph(rng):
    n = rng.randint(5, 10)
    names = rng.sample(range(0, 14), n)
    kind = rng.choice(["gnp", "gnp", "planted", "overlap", "dense"])
    es = set()
    if kind in ("gnp", "dense"):
        p = rng.choice([0.3, 0.5, 0.7]) if kind == "gnp" else 0.9
        for a, b in itertools.combinations(range(n), 2):
            if rng.random() < p:
                es.add((a, b))
    elif kind == "planted":
        for a, b in itertools.combinations(range(n), 2):
            if rng.random() < 0.25:
                es.add((a, b))
        for _ in range(rng.randint(1, 3)):
            k = rng.randint(3, min(6, n))
            vs = sorted(rng.sample(range(n), k))
            es |= set(itertools.combinations(vs, 2))
    else:  # overlapping K4/K5 sharing one or two vertices
        k1 = rng.randint(3, 5)
        k2 = rng.randint(3, 5)
        sh = rng.randint(1, 2)
        a = list(range(min(k1, n)))
        b = list(range(max(0, len(a) - sh), min(n, len(a) - sh + k2)))
        es |= set(itertools.combinations(a, 2)) | set(itertools.combinations(b, 2))
        for x, y in itertools.combinations(range(n), 2):
            if rng.random() < 0.1:
                es.add((x, y))
    edges = []
    for a, b in sorted(es):
        e = [names[a], names[b]]
        if rng.random() < 0.5:
            e.reverse()
        edges.append(e)
    rng.shuffle(edges)
    order = list(names)
    rng.shuffle(order)
    return order, edges


def _random_mutation(rng, nodes, edges):
    """what a caller may legitimately do to its graph between two MPCC calls"""
    present = {frozenset(e) for e in edges}
    absent = [list(p) for p in itertools.combinations(sorted(nodes), 2) if frozenset(p) not in present]
    mut = {}
    dele = rng.sample(edges, min(len(edges), rng.choice([0, 1, 1, 2])))
    if dele:
        mut["del_edges"] = [list(e) for e in dele]
    deln = []
    if nodes and rng.random() < 0.15:
        deln = [rng.choice(nodes)]
        mut["del_nodes"] = deln
    keep = [v for v in nodes if v not in deln]
    add = [e for e in rng.sample(absent, min(len(absent), rng.choice([0, 1, 2, 3]))) if not set(e) & set(deln)]
    if rng.random() < 0.3:
        new = max(nodes, default=-1) + 1
        mut["add_nodes"] = [new]
        add += [[new, v] for v in rng.sample(keep, min(len(keep), rng.randint(0, 3)))]
    if add:
        mut["add_edges"] = add
    return mut


def generate(rng, tier):
    quick = tier == "quick"
    # 1. every labelled graph on <= 4 vertices (5: all in thorough, a seeded third in quick)
    for n in range(0, 6):
        for edges in _all_graphs(n):
            if n == 5 and quick and rng.random() > 1 / 3:
                continue
            nodes = list(range(n))
            if rng.random() < 0.5:
                rng.shuffle(nodes)
            if n <= 3:
                nr = 3
            elif n == 4:
                nr = 2 if quick else 10
            else:
                nr = 1 if quick else 6
            scheds = _scheds_for(rng, nodes, edges, tier, nr)
            mss = MS_VALUES if (not quick or n <= 4) else [rng.choice(MS_VALUES), 0]
            for ms in mss:
                if len(scheds) > 40 and quick:
                    use = rng.sample(scheds, 40)
                elif len(scheds) > 520:
                    use = rng.sample(scheds, 500)
                else:
                    use = scheds
                for s in use:
                    yield _case(nodes, edges, ms, s, None, _pick_mstype(rng, ms, 0.25))
                if n <= 4 and edges:
                    # history on one object: cover, toggle one edge, cover again
                    e = rng.choice(edges)
                    rest = [x for x in edges if x != e]
                    yield _case(nodes, rest, ms, ["rev"], {"ms": ms, "sched": ["id"], "mutate": {"add_edges": [e]}})
                    yield _case(nodes, edges, ms, ["id"], {"ms": 0, "sched": ["rev"], "mutate": {"del_edges": [e]}})
                    yield _case(nodes, edges, ms, scheds[-1], {"ms": ms, "sched": scheds[-1]})
    # 2. random graphs to 10 vertices
    nrand = 500 if quick else 6000
    for _ in range(nrand):
        nodes, edges = _random_graph(rng)
        ms = rng.choice([0, 0, 0, 2, 2, 3, 3, 4, 5, 6, 7])
        counts = _clique_count_by_size(nodes, edges)
        total = sum(counts.values())
        k = rng.random()
        if k < 0.1:
            s = ["id"]
        elif k < 0.2:
            s = ["rev"]
        elif k < 0.6:
            s = ["rank", rng.randrange(math.factorial(min(total, 60)))]
        else:
            s = ["classrank", [[kk, rng.randrange(math.factorial(min(c, 30)))] for kk, c in sorted(counts.items())]]
        prior = None
        k = rng.random()
        if k < 0.08:    # the identical call twice on one object
            prior = {"ms": ms, "sched": s}
        elif k < 0.20:  # call, the caller edits the graph, call again on the same object
            prior = {"ms": rng.choice([ms, 0, 2, 3]), "sched": ["rank", rng.randrange(10**12)],
                     "mutate": _random_mutation(rng, nodes, edges)}
        elif k < 0.25:  # another limit / schedule first
            prior = {"ms": rng.choice([0, 0, 2, 3, 4]), "sched": ["rank", rng.randrange(10**12)]}
        elif k < 0.30:  # an unrelated graph first
            n2, e2 = _random_graph(rng)
            prior = {"nodes": n2, "edges": e2, "ms": rng.choice([0, 2, 3]), "sched": ["rank", rng.randrange(10**12)]}
        elif k < 0.36:  # another graph with the SAME node list and edge count first (cache keyed too coarsely)
            prs = [list(pp) for pp in itertools.combinations(sorted(nodes), 2)]
            prior = {"nodes": list(nodes), "edges": rng.sample(prs, len(edges)), "ms": ms, "sched": s}
        if prior and rng.random() < 0.4:
            prior["mstype"] = rng.choice(_ms_types_for(prior["ms"]))
        yield _case(nodes, edges, ms, s, prior, _pick_mstype(rng, ms, 0.4))
    # 3. outside the property's domain (correspondence only): max_size = 1 labels no edge, a negative
    #    max_size means unbounded (`max_size > 0` is false)
    for _ in range(40 if quick else 400):
        nodes, edges = _random_graph(rng)
        ms = rng.choice([1, -1, -3])
        yield _case(nodes, edges, ms, ["rank", rng.randrange(10**12)], None, _pick_mstype(rng, ms, 0.4))


# ------------------------------------------------------------------ implementation side
_LABEL = re.compile(r"(\d+)-\[((?:\d+(?:, \d+)*)?)\]-(\d+)")


def _parse_label(s):
    if s is None:
        return None
    if not isinstance(s, str):
        return ["!bad", repr(s)]
    m = _LABEL.fullmatch(s)
    if not m:
        return ["!bad", s]
    mem = [int(x) for x in m.group(2).split(", ")] if m.group(2) else []
    return [int(m.group(1)), mem, int(m.group(3))]


def _build(nodes, edges, base=0):
    """input graphs carry data: graph, node and edge attributes (mutable values included)"""
    import networkx as nx
    G = nx.Graph()
    G.graph["name"] = "case-graph"
    G.graph["meta"] = {"k": [1, 2, 3]}
    for i, v in enumerate(nodes):
        G.add_node(v, w=10 + i, tag=["n", v])
    _add_edges(G, edges, base)
    return G


def _add_edges(G, edges, base=0):
    for i, (u, v) in enumerate(edges):
        G.add_edge(u, v, weight=base + 100 + i, tag={"e": [u, v]})


def _snapshot(G):
    """deep copy of everything a caller can see except the 'clique' labels: data AND iteration orders"""
    return {
        "graph": copy.deepcopy(dict(G.graph)),
        "nodes": [[v, copy.deepcopy(dict(d))] for v, d in G.nodes(data=True)],
        "edges": [[u, v, copy.deepcopy({k: x for k, x in d.items() if k != "clique"})]
                  for u, v, d in G.edges(data=True)],
        "adj": [[v, list(G.adj[v])] for v in G],
    }


def _diff_snapshots(a, b):
    """(data difference, order-only difference) between two snapshots, as strings or None"""
    data = None
    if a["graph"] != b["graph"]:
        data = f"graph attributes {a['graph']} -> {b['graph']}"
    elif sorted(a["nodes"], key=repr) != sorted(b["nodes"], key=repr):
        data = f"node data {a['nodes']} -> {b['nodes']}"
    else:
        ea = sorted(([list(_key(u, v)), d] for u, v, d in a["edges"]), key=repr)
        eb = sorted(([list(_key(u, v)), d] for u, v, d in b["edges"]), key=repr)
        if ea != eb:
            data = f"edge data {ea} -> {eb}"
    order = None
    if data is None and a != b:
        for k in ("nodes", "edges", "adj"):
            if a[k] != b[k]:
                order = f"iteration order of {k}: {a[k]} -> {b[k]}"
                break
    return data, order


def _observe(M, G, ms, spec, seed, mstype=None):
    """one MPCC call on G under the scripted schedule; everything observable before / after"""
    before = _snapshot(G)
    before_nodes = list(G.nodes)
    before_edges = [[u, v] for u, v in G.edges]
    s = SchedScript(spec, seed)
    state = _pyrandom.getstate()
    _pyrandom.seed(seed)  # primitives the script does not patch (sample, randint, ...) stay deterministic
    try:
        with oracles.scripted(s, extra_modules=[(M, "shuffle")]):
            ret = M.MPCC(G) if mstype == "omitted" else M.MPCC(G, _ms_value(ms, mstype))
    finally:
        _pyrandom.setstate(state)
    after = _snapshot(G)
    data_changed, order_changed = _diff_snapshots(before, after)
    shuffles = [e for e in s.log if e[0] == "shuffle"]
    rows = [[u, v, _parse_label(d.get("clique"))] for u, v, d in G.edges(data=True)]
    return {
        "ms": ms,
        "ret_is_G": int(ret is G),
        "before_nodes": before_nodes,
        "before_edges": before_edges,
        "nodes": list(G.nodes),
        "rows": rows,
        "data_changed": data_changed,
        "order_changed": order_changed,
        "shuffles": len(shuffles),
        "pre": shuffles[0][1] if shuffles else None,
        "sched": shuffles[0][2] if shuffles else None,
    }


def _seed_of(case):
    return int(hashlib.sha1(json.dumps(case, sort_keys=True).encode()).hexdigest()[:12], 16)


def impl(case):
    import importlib
    import gcmpy.covers.mpcc as M
    if case.get("prior"):
        # a history starts from a fresh module (no cache left over from other cases), so that a failing history
        # is self-contained and replays on its own; single-call cases share the module state on purpose (a cache
        # keyed too coarsely also shows across cases)
        M = importlib.reload(M)
    seed = _seed_of(case)
    G = _build(case["nodes"], case["edges"])
    prior = case.get("prior")
    prior_obs = None
    if prior:
        # a history on ONE object: call, let the caller change the graph, call again on the SAME object;
        # (or an unrelated graph first: interleaved inputs on whatever the module might cache)
        H = _build(prior["nodes"], prior["edges"]) if "nodes" in prior else G
        prior_obs = _observe(M, H, prior["ms"], prior["sched"], seed + 1, prior.get("mstype"))
        mut = prior.get("mutate")
        if mut and H is G:
            G.remove_edges_from([tuple(e) for e in mut.get("del_edges", [])])
            G.remove_nodes_from(mut.get("del_nodes", []))
            for i, v in enumerate(mut.get("add_nodes", [])):
                G.add_node(v, w=50 + i, tag=["late", v])
            _add_edges(G, mut.get("add_edges", []), base=500)
    obs = _observe(M, G, case["ms"], case["sched"], seed, case.get("mstype"))
    obs["prior_obs"] = prior_obs
    return obs


def _is_exc(obs):
    return isinstance(obs, list) and obs and obs[0] == "!exc"


def _sched_ok_tree(sched):
    return isinstance(sched, list) and all(
        isinstance(c, list) and all(isinstance(x, int) and not isinstance(x, bool) and x >= 0 for x in c)
        for c in sched)


def _nx_cliques(nodes, edges):
    import networkx as nx
    G = nx.Graph()
    G.add_nodes_from(nodes)
    G.add_edges_from([tuple(e) for e in edges])
    return [list(c) for c in nx.enumerate_all_cliques(G)]


def _infer_sched(o):
    """When no usable shuffle log exists (the order was produced by other primitives) the schedule is inferred from
    the OUTPUT: the labelled cliques in id order first, every other clique after them.  If the labelling is the
    outcome of the greedy loop under ANY order, the model reproduces it exactly under this schedule (the stable sort
    keeps the accepted cliques of each size first); if it is not, model and implementation differ."""
    seen = {}
    for _, _, lab in o["rows"]:
        if lab is not None and lab[0] != "!bad":
            seen.setdefault((lab[2], tuple(lab[1])), lab)
    acc = [list(k[1]) for k in sorted(seen)]
    accsets = {frozenset(c) for c in acc}
    rest = [c for c in _nx_cliques(o["before_nodes"], o["before_edges"]) if frozenset(c) not in accsets]
    return acc + rest


def _sched_for_model(o):
    """(schedule, how): the logged post-shuffle list when the protocol was followed, else the inferred one"""
    if o["shuffles"] == 1 and _sched_ok_tree(o["sched"]):
        return o["sched"], "logged"
    return _infer_sched(o), "inferred"


def _calls_of(impl_obs):
    """the observed MPCC calls of a case: the final one first, then the prior one"""
    out = [("final", impl_obs)]
    if impl_obs.get("prior_obs"):
        out.append(("prior", impl_obs["prior_obs"]))
    return out


def model_calls(case, impl_obs):
    if _is_exc(impl_obs):
        return []
    return [("c10_run", [o["before_nodes"], o["before_edges"], o["ms"], _sched_for_model(o)[0]])
            for _, o in _calls_of(impl_obs)]


def _key(u, v):
    return (u, v) if u <= v else (v, u)


def _skey(u, v):
    return "%d,%d" % _key(u, v)


def _decode_run(r):
    if isinstance(r, str):
        return ["!model", r]
    if r and r[0] == -1:
        return ["!model-error", r[1]]
    rows = {}
    for u, v, lab in r[2]:
        rows[_skey(u, v)] = lab if lab else None
    return {"cover": r[1], "rows": rows}


def model_obs(case, raws):
    return [_decode_run(r) for r in raws]


def _compare_call(tag, o, model):
    how = _sched_for_model(o)[1]
    if isinstance(model, list):
        if model[0] == "!model-error" and model[1] == 2:
            if how == "logged":
                return (f"{tag} call: the list handed to shuffle is not an arrangement of all cliques of the graph "
                        f"(model error 2); logged list: {o.get('pre')}")
            return (f"{tag} call: shuffle called {o['shuffles']} times and the labelled cliques cannot be completed "
                    "to an arrangement of all cliques (model error 2)")
        return f"{tag} call: model failed: {model}"
    if o["ret_is_G"] != 1:
        return f"{tag} call: MPCC did not return the graph object it was given"
    if o["nodes"] != o["before_nodes"]:
        return f"{tag} call: node list changed: {o['before_nodes']} -> {o['nodes']}"
    after = sorted(_key(u, v) for u, v, _ in o["rows"])
    before = sorted(_key(u, v) for u, v in o["before_edges"])
    if after != before:
        return f"{tag} call: edge set changed: {before} -> {after}"
    if o["data_changed"]:
        return f"{tag} call: caller's data changed: {o['data_changed']}"
    if o["order_changed"]:
        return f"{tag} call: {o['order_changed']}"
    for u, v, lab in o["rows"]:
        want = model["rows"].get(_skey(u, v))
        if lab != want:
            return (f"{tag} call: edge ({u},{v}): implementation label {lab}, model label {want} "
                    f"(schedule {how})")
    return None


def compare(case, impl_obs, model):
    if _is_exc(impl_obs):
        return f"implementation raised {impl_obs[1]} (the model is total on this input)"
    calls = _calls_of(impl_obs)
    if len(model) != len(calls):
        return f"model answered {len(model)} of {len(calls)} calls"
    for (tag, o), m in zip(calls, model):
        d = _compare_call(tag, o, m)
        if d:
            return d
    return None


def _checked_calls(impl_obs):
    """calls the verified checker judges: max_size 1 is outside the property; an unparsable label is judged by
    check_verdict directly"""
    out = []
    for tag, o in _calls_of(impl_obs):
        if o["ms"] == 1:
            continue
        if any(lab is not None and lab[0] == "!bad" for _, _, lab in o["rows"]):
            continue
        out.append((tag, o))
    return out


def check_calls(case, impl_obs):
    if _is_exc(impl_obs):
        return []
    calls = []
    for _, o in _checked_calls(impl_obs):
        rows = [[u, v, lab if lab is not None else []] for u, v, lab in o["rows"]]
        calls.append(("c10_check", [o["before_nodes"], o["before_edges"], o["ms"], o["nodes"], rows]))
    return calls


PARTS = ["same vertices", "same edges, each once", "every edge labelled",
         "size = |members| <= limit and rows sharing a label = all pairs of its members",
         "ids unique per clique", "greedy-maximality"]


def check_verdict(case, impl_obs, raws):
    if _is_exc(impl_obs):
        return (f"implementation raised {impl_obs[1]} on a simple loop-free graph with max_size {case['ms']}"
                + (" after an earlier call" if case.get("prior") else ""))
    for tag, o in _calls_of(impl_obs):
        if o["ms"] == 1:
            continue  # size limit 1 is outside the property (0 or >= 2); the correspondence still applies
        for u, v, lab in o["rows"]:
            if lab is not None and lab[0] == "!bad":
                return f"{tag} call: edge ({u},{v}) carries a label not of the form size-members-id: {lab[1]}"
        if o["data_changed"]:
            # "the graph has the same vertices and edges as before": an edge / node / graph whose data was lost
            # or altered is not the same (harness-level comparison of deep copies, see TRUSTED)
            return f"{tag} call: the caller's graph was altered: {o['data_changed']}"
    plan = _checked_calls(impl_obs)
    if len(raws) != len(plan):
        return f"checker did not run: {raws}"
    for (tag, o), r in zip(plan, raws):
        if isinstance(r, str):
            return f"{tag} call: checker did not run: {r}"
        if r and r[0] == -1:
            return f"{tag} call: checker rejected the input graph (error {r[1]})"
        if r[0] != 1:
            failed = [PARTS[i] for i, b in enumerate(r[1:]) if b == 0]
            return f"{tag} call (max_size {o['ms']}): c10_check rejected the labelling: " + "; ".join(failed)
    return None


def nontrivial_key(case, impl_obs):
    if not isinstance(impl_obs, dict):
        return None
    big = any(lab and lab[0] != "!bad" and lab[0] >= 3 for _, _, lab in impl_obs["rows"])
    if not big:
        return None
    return [impl_obs["before_nodes"], sorted(_key(u, v) for u, v in impl_obs["before_edges"]), case["ms"],
            _sched_for_model(impl_obs)[0], case.get("prior"), case.get("mstype")]


def shrink(case):
    """smaller cases; the number type of the limit is kept (and dropped as a separate step)"""
    t = case.get("mstype")
    for c in _shrink0(case):
        if t and (t != "omitted" or c["ms"] == 0):
            c["mstype"] = t
        yield c
    if t:
        yield {k: v for k, v in case.items() if k != "mstype"}
    if case.get("prior") and case["prior"].get("mstype"):
        yield dict(case, prior={k: v for k, v in case["prior"].items() if k != "mstype"})


def _shrink0(case):
    nodes, edges, ms, sched = case["nodes"], case["edges"], case["ms"], case["sched"]
    prior = case.get("prior")
    if prior:
        yield _case(nodes, edges, ms, sched)
        if "nodes" in prior:
            yield _case(nodes, edges, ms, sched, {"ms": prior["ms"], "sched": prior["sched"]})
        if prior["sched"] != ["id"]:
            yield _case(nodes, edges, ms, sched, dict(prior, sched=["id"]))
        mut = prior.get("mutate")
        if mut:
            yield _case(nodes, edges, ms, sched, {k: v for k, v in prior.items() if k != "mutate"})
            for k in list(mut):
                for i in range(len(mut[k])):
                    m2 = dict(mut)
                    m2[k] = mut[k][:i] + mut[k][i + 1:]
                    if not m2[k]:
                        del m2[k]
                    yield _case(nodes, edges, ms, sched, dict(prior, mutate=m2) if m2 else
                                {kk: v for kk, v in prior.items() if kk != "mutate"})
    for v in nodes:
        yield _case([x for x in nodes if x != v], [e for e in edges if v not in e], ms, sched, prior)
    for i in range(len(edges)):
        yield _case(nodes, edges[:i] + edges[i + 1:], ms, sched, prior)
    if sched != ["id"]:
        yield _case(nodes, edges, ms, ["id"], prior)
        if sched != ["rev"]:
            yield _case(nodes, edges, ms, ["rev"], prior)
    if ms != 0:
        yield _case(nodes, edges, 0, sched, prior)
    if nodes != sorted(nodes):
        yield _case(sorted(nodes), edges, ms, sched, prior)


def describe(case, impl_obs):
    d = {"nodes": case["nodes"], "edges": case["edges"], "max_size": case["ms"], "schedule": case["sched"],
         "max_size_type": case.get("mstype", "int")}
    if case.get("prior"):
        d["prior_call"] = case["prior"]
    if isinstance(impl_obs, dict):
        d["labels"] = [[u, v, lab] for u, v, lab in impl_obs["rows"]][:12]
    else:
        d["impl"] = impl_obs
    return d


def histogram(cases):
    h = {"cases": len(cases)}
    for c in cases:
        k = f"n={len(c['nodes'])}"
        h[k] = h.get(k, 0) + 1
        k = f"max_size={c['ms']}"
        h[k] = h.get(k, 0) + 1
        k = f"sched={c['sched'][0]}"
        h[k] = h.get(k, 0) + 1
        k = f"max_size as {c.get('mstype', 'int')}"
        h[k] = h.get(k, 0) + 1
        if c.get("prior"):
            k = ("prior_call_other_graph" if "nodes" in c["prior"] else
                 "prior_call_then_graph_edited" if c["prior"].get("mutate") else "prior_call_same_graph")
            h[k] = h.get(k, 0) + 1
    return h


def search(rng, tier, seeds):
    # the disagreeing cases themselves, under more schedules, then the thorough generator
    batch = []
    for c in seeds:
        for s in _scheds_for(rng, c["nodes"], c["edges"], "quick", 10)[:60]:
            for ms in (c["ms"], 0, 2, 3):
                t = c.get("mstype")
                batch.append(_case(c["nodes"], c["edges"], ms, s, c.get("prior"),
                                   t if t in _ms_types_for(ms) else None))
        if len(batch) >= 300:
            yield batch
            batch = []
    if batch:
        yield batch
    batch = []
    for c in generate(rng, "thorough"):
        batch.append(c)
        if len(batch) == 400:
            yield batch
            batch = []
    if batch:
        yield batch
