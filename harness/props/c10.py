"""C10 — MPCC (gcmpy/covers/mpcc.py) vs the Gallina model (Model/Mpcc.v).

The scripted shuffle imposes an arrangement of the clique list and logs the resulting (post-shuffle)
list; that list is the content-keyed schedule handed to the model, which validates it as an
arrangement of its own brute-force clique enumeration and applies the same stable sort.
The verified checker c10_check judges the labels the implementation wrote (the property itself);
equality with the model's labels is only the correspondence."""
import itertools
import math
import re

from harness import oracles

ID = "C10"
RULE = ("simple loop-free graphs (arbitrary vertex names / insertion order) x max_size in {0,2,3,4} (random graphs: 0,2..7) x a scripted "
        "shuffle of the full clique list; all graphs on <= 4 vertices and (thorough: all / quick: a seeded third of) "
        "the 1024 labelled graphs on 5 vertices, each with identity, reversed, random full permutations, random "
        "per-size-class permutations and ALL permutations of the whole list (when it has <= 6 entries) or of the 2-/3-clique "
        "classes (when there are <= 500 in thorough, <= 24 in quick); "
        "random graphs to 10 vertices with planted / overlapping cliques (max_size to 7; a fifth of them after "
        "an earlier MPCC call on the same graph object or on another graph); a small stream with max_size 1 / "
        "negative (outside the property: correspondence only). Compared with the model: the label "
        "(size, member list in order, id) of every edge, node and edge sets before/after, `ret is G`, one shuffle "
        "call on the full clique list. non-trivial = some edge labelled with a clique of >= 3 vertices; distinct by "
        "(graph, max_size, post-shuffle clique list)")
EXHAUSTIVE = {"quick": False, "thorough": True}
EXPLANATION = ("general theorems (all graphs, all size limits 0 or >= 2, all arrangements of the clique list) in "
               "Props/C10.v; correspondence: thorough = every labelled graph on <= 5 vertices x 4 size limits x "
               "(all schedules when the clique list has <= 6 entries, else all 2-/3-clique class permutations when "
               "<= 500, plus seeded samples); quick = all graphs <= 4 vertices and a seeded third of the 5-vertex "
               "ones with fewer schedules each; random graphs to 10 vertices in both tiers")
ASSUMPTIONS = [
    "nx.enumerate_all_cliques(g) lists every clique of g exactly once (checked on every case: the logged list must "
    "be an arrangement of the model's own enumeration, each clique as a set)",
    "Python sorted(key=len, reverse=True) is stable; random.shuffle permutes in place (the scripted shuffle does)",
    "nx.Graph.copy / has_edge / remove_edges_from / edge attribute assignment behave as modelled",
]
TRUSTED = ["label parser of harness/props/c10.py: f'{len(c)}-{c}-{ID}' -> (size, members, id)"]
TECHNIQUE = ("Coq proof (invariant over the processed prefix of the sorted clique list, induction; checker proved "
             "equivalent to the Prop-level specification) + model/implementation correspondence under a scripted "
             "shuffle")
LEVEL_TEXT = (
    "General theorems in coq/Props/C10.v, for every simple loop-free graph, size limit 0 or >= 2 and every "
    "arrangement of the clique list the shuffle can produce: the graph is unchanged, accepted cliques are pairwise "
    "edge-disjoint, every edge lies in exactly one accepted clique and carries exactly its label, the rows sharing a "
    "label are all pairs of its member list, size = |members| <= limit, ids unique, and greedy-maximality (every "
    "clique within the limit has an edge labelled with a clique at least as large). The executable checker "
    "c10_check is proved equivalent to that specification and is run on the labels the real MPCC writes; the model "
    "is tied to gcmpy/covers/mpcc.py by comparing every edge label under the same scripted shuffle.")
LEVEL_NOTE = ("Trusted: Coq kernel; extraction (ExtrOcamlBasic) + OCaml driver + Python harness (incl. the label "
              "parser) for the correspondence; nx.enumerate_all_cliques is modelled (brute force), its output is "
              "validated against the model's enumeration on every case. No axioms.")

MS_VALUES = [0, 2, 3, 4]


# ------------------------------------------------------------------ schedules
def _perm_of_rank(n, r):
    """r-th permutation of range(n) in lexicographic order (r taken mod n!)"""
    r %= math.factorial(n) if n > 1 else 1
    items = list(range(n))
    out = []
    for i in range(n, 0, -1):
        f = math.factorial(i - 1)
        q, r = divmod(r, f)
        out.append(items.pop(q))
    return out


def _perm_from_spec(spec, x):
    n = len(x)
    kind = spec[0]
    if kind == "id":
        return list(range(n))
    if kind == "rev":
        return list(range(n - 1, -1, -1))
    if kind == "rank":
        return _perm_of_rank(n, spec[1])
    if kind == "classrank":
        # permute inside every size class separately; the positions a class occupies stay its own
        ranks = {int(k): v for k, v in spec[1]}
        perm = list(range(n))
        sizes = sorted({len(c) for c in x})
        for k in sizes:
            pos = [i for i in range(n) if len(x[i]) == k]
            p = _perm_of_rank(len(pos), ranks.get(k, 0))
            for a, b in zip(pos, p):
                perm[a] = pos[b]
        return perm
    raise ValueError(spec)


class SchedScript(oracles.Script):
    """shuffle answers are schedule specs; the log keeps the list before and after"""

    def shuffle(self, x):
        spec = self.take("shuffle", x)
        old = [list(c) if isinstance(c, (list, tuple)) else c for c in x]
        perm = _perm_from_spec(spec, old)
        post = [old[p] for p in perm]
        self.log.append(("shuffle", old, post))
        cur = list(x)
        x[:] = [cur[p] for p in perm]


# ------------------------------------------------------------------ cases
def _case(nodes, edges, ms, sched, prior=None):
    c = {"nodes": list(nodes), "edges": [list(e) for e in edges], "ms": ms, "sched": sched}
    if prior:
        # an earlier MPCC call in the same process: on the same graph object (no "nodes" key) or on another graph
        c["prior"] = prior
    return c


def corpus():
    tri_pend = [[0, 1], [1, 2], [0, 2], [2, 3]]
    diamond = [[0, 1], [0, 2], [1, 2], [1, 3], [2, 3]]
    k4 = [list(e) for e in itertools.combinations(range(4), 2)]
    k5 = [list(e) for e in itertools.combinations(range(5), 2)]
    bow = [[0, 1], [0, 2], [1, 2], [2, 3], [2, 4], [3, 4]]
    out = [
        _case([3, 0, 1, 2, 4], tri_pend, 0, ["id"]),
        _case([0, 1, 2, 3], tri_pend, 2, ["rev"]),
        _case([], [], 0, ["id"]),
        _case([7], [], 3, ["id"]),
        _case([0, 1], [[1, 0]], 2, ["id"]),
    ]
    for ms in (0, 2, 3, 4):
        out.append(_case([0, 1, 2, 3], diamond, ms, ["rank", 12345]))
        out.append(_case([3, 2, 1, 0], diamond, ms, ["classrank", [[2, 77], [3, 1]]]))
        out.append(_case([0, 1, 2, 3], k4, ms, ["rank", 987654321]))
        out.append(_case([4, 0, 3, 1, 2], k5, ms, ["classrank", [[2, 1234567], [3, 4321], [4, 3]]]))
        out.append(_case([0, 1, 2, 3, 4], bow, ms, ["rev"]))
    # a second call on an already covered graph must relabel everything (stale labels from the first call)
    out.append(_case([0, 1, 2, 3], diamond, 2, ["id"], {"ms": 0, "sched": ["rev"]}))
    out.append(_case([0, 1, 2, 3], k4, 3, ["rank", 5], {"ms": 0, "sched": ["id"]}))
    out.append(_case([0, 1, 2, 3], k4, 0, ["rank", 5], {"ms": 2, "sched": ["id"]}))
    out.append(_case([0, 1, 2, 3], diamond, 0, ["id"], {"nodes": [0, 1, 2, 3], "edges": k4, "ms": 0, "sched": ["id"]}))
    # two K4 sharing an edge plus a pendant triangle, limit below / at / above the clique number
    g2 = [list(e) for e in itertools.combinations([0, 1, 2, 3], 2)] + \
         [list(e) for e in itertools.combinations([2, 3, 4, 5], 2) if list(e) != [2, 3]] + [[5, 6], [5, 7], [6, 7]]
    for ms in (0, 2, 3, 4, 5):
        out.append(_case([0, 1, 2, 3, 4, 5, 6, 7], g2, ms, ["rank", 31337 * (ms + 1)]))
    return out


def _clique_count_by_size(nodes, edges):
    adj = {v: set() for v in nodes}
    for u, v in edges:
        adj[u].add(v)
        adj[v].add(u)
    counts = {1: len(nodes)}
    level = [(v,) for v in nodes]
    k = 1
    while level:
        nxt = []
        for c in level:
            for w in nodes:
                if w > c[-1] and all(w in adj[x] for x in c):
                    nxt.append(c + (w,))
        k += 1
        if nxt:
            counts[k] = len(nxt)
        level = nxt
    return counts


def _scheds_for(rng, nodes, edges, tier, nrand):
    counts = _clique_count_by_size(nodes, edges)
    total = sum(counts.values())
    scheds = [["id"], ["rev"]]
    if total <= 6:
        scheds = [["rank", r] for r in range(math.factorial(total))]
        return scheds
    # all permutations inside the 2- and 3-clique classes when that is small
    c2, c3 = counts.get(2, 0), counts.get(3, 0)
    n23 = math.factorial(c2) * math.factorial(c3)
    cap = 500 if tier == "thorough" else 24
    if 1 < n23 <= cap:
        for r2 in range(math.factorial(c2)):
            for r3 in range(math.factorial(c3)):
                scheds.append(["classrank", [[2, r2], [3, r3], [1, rng.randrange(10**6)]]])
    for _ in range(nrand):
        scheds.append(["rank", rng.randrange(math.factorial(min(total, 60)))])
        scheds.append(["classrank", [[k, rng.randrange(math.factorial(min(c, 30)))] for k, c in sorted(counts.items())]])
    return scheds


def _all_graphs(n):
    prs = list(itertools.combinations(range(n), 2))
    for mask in range(1 << len(prs)):
        yield [list(p) for i, p in enumerate(prs) if mask >> i & 1]


def _random_graph(rng):
    n = rng.randint(5, 10)
    names = rng.sample(range(0, 14), n)
    kind = rng.choice(["gnp", "gnp", "planted", "overlap", "dense"])
    es = set()
    if kind in ("gnp", "dense"):
        p = rng.choice([0.3, 0.5, 0.7]) if kind == "gnp" else 0.9
        for a, b in itertools.combinations(range(n), 2):
            if rng.random() < p:
                es.add((a, b))
    elif kind == "planted":
        for a, b in itertools.combinations(range(n), 2):
            if rng.random() < 0.25:
                es.add((a, b))
        for _ in range(rng.randint(1, 3)):
            k = rng.randint(3, min(6, n))
            vs = sorted(rng.sample(range(n), k))
            es |= set(itertools.combinations(vs, 2))
    else:  # overlapping K4/K5 sharing one or two vertices
        k1 = rng.randint(3, 5)
        k2 = rng.randint(3, 5)
        sh = rng.randint(1, 2)
        a = list(range(min(k1, n)))
        b = list(range(max(0, len(a) - sh), min(n, len(a) - sh + k2)))
        es |= set(itertools.combinations(a, 2)) | set(itertools.combinations(b, 2))
        for x, y in itertools.combinations(range(n), 2):
            if rng.random() < 0.1:
                es.add((x, y))
    edges = []
    for a, b in sorted(es):
        e = [names[a], names[b]]
        if rng.random() < 0.5:
            e.reverse()
        edges.append(e)
    rng.shuffle(edges)
    order = list(names)
    rng.shuffle(order)
    return order, edges


def generate(rng, tier):
    quick = tier == "quick"
    # 1. every labelled graph on <= 4 vertices (5: all in thorough, a seeded third in quick)
    for n in range(0, 6):
        for edges in _all_graphs(n):
            if n == 5 and quick and rng.random() > 1 / 3:
                continue
            nodes = list(range(n))
            if rng.random() < 0.5:
                rng.shuffle(nodes)
            if n <= 3:
                nr = 3
            elif n == 4:
                nr = 2 if quick else 10
            else:
                nr = 1 if quick else 6
            scheds = _scheds_for(rng, nodes, edges, tier, nr)
            mss = MS_VALUES if (not quick or n <= 4) else [rng.choice(MS_VALUES), 0]
            for ms in mss:
                if len(scheds) > 40 and quick:
                    use = rng.sample(scheds, 40)
                elif len(scheds) > 520:
                    use = rng.sample(scheds, 500)
                else:
                    use = scheds
                for s in use:
                    yield _case(nodes, edges, ms, s)
    # 2. random graphs to 10 vertices
    nrand = 500 if quick else 6000
    for _ in range(nrand):
        nodes, edges = _random_graph(rng)
        ms = rng.choice([0, 0, 0, 2, 2, 3, 3, 4, 5, 6, 7])
        counts = _clique_count_by_size(nodes, edges)
        total = sum(counts.values())
        k = rng.random()
        if k < 0.1:
            s = ["id"]
        elif k < 0.2:
            s = ["rev"]
        elif k < 0.6:
            s = ["rank", rng.randrange(math.factorial(min(total, 60)))]
        else:
            s = ["classrank", [[kk, rng.randrange(math.factorial(min(c, 30)))] for kk, c in sorted(counts.items())]]
        prior = None
        k = rng.random()
        if k < 0.15:
            prior = {"ms": rng.choice([0, 0, 2, 3, 4]), "sched": ["rank", rng.randrange(10**12)]}
        elif k < 0.2:
            n2, e2 = _random_graph(rng)
            prior = {"nodes": n2, "edges": e2, "ms": rng.choice([0, 2, 3]), "sched": ["rank", rng.randrange(10**12)]}
        yield _case(nodes, edges, ms, s, prior)
    # 3. outside the property's domain (correspondence only): max_size = 1 labels no edge, a negative
    #    max_size means unbounded (`max_size > 0` is false)
    for _ in range(40 if quick else 400):
        nodes, edges = _random_graph(rng)
        yield _case(nodes, edges, rng.choice([1, -1, -3]), ["rank", rng.randrange(10**12)])


# ------------------------------------------------------------------ implementation side
_LABEL = re.compile(r"(\d+)-\[((?:\d+(?:, \d+)*)?)\]-(\d+)")


def _parse_label(s):
    if s is None:
        return None
    if not isinstance(s, str):
        return ["!bad", repr(s)]
    m = _LABEL.fullmatch(s)
    if not m:
        return ["!bad", s]
    mem = [int(x) for x in m.group(2).split(", ")] if m.group(2) else []
    return [int(m.group(1)), mem, int(m.group(3))]


def impl(case):
    import networkx as nx
    import gcmpy.covers.mpcc as M
    G = nx.Graph()
    G.add_nodes_from(case["nodes"])
    G.add_edges_from([tuple(e) for e in case["edges"]])
    before_nodes = list(G.nodes)
    before_edges = [[u, v] for u, v in G.edges]
    prior = case.get("prior")
    if prior:
        H = G
        if "nodes" in prior:
            H = nx.Graph()
            H.add_nodes_from(prior["nodes"])
            H.add_edges_from([tuple(e) for e in prior["edges"]])
        sp = SchedScript([("shuffle", prior["sched"])])
        with oracles.scripted(sp, extra_modules=[(M, "shuffle")]):
            M.MPCC(H, prior["ms"])
    s = SchedScript([("shuffle", case["sched"])])
    with oracles.scripted(s, extra_modules=[(M, "shuffle")]):
        ret = M.MPCC(G, case["ms"])
    shuffles = [e for e in s.log if e[0] == "shuffle"]
    rows = []
    extra = 0
    for u, v, d in G.edges(data=True):
        rows.append([u, v, _parse_label(d.get("clique"))])
        extra += len([k for k in d if k != "clique"])
    return {
        "ret_is_G": int(ret is G),
        "before_nodes": before_nodes,
        "before_edges": before_edges,
        "nodes": list(G.nodes),
        "rows": rows,
        "extra_attrs": extra,
        "shuffles": len(shuffles),
        "pre": shuffles[0][1] if shuffles else None,
        "sched": shuffles[0][2] if shuffles else None,
    }


def _is_exc(obs):
    return isinstance(obs, list) and obs and obs[0] == "!exc"


def _fallback_sched(case):
    """the arrangement the scripted shuffle would have produced on networkx's own enumeration
    (used only when the implementation never called shuffle / raised before it)"""
    import networkx as nx
    G = nx.Graph()
    G.add_nodes_from(case["nodes"])
    G.add_edges_from([tuple(e) for e in case["edges"]])
    cl = [list(c) for c in nx.enumerate_all_cliques(G)]
    perm = _perm_from_spec(case["sched"], cl)
    return [cl[p] for p in perm]


def _graph_of(case, impl_obs):
    if isinstance(impl_obs, dict):
        return impl_obs["before_nodes"], impl_obs["before_edges"]
    import networkx as nx
    G = nx.Graph()
    G.add_nodes_from(case["nodes"])
    G.add_edges_from([tuple(e) for e in case["edges"]])
    return list(G.nodes), [[u, v] for u, v in G.edges]


def _sched_ok_tree(sched):
    return isinstance(sched, list) and all(
        isinstance(c, list) and all(isinstance(x, int) and not isinstance(x, bool) and x >= 0 for x in c)
        for c in sched)


def model_calls(case, impl_obs):
    nodes, edges = _graph_of(case, impl_obs)
    sched = impl_obs.get("sched") if isinstance(impl_obs, dict) else None
    if sched is None or not _sched_ok_tree(sched):
        sched = _fallback_sched(case)
    return [("c10_run", [nodes, edges, case["ms"], sched])]


def _key(u, v):
    return (u, v) if u <= v else (v, u)


def _skey(u, v):
    return "%d,%d" % _key(u, v)


def model_obs(case, raws):
    r = raws[0]
    if isinstance(r, str):
        return ["!model", r]
    if r and r[0] == -1:
        return ["!model-error", r[1]]
    rows = {}
    for u, v, lab in r[2]:
        rows[_skey(u, v)] = lab if lab else None
    return {"cover": r[1], "rows": rows}


def compare(case, impl_obs, model):
    if _is_exc(impl_obs):
        return f"implementation raised {impl_obs[1]} (the model is total on this input)"
    if isinstance(model, list):
        if model[0] == "!model-error" and model[1] == 2:
            return ("the list handed to shuffle is not an arrangement of all cliques of the graph "
                    f"(model error 2); logged list: {impl_obs.get('pre')}")
        return f"model failed: {model}"
    if impl_obs["shuffles"] != 1:
        return f"oracle protocol mismatch: shuffle called {impl_obs['shuffles']} times, expected once"
    if impl_obs["ret_is_G"] != 1:
        return "MPCC did not return the graph object it was given"
    if impl_obs["nodes"] != impl_obs["before_nodes"]:
        return f"node list changed: {impl_obs['before_nodes']} -> {impl_obs['nodes']}"
    after = sorted(_key(u, v) for u, v, _ in impl_obs["rows"])
    before = sorted(_key(u, v) for u, v in impl_obs["before_edges"])
    if after != before:
        return f"edge set changed: {before} -> {after}"
    if impl_obs["extra_attrs"]:
        return "edge attributes other than 'clique' appeared"
    for u, v, lab in impl_obs["rows"]:
        want = model["rows"].get(_skey(u, v))
        if lab != want:
            return f"edge ({u},{v}): implementation label {lab}, model label {want}"
    return None


def check_calls(case, impl_obs):
    if _is_exc(impl_obs) or case["ms"] == 1:
        return []
    rows = []
    for u, v, lab in impl_obs["rows"]:
        if lab is not None and lab[0] == "!bad":
            return []
        rows.append([u, v, lab if lab is not None else []])
    return [("c10_check", [impl_obs["before_nodes"], impl_obs["before_edges"], case["ms"], impl_obs["nodes"], rows])]


PARTS = ["same vertices", "same edges, each once", "every edge labelled",
         "size = |members| <= limit and rows sharing a label = all pairs of its members",
         "ids unique per clique", "greedy-maximality"]


def check_verdict(case, impl_obs, raws):
    if case["ms"] == 1:
        return None  # size limit 1 is outside the property (0 or >= 2); the correspondence still applies
    if _is_exc(impl_obs):
        return f"implementation raised {impl_obs[1]} on a simple loop-free graph with max_size {case['ms']}"
    for u, v, lab in impl_obs["rows"]:
        if lab is not None and lab[0] == "!bad":
            return f"edge ({u},{v}) carries a label not of the form size-members-id: {lab[1]}"
    if not raws or isinstance(raws[0], str):
        return f"checker did not run: {raws}"
    r = raws[0]
    if r and r[0] == -1:
        return f"checker rejected the input graph (error {r[1]})"
    if r[0] == 1:
        return None
    failed = [PARTS[i] for i, b in enumerate(r[1:]) if b == 0]
    return "c10_check rejected the labelling: " + "; ".join(failed)


def nontrivial_key(case, impl_obs):
    if not isinstance(impl_obs, dict):
        return None
    big = any(lab and lab[0] != "!bad" and lab[0] >= 3 for _, _, lab in impl_obs["rows"])
    if not big:
        return None
    return [impl_obs["before_nodes"], sorted(_key(u, v) for u, v in impl_obs["before_edges"]), case["ms"],
            impl_obs["sched"]]


def shrink(case):
    nodes, edges, ms, sched = case["nodes"], case["edges"], case["ms"], case["sched"]
    prior = case.get("prior")
    if prior:
        yield _case(nodes, edges, ms, sched)
        if "nodes" in prior:
            yield _case(nodes, edges, ms, sched, {"ms": prior["ms"], "sched": prior["sched"]})
        if prior["sched"] != ["id"]:
            yield _case(nodes, edges, ms, sched, dict(prior, sched=["id"]))
    for v in nodes:
        yield _case([x for x in nodes if x != v], [e for e in edges if v not in e], ms, sched, prior)
    for i in range(len(edges)):
        yield _case(nodes, edges[:i] + edges[i + 1:], ms, sched, prior)
    if sched != ["id"]:
        yield _case(nodes, edges, ms, ["id"], prior)
        if sched != ["rev"]:
            yield _case(nodes, edges, ms, ["rev"], prior)
    if ms != 0:
        yield _case(nodes, edges, 0, sched, prior)
    if nodes != sorted(nodes):
        yield _case(sorted(nodes), edges, ms, sched, prior)


def describe(case, impl_obs):
    d = {"nodes": case["nodes"], "edges": case["edges"], "max_size": case["ms"], "schedule": case["sched"]}
    if case.get("prior"):
        d["prior_call"] = case["prior"]
    if isinstance(impl_obs, dict):
        d["labels"] = [[u, v, lab] for u, v, lab in impl_obs["rows"]][:12]
    else:
        d["impl"] = impl_obs
    return d


def histogram(cases):
    h = {"cases": len(cases)}
    for c in cases:
        k = f"n={len(c['nodes'])}"
        h[k] = h.get(k, 0) + 1
        k = f"max_size={c['ms']}"
        h[k] = h.get(k, 0) + 1
        k = f"sched={c['sched'][0]}"
        h[k] = h.get(k, 0) + 1
        if c.get("prior"):
            k = "prior_call_other_graph" if "nodes" in c["prior"] else "prior_call_same_graph"
            h[k] = h.get(k, 0) + 1
    return h


def search(rng, tier, seeds):
    # the disagreeing cases themselves, under more schedules, then the thorough generator
    batch = []
    for c in seeds:
        for s in _scheds_for(rng, c["nodes"], c["edges"], "quick", 10)[:60]:
            for ms in (c["ms"], 0, 2, 3):
                batch.append(_case(c["nodes"], c["edges"], ms, s, c.get("prior")))
        if len(batch) >= 300:
            yield batch
            batch = []
    if batch:
        yield batch
    batch = []
    for c in generate(rng, "thorough"):
        batch.append(c)
        if len(batch) == 400:
            yield batch
            batch = []
    if batch:
        yield batch
