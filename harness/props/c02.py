"""C02 — edge-list columns stay parallel, motif identities are well formed.
Same runs as C01 (Model/Gen.v); the verified checker c02_check judges the three observed columns against the
logged results of the build callbacks and the configured names."""
from harness.props import gen_common as G

ID = "C02"
RULE = ("case = (generator type, construction path, jds, sizes, build callbacks, naming configuration, motif_indices, "
        "permutations); motif shapes {bare edge, 0, 1, 2, 3, k edges; tuple-of-tuples, list-of-tuples, edges as lists} "
        "x {homogeneous, per-edge names} x the FORM in which the callbacks hand back their results (naming callbacks: tuple / "
        "list / iterator / generator / map / itertools.repeat, a fresh one-shot object per call; build callbacks: as written / "
        "tuple / list / lists of lists; fast and custom generators also: the single bare edge written as a LIST [u, v], alone or next to list-of-tuples motifs), rotating over two thirds of the exhaustive family and drawn at random for 60% of the "
        "random cases; exhaustive small family (N<=2 with column sums <=3 and N<=3 with sums <=2 in quick; N<=2 sums <=4 and N<=3 sums <=3 in thorough; <=2 topologies/orbits, all permutations, every "
        "builder that accepts the motif size) + seeded random (N<=12, <=4 orbits) + malformed stream; compared: the "
        "three columns entry by entry, callback calls, joint_degrees; a share of the random cases are histories (2-3 "
        "generations on the same algorithm object / jds list, returned object damaged in between, or -- 40% -- every returned object kept untouched and judged again by c02_check after the last call); the DESIGN section-3 replay is corpus entry 1; "
        "10 corpus entries are custom motifs with per-edge names whose vertex group repeats a vertex (clique / star / diamond / "
        "cycle builders: one callback result holds the same vertex pair at two positions). "
        "LARGE RUNS, checker only (no model call): 2 (thorough 8) runs of the fast / network generator under the real seeded "
        "random module with 66000-70000 2-cliques (+ sometimes up to 400 triangles, before or after them), i.e. more than 2^16 "
        "motif instances -- layout 'deg1' (every vertex one stub, motifs vertex disjoint; also for the network variant, rows "
        "read back from the graph) or 'hubs' (1000-2000 vertices of degree ~100) -- judged by the verified checker over Z "
        "c02_check_ids on the logged callback results and the three columns. "
        "Non-trivial = valid case with >=2 motif instances of which one has >=2 edges or is a bare edge; distinct by "
        "(type, jds, sizes, builders, names, indices, pis)")
EXHAUSTIVE = {"quick": True, "thorough": True}
EXPLANATION = ("general theorems (all inputs, callbacks, permutations) in Props/C02.v, checker proved to decide the "
               "specification (sound + complete); correspondence exhaustive over "
               "the small family named in the rule and seeded-random beyond; outputs with more than 2^16 motifs are judged by "
               "c02_check_ids (integers as Z, one merge sort of the block ids), proved to accept only what c02_check accepts "
               "(C02_big_checker_implies_checker / C02_big_checker_sound)")
ASSUMPTIONS = [
    "random.shuffle is the only randomness used (every other entry point raises during a run)",
    "naming callbacks return one name per edge of their motif (a single name for the bare edge): the property's "
    "reading of 'the matching position of the naming callback'"]
TRUSTED = ["build callbacks observed through a logging wrapper; names mapped to integer codes by the harness",
           "network variant: rows are read back from the graph in callback order; a vertex pair the callbacks produced "
           "more than once is left out of the callback results and of the rows alike (networkx keeps one attribute set "
           "per pair, see C04), every pair produced exactly once is judged"]
TECHNIQUE = ("Coq proof (induction over the emitted motif list; block decomposition of the rows) + "
             "model/implementation correspondence under scripted shuffles + verified checker on the observed columns")
LEVEL_TEXT = (
    "General theorems in coq/Props/C02.v for every input, callback family and permutation: the model's three "
    "columns have equal length; the rows are the concatenation, in call order, of one block per callback call, "
    "each block carrying exactly that call's edges, the prescribed names (topology name resp. position j of the "
    "naming callback; one row for a bare edge, two rows for a two-edge motif) and the call's index as motif id, so "
    "the rows sharing an id are exactly one callback's edges and distinct instances never share one. c02_check is "
    "proved sound AND complete for the Prop-level block specification (C02_checker_correct: it returns true iff "
    "every raw entry is a pair of non-negative ints and Spec_C02 holds), the model's own columns are proved to "
    "pass it for all inputs (C02_*_model_passes_checker), and it is run on the real generators' columns (raw "
    "entries: every edge must be a pair of ints). Tied to /repo by exact column comparison under scripted shuffles. "
    "For edge lists too large for unary naturals (tens of thousands of motifs) the entry c02_check_ids runs c02_okz: the "
    "same block judgement over Z for the fast / network generator, distinctness of the block ids through one merge sort; "
    "C02_big_checker_implies_checker proves that whatever it accepts, c02_okb accepts on the nat image of the columns, so "
    "Spec_C02 holds for the block decomposition given by the logged callback calls (C02_big_checker_sound), and "
    "C02_big_checker_ids_distinct states the distinctness on the integers themselves.")
LEVEL_NOTE = ("Trusted: Coq kernel; extraction + OCaml driver + Python harness for the correspondence. The fast "
              "generator with a bare-edge callback (entries would be ints) is outside the modelled surface. "
              "Print Assumptions: closed under the global context.")

ALL_CUSTOM = [G.CLIQUE, G.CYCLE, G.DIAMOND, G.BARE, G.PATH2, G.STAR, G.NONE, G.PATH2L]
ALL_FAST = [G.CLIQUE, G.CYCLE, G.DIAMOND, G.PATH2, G.STAR, G.NONE]


def repeated_pair_corpus():
    """custom motifs with PER-EDGE names whose vertex group repeats a vertex, so that one build call returns the same
    vertex pair at two positions (a hub drawn twice into one instance): the row's name must be the name at ITS
    position, not at the first position holding an equal pair (C02-r2-1: names[es.index(e)])"""
    out = []

    def add(jds, sizes, codes, mis, pis, base=10):
        out.append({"tag": G.MOTIFS, "via": "direct", "jds": jds, "sizes": sizes, "codes": codes,
                    "names": G.names_for(G.MOTIFS, codes, sizes, mis, base=base), "mis": mis, "pis": pis})
    add([[2], [1]], [3], [G.CLIQUE], [[0]], [[0, 1, 2]])                 # (0,0,1): (0,0),(0,1),(0,1)
    add([[2], [1]], [3], [G.CLIQUE], [[0]], [[2, 0, 1]], base=300)       # (1,0,0): (1,0),(1,0),(0,0)
    add([[1], [2]], [3], [G.STAR], [[0]], [[0, 1, 2]])                   # hub 0, leaf 1 twice
    add([[2], [2]], [4], [G.CLIQUE], [[0]], [[0, 2, 1, 3]])              # (0,1,0,1)
    add([[2], [1], [1]], [4], [G.DIAMOND], [[0]], [[0, 2, 1, 3]])
    add([[3], [1]], [4], [G.STAR], [[0]], [[3, 0, 1, 2]], base=7)        # hub 1, leaf 0 three times
    add([[2], [2]], [2], [G.CYCLE], [[0]], [[0, 1, 2, 3]])               # (0,0) and (1,1): cycle on a repeated vertex
    add([[2, 0], [1, 1], [1, 1]], [2, 1], [G.STAR], [[0, 1]], [[0, 1, 2, 3], [0, 1]])   # two-orbit motif
    add([[2, 1], [2, 1]], [2, 1], [G.CLIQUE], [[1, 0]], [[0, 2, 1, 3], [1, 0]])
    add([[4], [2], [3]], [3], [G.CLIQUE], [[0]], [[0, 1, 4, 2, 3, 6, 5, 7, 8]])   # three instances, each with a repeat
    return out


def corpus():
    return G.common_corpus() + repeated_pair_corpus()


def shape_cases(N_max, maxsum, tags, vias):
    """every builder that accepts the motif size, on every small single-/two-orbit configuration, all permutations;
    the forms in which the callbacks hand back their results (tuple / list / iterator / generator / map / repeat for
    the names, tuple / list / lists of lists for the edges) rotate over the family"""
    for k, c in enumerate(_shape_cases(N_max, maxsum, tags, vias)):
        yield G.add_forms(c, k=k) if k % 3 else c


def _shape_cases(N_max, maxsum, tags, vias):
    import itertools
    for N in range(1, N_max + 1):
        for T in (1, 2):
            cols = list(G.small_columns(N, maxsum, 2))
            for colset in itertools.product(cols, repeat=T):
                sums = [sum(c) for c in colset]
                if T == 2 and sum(sums) > maxsum + 1:
                    continue
                jds = [[colset[k][v] for k in range(T)] for v in range(N)]
                for sizes in itertools.product((1, 2, 3, 4), repeat=T):
                    if any(s % n for s, n in zip(sums, sizes)) or not any(sums):
                        continue
                    for tag in tags:
                        misopts = [[[k] for k in range(T)]]
                        if tag == G.MOTIFS and T == 2 and sums[0] // sizes[0] == sums[1] // sizes[1]:
                            misopts.append([[1, 0]])
                        for mis in misopts:
                            motif_sizes = [sum(sizes[i] for i in idxs) for idxs in mis]
                            pool = ALL_CUSTOM if tag == G.MOTIFS else ALL_FAST
                            opts = [[c for c in pool if G.n_edges(c, s) is not None] for s in motif_sizes]
                            for codes in itertools.product(*opts):
                                if len(codes) == 2 and codes[0] not in (G.CLIQUE, G.BARE, G.PATH2) and N > 1:
                                    continue
                                names = G.names_for(tag, list(codes), list(sizes), mis)
                                for pis in itertools.product(*[G.all_perms(s) for s in sums]):
                                    for via in vias:
                                        yield {"tag": tag, "via": via, "jds": jds, "sizes": list(sizes),
                                               "codes": list(codes), "names": names,
                                               "mis": mis if tag == G.MOTIFS else [], "pis": [list(p) for p in pis]}


def generate(rng, tier):
    quick = tier == "quick"
    if quick:
        yield from shape_cases(2, 3, (G.MOTIFS, G.FAST), ("direct",))
        yield from shape_cases(3, 2, (G.MOTIFS, G.NETWORK), ("main",))
    else:
        yield from shape_cases(2, 4, (G.MOTIFS, G.FAST), ("direct",))
        yield from shape_cases(3, 3, (G.MOTIFS, G.NETWORK, G.FAST), ("main",))
        yield from shape_cases(3, 2, (G.MOTIFS, G.FAST), ("factory",))
    n = 600 if quick else 8000
    for i in range(n):
        yield G.random_valid_case(rng, [G.MOTIFS, G.FAST, G.MOTIFS, G.NETWORK][i % 4], maxN=12, maxT=4)
    for i in range(n // 4):
        yield G.malformed_case(rng, [G.MOTIFS, G.FAST, G.MOTIFS, G.NETWORK][i % 4])
    # histories: several generations on ONE algorithm object and ONE jds list (stale ids, shared lists, caches)
    for i in range(n // 2):
        yield G.history_case(rng, [G.MOTIFS, G.FAST, G.MOTIFS, G.NETWORK][i % 4])
    # sizes / degrees / counts beyond the usual range (motif sizes 9..17, degrees up to 20, N up to 60)
    for i in range(n // 5):
        yield G.big_case(rng, [G.MOTIFS, G.FAST, G.MOTIFS, G.NETWORK][i % 4])
    # checker-only stream: more than 2^16 motif instances (fast: both layouts; network: vertex-disjoint motifs)
    for i in range(2 if quick else 8):
        yield G.huge_case(rng, [G.FAST, G.NETWORK, G.FAST, G.FAST][i % 4])


def impl(case):
    if "huge" in case:
        return G.run_huge(case)
    return G.impl_case(case)


def model_calls(case, impl_obs):
    if "huge" in case:
        return []            # checker only: the unary-nat model cannot run 70000 motifs
    return G.model_calls_case("c02_run", case)


def model_obs(case, raws):
    return G.model_obs_case(raws)


def compare(case, impl_obs, model):
    if "huge" in case:
        if G.is_exc(impl_obs):
            return "implementation raised %s on a large valid input" % impl_obs[1]
        want = case["huge"]["n2"] + case["huge"]["n3"]
        if impl_obs["n_calls"] != want:
            return "large run: %d build-callback calls, expected %d" % (impl_obs["n_calls"], want)
        return None
    return G.compare_case(case, impl_obs, model)


VACUOUS = [0, [], [], [], [], []]      # c02_check answers 1 on it


def check_calls(case, impl_obs):
    """two checker calls per step: c01_check (are the hypotheses met?) and c02_check on the columns;
    large runs: ONE call of the checker over Z (c02_check_ids)"""
    if "huge" in case:
        if not isinstance(impl_obs, dict) or impl_obs.get("repeated_pairs"):
            return []
        return [("c02_check_ids", G.huge_check_tree(case, impl_obs))]
    steps = G.steps_of(case)
    calls = []
    for i, st in enumerate(steps):
        o = impl_obs["steps"][i] if isinstance(impl_obs, dict) else ["!exc", "x"]
        calls.append(("c01_check", G.c01_check_tree(st, o)))
        t = G.c02_check_tree(st, o) if isinstance(o, dict) else None
        calls.append(("c02_check", t if t is not None else VACUOUS))
    return calls + G.later_check_calls(case, impl_obs, VACUOUS)


def check_verdict(case, impl_obs, raws):
    if "huge" in case:
        if G.is_exc(impl_obs):
            return "implementation raised %s on a large valid input (%d motifs)" % (
                impl_obs[1], case["huge"]["n2"] + case["huge"]["n3"])
        if impl_obs.get("repeated_pairs"):
            return None          # network variant with a repeated vertex pair: rows cannot be read back (see C04)
        if raws and raws[0] == 1:
            return None
        o = impl_obs
        return ("c02_check_ids rejected the columns of a run with %d motif instances (lengths %d/%d/%d, %d distinct "
                "ids): parallel columns, pair entries, one block per callback call with its edges / name / a private id"
                % (o["n_calls"], len(o["edges"]), len(o["names"]), len(o["ids"]), len(set(map(repr, o["ids"])))))
    steps = G.steps_of(case)
    total = G.config_total(case)
    valid = [bool(raws) and raws[2 * i] != 2 and total for i in range(len(steps))]
    if G.is_exc(impl_obs):
        if all(valid):
            return "implementation raised %s on a valid input" % impl_obs[1]
        return None
    for i, o in enumerate(impl_obs["steps"]):
        if not valid[i]:
            continue           # handshake / configuration hypotheses not met: nothing claimed
        if raws[2 * i + 1] != 1:
            where = "" if len(steps) == 1 else " (call %d of %d on the same algorithm object)" % (i + 1, len(steps))
            return ("c02_check rejected the observed columns%s (lengths %d/%d/%d; parallel columns, pair entries, one "
                    "block per callback call with its edges / names / a private id)" % (
                        where, len(o.get("edges", [])), len(o.get("names", [])), len(o.get("ids", []))))
    return G.later_verdict(case, impl_obs, raws[2 * len(steps):], valid)


def nontrivial_key(case, impl_obs):
    if not isinstance(impl_obs, dict) or "kind" in case:
        return None
    if "huge" in case:
        return [case["tag"], case["huge"]]
    res = [r for o in impl_obs["steps"] for r in o["results"]]
    if len(res) < 2:
        return None
    if any(sh and (sh[0] == 1 or (sh[0] == 0 and len(sh[1]) >= 2)) for _, sh in res):
        return [case["tag"], case.get("jds"), case["sizes"], case["codes"], case["names"], case.get("mis"),
                case.get("pis"), case.get("steps")]
    return None


def shrink(case):
    if "huge" in case:
        return iter(())      # the case is a handful of parameters; below 2^16 motifs it says nothing new
    return G.shrink_case(case)


def describe(case, impl_obs):
    if "huge" in case:
        d = {"generator": G.TAGNAME[case["tag"]], "via": case.get("via"), "large_run": case["huge"], "sizes": case["sizes"]}
        if isinstance(impl_obs, dict):
            d["callback_calls"] = impl_obs["n_calls"]
            d["columns_head"] = [impl_obs["edges"][:4], impl_obs["names"][:4], impl_obs["ids"][:4]]
            d["ids_tail"] = impl_obs["ids"][-4:]
        return d
    d = G.describe_case(case, impl_obs)
    d["names"] = case["names"]
    if isinstance(impl_obs, dict) and "edges" in impl_obs["steps"][0]:
        o = impl_obs["steps"][0]
        d["columns"] = [o["edges"][:8], o["names"][:8], o["ids"][:8]]
    return d


def histogram(cases):
    return G.histo(cases)


def search(rng, tier, seeds):
    batch = []
    for c in generate(rng, "thorough"):
        batch.append(c)
        if len(batch) == 400:
            yield batch
            batch = []
    if batch:
        yield batch
