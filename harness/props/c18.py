"""C18 — bond_percolate vs Model/Perc.v with scripted random.random()."""
from fractions import Fraction

from harness import oracles
from harness.core import close, is_exc, q_tree

ID = "C18"
RULE = ("random graphs with 1..10 vertices (edgeless, isolated vertices, paths, cycles, stars with up to 8 leaves, "
        "G(n,p)), phi in {0, 1, dyadics}, one scripted dyadic draw in [0,1) per edge in G.edges() order, including draws "
        "exactly equal to phi and (for phi=0) the draw 0.0; for graphs with <= 4 edges additionally ALL below/at/above "
        "patterns; one third of the cases are HISTORIES: 2-3 calls on the same graph object with edges added/removed in "
        "between; vertex labels are ints, mixed str/int or tuples/large ints in turn; a quarter of the non-star graphs have "
        "self-loops; input graphs carry node, edge and graph attributes and are compared (data and edge order) before/after "
        "every call; non-trivial = some call with at least one edge kept and one removed; distinct by full case")
EXHAUSTIVE = {"quick": False, "thorough": False}
EXPLANATION = ("general theorems in Props/C18.v (components = path-connectivity, value = k/N with 1<=k<=N, phi=1, phi=0, "
               "star count, per-edge retention depends on its own draw only, monotone coupling in phi); correspondence with scripted draws; "
               "c18_check judges the returned float against largest-component/N of the kept subgraph")
ASSUMPTIONS = ["random.random() draws are independent and uniform on [0,1) (CPython Mersenne twister) — needed only to "
               "read 'kept iff own draw <= phi' as 'kept independently with probability phi'",
               "networkx copy(), edges() order, remove_edges_from, connected_components behave as modelled"]
TRUSTED = []
TECHNIQUE = "Coq proof (general theorems, all graphs / phi / draw sequences) + scripted-RNG correspondence + verified checker"
LEVEL_TEXT = (
    "General theorems (coq/Props/C18.v) over every graph, every phi and every sequence of draws: the component function "
    "computes path-connectivity classes; the result is k/N with 1<=k<=N; at phi=1 it is the exact largest-component "
    "fraction of the input, at phi=0 exactly 1/N (for draws > 0), on a star N*S-1 equals the number of draws <= phi "
    "(hence Binomial(M,phi) under independent uniform draws), and each edge is kept iff its own draw <= phi; monotone "
    "coupling (C18_monotone_coupling, C18_more_edges_larger_components): for phi <= phi' and the same draws the kept "
    "edges at phi are among those at phi', so no component and not the returned numerator can shrink (the direction of "
    "the comparison, for every graph and draw sequence; strict on the example C18_monotone_nonvacuous); the value depends only on the undirected kept-edge set and the "
    "vertex set, not on edge order, orientation, multiplicity or vertex order (C18_value_depends_on_sets_only); components are equivalence classes: equal as sets or disjoint "
    "(C18_components_are_classes). Tied to "
    "gcmpy/tools/bond_percolate.py by running the real function under a scripted random.random and comparing the float "
    "with the model's exact k/N; the input graph is compared before/after.")
LEVEL_NOTE = ("Trusted: Coq kernel; extraction + driver + harness; independence/uniformity of random.random(); networkx "
              "primitives (results compared each case). The measure-zero event random()==0.0 at phi=0 is a stated side "
              "condition. No axioms.")


def _c(nodes, edges, phi, rs):
    return {"nodes": nodes, "edges": edges, "calls": [{"add": [], "remove": [], "phi": phi, "rs": rs}]}


def corpus():
    return [_c(c["nodes"], c["edges"], c["phi"], c["rs"]) for c in _CORPUS] + [
        # nx.MultiGraph: two parallel bonds 0-1, the first dropped (9/10 > 1/2), the second kept: S = 1
        dict(_c([0, 1], [[0, 1], [0, 1]], [1, 2], [[9, 10], [1, 10]]), multi=1),
        dict(_c([0, 1, 2], [[0, 1], [1, 2], [1, 2], [0, 1]], [1, 2], [[9, 10], [9, 10], [1, 10], [1, 10]]), multi=1),
        # second call on the same object after the graph grew (stale-cache regression)
        {"nodes": [0, 1, 2, 3], "edges": [[0, 1]], "calls": [
            {"add": [], "remove": [], "phi": [1, 1], "rs": [[1, 2]]},
            {"add": [[1, 2], [2, 3]], "remove": [], "phi": [0, 1], "rs": [[1, 2], [1, 4], [3, 4]]}]},
    ]


_CORPUS = [
        {"nodes": [0, 1, 2, 3], "edges": [[0, 1], [0, 2], [0, 3]], "phi": [1, 2], "rs": [[1, 4], [3, 4], [1, 2]]},
        {"nodes": [0], "edges": [], "phi": [0, 1], "rs": []},
        {"nodes": [0, 1, 2], "edges": [[0, 1], [1, 2]], "phi": [0, 1], "rs": [[1, 8], [1, 1024]]},
        {"nodes": [0, 1, 2], "edges": [[0, 1], [1, 2]], "phi": [1, 1], "rs": [[1023, 1024], [0, 1]]},
        {"nodes": [0, 1, 2], "edges": [[0, 1], [1, 2]], "phi": [0, 1], "rs": [[0, 1], [1, 2]]},
]


def _graph(rng):
    kind = rng.choice(["gnp", "gnp", "star", "path", "cycle", "empty", "two"])
    n = rng.randint(1, 10)
    nodes = list(range(n))
    rng.shuffle(nodes)
    edges = []
    if kind == "gnp":
        p = rng.choice([0.15, 0.3, 0.5, 0.8])
        for i in range(n):
            for j in range(i + 1, n):
                if rng.random() < p:
                    edges.append([i, j] if rng.random() < 0.5 else [j, i])
        rng.shuffle(edges)
    elif kind == "star":
        n = rng.randint(2, 9)
        nodes = list(range(n))
        edges = [[0, i] for i in range(1, n)]
    elif kind == "path":
        edges = [[i, i + 1] for i in range(n - 1)]
    elif kind == "cycle" and n >= 3:
        edges = [[i, (i + 1) % n] for i in range(n)]
    elif kind == "two" and n >= 4:
        h = n // 2
        edges = [[i, j] for i in range(h) for j in range(i + 1, h)] + [[i, i + 1] for i in range(h, n - 1)]
    if kind != "star" and rng.random() < 0.25:
        # self-loops are legal edges of an nx.Graph (and the generators do produce them)
        for _ in range(rng.randint(1, 2)):
            v = rng.choice(nodes)
            if [v, v] not in edges:
                edges.insert(rng.randint(0, len(edges)), [v, v])
    return nodes, edges


def _draw(rng, phi):
    r = rng.random()
    if r < 0.15:
        return phi if phi < 1 else Fraction(1023, 1024)
    return Fraction(rng.randint(0 if r < 0.2 else 1, 1023), 1024)


def _call(rng, edges, phi=None):
    if phi is None:
        phi = rng.choice([Fraction(0), Fraction(1), Fraction(1, 2), Fraction(1, 4), Fraction(3, 4),
                          Fraction(rng.randint(0, 64), 64)])
    return {"add": [], "remove": [], "phi": q_tree(phi), "rs": [q_tree(_draw(rng, phi)) for _ in edges]}


def generate(rng, tier):
    n = 700 if tier == "quick" else 8000
    for i in range(n):
        nodes, edges = _graph(rng)
        calls = [_call(rng, edges)]
        if i % 3 == 0:
            # a history on ONE graph object: mutate it between calls (add / remove edges, add a vertex)
            cur = [list(e) for e in edges]
            for _ in range(rng.randint(1, 2)):
                add, rem = [], []
                for _ in range(rng.randint(0, 3)):
                    u, v = rng.choice(nodes), rng.choice(nodes)
                    if u != v and [u, v] not in cur and [v, u] not in cur and [u, v] not in add and [v, u] not in add:
                        add.append([u, v])
                if cur and rng.random() < 0.5:
                    rem.append(rng.choice(cur))
                cur = [e for e in cur if e not in rem] + add
                c = _call(rng, cur)
                c["add"], c["remove"] = add, rem
                calls.append(c)
        yield {"nodes": nodes, "edges": edges, "calls": calls}
        if i % 5 == 4 and edges:
            # the same network as an nx.MultiGraph with some bonds doubled / tripled (parallel bonds are separate
            # bonds: each is retained independently; `g.copy()` keeps them, `nx.Graph(g)` would merge them)
            medges = [list(e) for e in edges]
            for _ in range(rng.randint(1, 3)):
                e = rng.choice(edges)
                medges.insert(rng.randint(0, len(medges)), list(e) if rng.random() < 0.5 else [e[1], e[0]])
            yield {"nodes": nodes, "edges": medges, "calls": [_call(rng, medges)], "multi": 1}
    # all below / at / above patterns on small graphs
    small = [([0, 1, 2], [[0, 1], [1, 2], [0, 2]]), ([0, 1, 2, 3], [[0, 1], [0, 2], [0, 3]]),
             ([0, 1, 2, 3], [[0, 1], [2, 3]]), ([3, 1, 2, 0], [[0, 1], [1, 2], [2, 3], [3, 0]])]
    phi = Fraction(1, 2)
    import itertools
    for nodes, edges in small:
        for pat in itertools.product([Fraction(1, 4), Fraction(1, 2), Fraction(3, 4)], repeat=len(edges)):
            yield {"nodes": nodes, "edges": edges,
                   "calls": [{"add": [], "remove": [], "phi": q_tree(phi), "rs": [q_tree(r) for r in pat]}]}


def _snapshot(g):
    return (dict(g.graph), [(v, tuple(sorted(d.items()))) for v, d in g.nodes(data=True)], sorted((tuple(sorted([repr(u), repr(v)])), tuple(sorted(d.items()))) for u, v, d in g.edges(data=True)))


def _lab(case):
    """vertex label of model index i.  labmode 0: the int itself; 1: mixed str / int labels ('hub', 's3', 4, ...);
    2: tuples and large ints (hashable objects of other types)"""
    mode = case.get("labmode", (len(case["nodes"]) + len(case["edges"])) % 3)
    if mode == 1:
        return lambda i: ("hub" if i == 0 else ("s%d" % i if i % 2 else i))
    if mode == 2:
        return lambda i: ((i, "t") if i % 2 else 1000 + i)
    return lambda i: i


def impl(case):
    import networkx as nx
    from gcmpy.tools.bond_percolate import bond_percolate
    lab = _lab(case)
    inv = {lab(i): i for i in set(case["nodes"]) | {v for e in case["edges"] for v in e}
           | {v for c in case["calls"] for e in c["add"] for v in e}}
    g = nx.MultiGraph(name="input") if case.get("multi") else nx.Graph(name="input")
    for v in case["nodes"]:
        g.add_node(lab(v), tag="n%d" % v)
    for i, e in enumerate(case["edges"]):
        g.add_edge(lab(e[0]), lab(e[1]), w=i, label="e%d" % i)
    outs = []
    for ci, call in enumerate(case["calls"]):
        damaged = False
        for e in call["remove"]:
            try:
                g.remove_edge(lab(e[0]), lab(e[1]))
            except Exception:  # noqa: BLE001 - an earlier call already took this edge out of the caller's graph
                damaged = True
        for i, e in enumerate(call["add"]):
            g.add_edge(lab(e[0]), lab(e[1]), w=100 * (ci + 1) + i)
        order = [[inv.get(u, 4000), inv.get(v, 4000)] for u, v in g.edges()]
        before = _snapshot(g)
        rs = [Fraction(*r) for r in call["rs"]]
        script = oracles.Script([("random", float(r)) for r in rs])
        out = {"order": order, "nodes": [inv.get(v, 4000) for v in g.nodes()]}
        try:
            with oracles.scripted(script):
                v = bond_percolate(g, float(Fraction(*call["phi"])))
            out["value"] = q_tree(v)
            out["calls"] = script.pos
        except Exception as e:  # noqa: BLE001
            out["exc"] = type(e).__name__
        out["unchanged"] = (not damaged) and _snapshot(g) == before and \
            [[inv.get(u, 4000), inv.get(v, 4000)] for u, v in g.edges()] == order
        outs.append(out)
    return outs


def _args(case, call, o):
    return [o["nodes"], o["order"], call["phi"], call["rs"]]


def model_calls(case, impl_obs):
    if is_exc(impl_obs):
        return []
    return [("c18_run", _args(case, c, o)) for c, o in zip(case["calls"], impl_obs)]


def model_obs(case, raws):
    out = []
    for r in raws:
        out.append({"exc": "IndexError"} if (r and r[0] == -1) else {"k": r[0], "N": r[1]})
    return out


def compare(case, impl_obs, model):
    if is_exc(impl_obs):
        return f"harness-level exception {impl_obs[1]}"
    for ci, (call, o, m) in enumerate(zip(case["calls"], impl_obs, model)):
        if "exc" in m:
            if o.get("exc") != m["exc"]:
                return f"call {ci}: impl {o} model raises {m['exc']}"
            continue
        if "exc" in o:
            return f"call {ci}: implementation raised {o['exc']}"
        if not close(Fraction(*o["value"]), Fraction(m["k"], m["N"]), Fraction(1, 2 ** 50)):
            return f"call {ci}: value {Fraction(*o['value'])} vs model {m['k']}/{m['N']}"
        if o["calls"] != len(o["order"]):
            return f"call {ci}: random.random called {o['calls']} times for {len(o['order'])} edges"
        if not o["unchanged"]:
            return f"call {ci}: input graph modified"
    return None


def check_calls(case, impl_obs):
    if is_exc(impl_obs):
        return []
    return [("c18_check", _args(case, c, o) + [o["value"]]) for c, o in zip(case["calls"], impl_obs) if "value" in o]


def check_verdict(case, impl_obs, raws):
    if is_exc(impl_obs):
        return f"harness-level exception {impl_obs[1]}"
    if not case["nodes"]:
        return None
    j = 0
    for ci, o in enumerate(impl_obs):
        if "exc" in o:
            return f"call {ci}: bond_percolate raised {o['exc']} on a non-empty graph"
        if not o["unchanged"]:
            return f"call {ci}: bond_percolate modified its input graph (edges, order or attribute data)"
        okv, okr = raws[j]
        j += 1
        if not okr:
            return f"call {ci}: largest component outside [1, N]"
        if not okv:
            return (f"call {ci}: returned value is not (largest component of the retained subgraph)/N "
                    "for the current edge set and these draws")
    return None


def nontrivial_key(case, impl_obs):
    nt = False
    for call in case["calls"]:
        phi = Fraction(*call["phi"])
        kept = [Fraction(*r) <= phi for r in call["rs"]]
        nt = nt or (any(kept) and not all(kept))
    return [case["nodes"], case["edges"], case["calls"]] if nt else None


def shrink(case):
    if len(case["calls"]) > 1:
        c = dict(case)
        c["calls"] = case["calls"][:-1]
        yield c
    if len(case["calls"]) == 1:
        call = case["calls"][0]
        for i in range(len(case["edges"])):
            c = dict(case)
            c["edges"] = case["edges"][:i] + case["edges"][i + 1:]
            c["calls"] = [dict(call, rs=call["rs"][:i] + call["rs"][i + 1:])]
            yield c
        used = {v for e in case["edges"] for v in e}
        for v in case["nodes"]:
            if v not in used and len(case["nodes"]) > 1:
                c = dict(case)
                c["nodes"] = [x for x in case["nodes"] if x != v]
                yield c


def describe(case, impl_obs):
    return {"nodes": case["nodes"], "edges": case["edges"], "calls": case["calls"],
            "values": [o.get("value") if isinstance(o, dict) else o for o in impl_obs]
            if isinstance(impl_obs, list) else impl_obs}


def histogram(cases):
    h = {"cases": len(cases), "calls": 0, "multi_call_histories": 0, "phi0": 0, "phi1": 0, "edgeless": 0,
         "draw_equals_phi": 0, "draws_total": 0}
    for c in cases:
        h["multi_call_histories"] += len(c["calls"]) > 1
        h["edgeless"] += not c["edges"]
        for call in c["calls"]:
            h["calls"] += 1
            h["phi0"] += call["phi"][0] == 0
            h["phi1"] += call["phi"] == [1, 1]
            h["draw_equals_phi"] += any(r == call["phi"] for r in call["rs"])
            h["draws_total"] += len(call["rs"])
    return h
