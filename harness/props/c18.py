"""C18 — bond_percolate vs Model/Perc.v with scripted random.random()."""
from fractions import Fraction

from harness import oracles
from harness.core import close, is_exc, q_tree

ID = "C18"
RULE = ("random graphs with 1..10 vertices (edgeless, isolated vertices, paths, cycles, stars with up to 8 leaves, "
        "G(n,p)), phi in {0, 1, dyadics}, one scripted dyadic draw in [0,1) per edge in G.edges() order, including draws "
        "exactly equal to phi and (for phi=0) the draw 0.0; for graphs with <= 4 edges additionally ALL below/at/above "
        "patterns; non-trivial = at least one edge kept and one removed; distinct by (graph, phi, draws)")
EXHAUSTIVE = {"quick": False, "thorough": False}
EXPLANATION = ("general theorems in Props/C18.v (components = path-connectivity, value = k/N with 1<=k<=N, phi=1, phi=0, "
               "star count, per-edge retention depends on its own draw only); correspondence with scripted draws; "
               "c18_check judges the returned float against largest-component/N of the kept subgraph")
ASSUMPTIONS = ["random.random() draws are independent and uniform on [0,1) (CPython Mersenne twister) — needed only to "
               "read 'kept iff own draw <= phi' as 'kept independently with probability phi'",
               "networkx copy(), edges() order, remove_edges_from, connected_components behave as modelled"]
TRUSTED = []
TECHNIQUE = "Coq proof (general theorems, all graphs / phi / draw sequences) + scripted-RNG correspondence + verified checker"
LEVEL_TEXT = (
    "General theorems (coq/Props/C18.v) over every graph, every phi and every sequence of draws: the component function "
    "computes path-connectivity classes; the result is k/N with 1<=k<=N; at phi=1 it is the exact largest-component "
    "fraction of the input, at phi=0 exactly 1/N (for draws > 0), on a star N*S-1 equals the number of draws <= phi "
    "(hence Binomial(M,phi) under independent uniform draws), and each edge is kept iff its own draw <= phi. Tied to "
    "gcmpy/tools/bond_percolate.py by running the real function under a scripted random.random and comparing the float "
    "with the model's exact k/N; the input graph is compared before/after.")
LEVEL_NOTE = ("Trusted: Coq kernel; extraction + driver + harness; independence/uniformity of random.random(); networkx "
              "primitives (results compared each case). The measure-zero event random()==0.0 at phi=0 is a stated side "
              "condition. No axioms.")


def corpus():
    return [
        {"nodes": [0, 1, 2, 3], "edges": [[0, 1], [0, 2], [0, 3]], "phi": [1, 2], "rs": [[1, 4], [3, 4], [1, 2]]},
        {"nodes": [0], "edges": [], "phi": [0, 1], "rs": []},
        {"nodes": [0, 1, 2], "edges": [[0, 1], [1, 2]], "phi": [0, 1], "rs": [[1, 8], [1, 1024]]},
        {"nodes": [0, 1, 2], "edges": [[0, 1], [1, 2]], "phi": [1, 1], "rs": [[1023, 1024], [0, 1]]},
        {"nodes": [0, 1, 2], "edges": [[0, 1], [1, 2]], "phi": [0, 1], "rs": [[0, 1], [1, 2]]},
    ]


def _graph(rng):
    kind = rng.choice(["gnp", "gnp", "star", "path", "cycle", "empty", "two"])
    n = rng.randint(1, 10)
    nodes = list(range(n))
    rng.shuffle(nodes)
    edges = []
    if kind == "gnp":
        p = rng.choice([0.15, 0.3, 0.5, 0.8])
        for i in range(n):
            for j in range(i + 1, n):
                if rng.random() < p:
                    edges.append([i, j] if rng.random() < 0.5 else [j, i])
        rng.shuffle(edges)
    elif kind == "star":
        n = rng.randint(2, 9)
        nodes = list(range(n))
        edges = [[0, i] for i in range(1, n)]
    elif kind == "path":
        edges = [[i, i + 1] for i in range(n - 1)]
    elif kind == "cycle" and n >= 3:
        edges = [[i, (i + 1) % n] for i in range(n)]
    elif kind == "two" and n >= 4:
        h = n // 2
        edges = [[i, j] for i in range(h) for j in range(i + 1, h)] + [[i, i + 1] for i in range(h, n - 1)]
    return nodes, edges


def _draw(rng, phi):
    r = rng.random()
    if r < 0.15:
        return phi if phi < 1 else Fraction(1023, 1024)
    return Fraction(rng.randint(0 if r < 0.2 else 1, 1023), 1024)


def generate(rng, tier):
    n = 700 if tier == "quick" else 8000
    for i in range(n):
        nodes, edges = _graph(rng)
        phi = rng.choice([Fraction(0), Fraction(1), Fraction(1, 2), Fraction(1, 4), Fraction(3, 4),
                          Fraction(rng.randint(0, 64), 64)])
        rs = [_draw(rng, phi) for _ in edges]
        yield {"nodes": nodes, "edges": edges, "phi": q_tree(phi), "rs": [q_tree(r) for r in rs]}
    # all below / at / above patterns on small graphs
    small = [([0, 1, 2], [[0, 1], [1, 2], [0, 2]]), ([0, 1, 2, 3], [[0, 1], [0, 2], [0, 3]]),
             ([0, 1, 2, 3], [[0, 1], [2, 3]]), ([3, 1, 2, 0], [[0, 1], [1, 2], [2, 3], [3, 0]])]
    phi = Fraction(1, 2)
    import itertools
    for nodes, edges in small:
        for pat in itertools.product([Fraction(1, 4), Fraction(1, 2), Fraction(3, 4)], repeat=len(edges)):
            yield {"nodes": nodes, "edges": edges, "phi": q_tree(phi), "rs": [q_tree(r) for r in pat]}


def _snapshot(g):
    return (list(g.nodes(data=True)), sorted((min(u, v), max(u, v), tuple(sorted(d.items()))) for u, v, d in g.edges(data=True)))


def impl(case):
    import networkx as nx
    from gcmpy.tools.bond_percolate import bond_percolate
    g = nx.Graph()
    g.add_nodes_from(case["nodes"])
    g.add_edges_from([tuple(e) for e in case["edges"]])
    order = [[u, v] for u, v in g.edges()]
    before = _snapshot(g)
    phi = Fraction(*case["phi"])
    rs = [Fraction(*r) for r in case["rs"]]
    script = oracles.Script([("random", float(r)) for r in rs])
    out = {"order": order}
    try:
        with oracles.scripted(script):
            v = bond_percolate(g, float(phi))
        out["value"] = q_tree(v)
        out["calls"] = script.pos
    except Exception as e:  # noqa: BLE001
        out["exc"] = type(e).__name__
    out["unchanged"] = _snapshot(g) == before
    return out


def _args(case, impl_obs):
    return [case["nodes"], impl_obs["order"], case["phi"], case["rs"]]


def model_calls(case, impl_obs):
    if is_exc(impl_obs):
        return []
    return [("c18_run", _args(case, impl_obs))]


def model_obs(case, raws):
    r = raws[0]
    if r and r[0] == -1:
        return {"exc": "IndexError"}
    return {"k": r[0], "N": r[1]}


def compare(case, impl_obs, model):
    if is_exc(impl_obs):
        return f"harness-level exception {impl_obs[1]}"
    if "exc" in model:
        return None if impl_obs.get("exc") == model["exc"] else f"impl {impl_obs} model raises {model['exc']}"
    if "exc" in impl_obs:
        return f"implementation raised {impl_obs['exc']}"
    if not close(Fraction(*impl_obs["value"]), Fraction(model["k"], model["N"]), Fraction(1, 2 ** 50)):
        return f"value {Fraction(*impl_obs['value'])} vs model {model['k']}/{model['N']}"
    if impl_obs["calls"] != len(case["rs"]):
        return f"random.random called {impl_obs['calls']} times for {len(case['rs'])} edges"
    if not impl_obs["unchanged"]:
        return "input graph modified"
    return None


def check_calls(case, impl_obs):
    if is_exc(impl_obs) or "value" not in impl_obs:
        return []
    return [("c18_check", _args(case, impl_obs) + [impl_obs["value"]])]


def check_verdict(case, impl_obs, raws):
    if is_exc(impl_obs):
        return f"harness-level exception {impl_obs[1]}"
    if not case["nodes"]:
        return None
    if "exc" in impl_obs:
        return f"bond_percolate raised {impl_obs['exc']} on a non-empty graph"
    if not impl_obs["unchanged"]:
        return "bond_percolate modified its input graph"
    okv, okr = raws[0]
    if not okr:
        return "largest component outside [1, N]"
    if not okv:
        return "returned value is not (largest component of the retained subgraph)/N for these draws"
    return None


def nontrivial_key(case, impl_obs):
    phi = Fraction(*case["phi"])
    kept = [Fraction(*r) <= phi for r in case["rs"]]
    return [case["nodes"], case["edges"], case["phi"], case["rs"]] if (any(kept) and not all(kept)) else None


def shrink(case):
    for i in range(len(case["edges"])):
        c = dict(case)
        c["edges"] = case["edges"][:i] + case["edges"][i + 1:]
        c["rs"] = case["rs"][:i] + case["rs"][i + 1:]
        yield c
    used = {v for e in case["edges"] for v in e}
    for v in case["nodes"]:
        if v not in used and len(case["nodes"]) > 1:
            c = dict(case)
            c["nodes"] = [x for x in case["nodes"] if x != v]
            yield c


def describe(case, impl_obs):
    return {"nodes": case["nodes"], "edges": case["edges"], "phi": case["phi"], "draws": case["rs"],
            "value": impl_obs.get("value") if isinstance(impl_obs, dict) else impl_obs}


def histogram(cases):
    h = {"cases": len(cases), "phi0": 0, "phi1": 0, "edgeless": 0, "draw_equals_phi": 0, "edges_total": 0}
    for c in cases:
        h["phi0"] += c["phi"][0] == 0
        h["phi1"] += c["phi"] == [1, 1]
        h["edgeless"] += not c["edges"]
        h["draw_equals_phi"] += any(r == c["phi"] for r in c["rs"])
        h["edges_total"] += len(c["edges"])
    return h
