"""C05 — JointDegree.sample_jds_from_jdd / handshaking_lemma vs Model/Sample.v and the verified checker c05_check.

Two kinds of case:
  kind 'sample'  : a manual jdd (distinct tuple keys, dyadic positive weights), motif sizes, N, the scripted answer of the one
                   random.choices call (N indices) and the scripted answers of the random.randrange calls;
  kind 'choices' : CPython's random.choices selection rule itself (bisect of the cumulative weights at random()*total),
                   checked against the model's [choices_rule] by scripting random.random of the module's hidden instance.
"""
import itertools
from fractions import Fraction

from harness import core, oracles

ID = "C05"
RULE = ("kind 'sample': exhaustive for one topology (all 1-2 key subsets of {0,1,2}, sizes 1..3, N 1..3, ALL choices answers, "
        "ALL randrange answer sequences of the maximal needed length) then seeded random (1-4 topologies, sizes 1..6, N 1..12, "
        "2-6 keys with entries 0..5, dyadic unnormalised weights, random oracle answers; in about a third of the cases a SECOND "
        "sample call on the same loader object with other answers); a 'huge' class: key entries of 2**31 .. 2**73 (around "
        "2**53, 1e16..1e20, 2**63, 2**64, +-40) so that column totals exceed float and int64 exactness, and a 'wide' class: "
        "motif sizes 7..65 (up to 64 stubs for one topology); CONSTRUCTION PATHS (drawn per random case, rotating over two "
        "thirds of the exhaustive family): constructor params of JointDegreeManual, the public motif_sizes / jdd property "
        "setters on a loader built with another configuration (fresh, or already sampled once), "
        "JointDegreeDistribution.load_joint_degree, and the empirical loader (constructor, empirical_jds setter + "
        "create_jdd, factory) whose weights are the floats count/n of an observed sequence, with N equal to the number of "
        "observed vertices in half of those cases, and the COVER loader (constructor, factory, cover setter + create_jdd + "
        "motif_sizes setter on a loader built from another cover; 200 random covers in quick with 1-3 clique sizes, mostly "
        "with GAPS between the sizes ({2,4}, {3,5}, {2,3,5}, {2,9} ...), ids from 0 or 1; keys / weights / sizes of the case "
        "are the C08 specification applied to the cover: occurring sizes ascending, one column per size, first-occurrence key "
        "order, weights count/n); KEPT SEQUENCES: in 40% of the random cases, a quarter of the exhaustive family and the "
        "cover corpus entries the caller keeps every sampled sequence, samples again (second call on the same loader where "
        "the case has one, then N+3 draws from a second loader of another width) and reads the kept sequences again; each is "
        "judged a second time by c05_check with the call / randrange log of the call that produced it; motif size vectors are unsorted and non-contiguous; malformed: too few motif sizes "
        "(IndexError), a zero size (ZeroDivisionError), N = 0, ragged keys. kind 'choices': weights/r dyadic, r on and off the "
        "interval boundaries. Compared: the logged choices call (population, weights, k), every randrange call (range and "
        "answer position), the returned sequence incl. Python type tags (kept ones: unchanged when read again), acceptance by JointDegreeEmpirical, exception class. "
        "Non-trivial = a valid sample case in which at least one stub was added; distinct by full case")
EXHAUSTIVE = {"quick": True, "thorough": True}
EXPLANATION = ("general theorems (all sizes incl. 1, all N, all oracle answers) in Props/C05.v; correspondence exhaustive over "
               "the small one-topology family incl. every randrange answer sequence (exact oracle tree) and random beyond; the "
               "verified checker c05_check judges every implementation output")
ASSUMPTIONS = ["random.choices(population, weights, k=N) draws keys in proportion to the weights by the cumulative-weight "
               "bisect rule (modelled in Sample.choices_rule, interval lemma proved, rule compared with CPython on every run)",
               "random.random() is uniform on [0,1) and draws are independent; random.randrange(0,N) is uniform on 0..N-1"]
TRUSTED = ["CPython random.choices / randrange (selection rule modelled and compared, uniformity trusted)",
           "cover construction path: keys / weights / sizes are derived from the cover by harness code (cover_spec, the C08 "
           "specification); the loader is tied to it on every case by the logged choices call and the jdd / motif_sizes it exposes",
           "a random.shuffle during sampling is answered by a reversal and logged (the run is then judged by c05_check on "
           "the output and the missing choices call, instead of ending as an oracle-protocol error)",
           "hashability / tuple-ness of the returned entries is observed by the harness (type tags, JointDegreeEmpirical "
           "accepts the result), not expressible in Gallina"]
TECHNIQUE = ("Coq proof (induction over the patch loop; arithmetic of the minimal patch) + verified checker + "
             "model/implementation correspondence with scripted random.choices / random.randrange")
LEVEL_TEXT = (
    "General theorems in coq/Props/C05.v for all key lists, all positive motif sizes incl. 1, all N, all oracle answers: "
    "the result has length N; no entry ever decreases; per topology the number of added stubs is (s - S mod s) mod s < s and "
    "is the least a >= 0 with s | S + a; every column total of the result is divisible by its size; the result differs from "
    "the drawn sequence exactly at the logged randrange positions; the oracle is asked choices(keys, values, N); CPython's "
    "selection rule picks key i exactly on an interval of length w_i/total. The checker c05_check is proved equivalent to the "
    "Prop-level specification and the model is proved to satisfy it; it runs on every implementation output.")
LEVEL_NOTE = ("Trusted: Coq kernel; extraction + driver + harness; CPython's random.choices/randrange uniformity; type tags "
              "observed in Python. No axioms.")

ERR = {1: "IndexError", 2: "ZeroDivisionError", 3: "ValueError"}
CLAUSES = ["valid-shape", "choices-call", "rows(length N, non-negative, never below the draw)",
           "columns(added = (s - S mod s) mod s, divisible)", "randrange-log(range (0,N), per-row gain = number of answers)"]


def fr(x):
    return Fraction(x[0], x[1])


def is_valid(case):
    if case["kind"] != "sample":
        return False
    T = len(case["sizes"])
    return (case["N"] >= 1 and len(case["keys"]) >= 1 and all(s > 0 for s in case["sizes"])
            and all(len(k) == T and all(x >= 0 for x in k) for k in case["keys"])
            and len({tuple(k) for k in case["keys"]}) == len(case["keys"])
            and all(fr(w) > 0 for w in case["weights"]))


def mk(keys, weights, sizes, N, draws, rs):
    return {"kind": "sample", "keys": keys, "weights": [core.q_tree(Fraction(w)) for w in weights], "sizes": sizes,
            "N": N, "draws": draws, "rs": rs}


def _corpus_cover(cover, N, draws, rs, path):
    sizes, keys, wts = cover_spec(cover)
    c = mk(keys, [Fraction(w) for w in wts], sizes, N, [d % len(keys) for d in draws], rs)
    c.update(path=path, cover=cover, keep=True)
    if path == "cover-setter":
        c["cover0"] = [[0, 1, 2], [2, 3]]
    return c


def corpus():
    out = [
        # DESIGN section 3 replay: jdd {(1,0):.5,(2,1):.5}, sizes [2,3], N=5; seed-1 outcome patched entry 3
        mk([[1, 0], [2, 1]], [Fraction(1, 2), Fraction(1, 2)], [2, 3], 5, [0, 1, 1, 1, 0], [3, 0, 0]),
        mk([[1, 0], [2, 1]], [Fraction(1, 2), Fraction(1, 2)], [2, 3], 5, [0, 1, 1, 0, 0], [3, 3, 0, 1]),
        mk([[1]], [Fraction(3)], [1], 3, [0, 0, 0], []),
        mk([[1], [0]], [Fraction(1, 4), Fraction(3, 4)], [3], 1, [0], [0, 0]),
        mk([[1, 2, 0], [0, 0, 1]], [Fraction(1), Fraction(2)], [2, 3, 4], 4, [0, 1, 1, 0], [0, 3, 3, 1, 2, 2, 2]),
        # column totals beyond float exactness (2**53) / int64: the deficit must still be computed in exact integers
        mk([[2**53 + 1]], [Fraction(1)], [2], 1, [0], [0]),
        mk([[3 * 10**16 + 2, 1], [2**64 + 1, 0]], [Fraction(1), Fraction(2)], [3, 5], 3, [0, 1, 1], [2, 0, 1, 1, 0, 2, 2]),
        mk([[10**20 + 7]], [Fraction(1, 2)], [17], 2, [0, 0], [1, 0] * 8),
        mk([[1, 1]], [Fraction(1)], [2], 3, [0, 0, 0], [1]),          # too few sizes -> IndexError
        mk([[1, 1]], [Fraction(1)], [2, 0], 3, [0, 0, 0], [1]),       # zero size -> ZeroDivisionError
        # kept sequences read again after a second call on the same loader and a call on a second loader (C05-r7-3)
        dict(mk([[1, 0], [2, 1]], [Fraction(1, 2), Fraction(1, 2)], [2, 3], 5, [0, 1, 1, 1, 0], [3, 0, 0]),
             draws2=[1, 1, 0, 0, 1], rs2=[4, 2, 2, 0, 1], keep=True),
        dict(mk([[1], [0]], [Fraction(1, 4), Fraction(3, 4)], [3], 2, [0, 1], [0, 0]), keep=True, path="factory-manual"),
        # the sampler behind the cover loader, clique sizes with a gap: {2,4}, {3,5}, {2,3,5} (C05-r7-2)
        _corpus_cover([[0, 1], [1, 2], [0, 1, 2, 3], [3, 4]], 5, [0, 1, 2, 1, 0], [1, 4, 0, 2, 3, 3], "cover"),
        _corpus_cover([[1, 2, 3], [3, 4, 5, 1, 2], [2, 4, 5]], 3, [1, 0, 1], [2, 0, 1, 1, 0, 2, 2, 1], "factory-cover"),
        _corpus_cover([[0, 1], [1, 2, 3], [0, 2, 3, 4, 5], [4, 5]], 4, [0, 2, 1, 1], [3, 1, 0, 2, 2, 1, 0, 3, 3, 0], "cover-setter"),
        {"kind": "choices", "weights": [[1, 4], [1, 2], [1, 4]], "r": [3, 4]},
        {"kind": "choices", "weights": [[1, 4], [1, 2], [1, 4]], "r": [1, 4]},
        {"kind": "choices", "weights": [[0, 1], [0, 1]], "r": [1, 4]},
        {"kind": "choices", "weights": [], "r": [1, 4]},
    ]
    return out


def _exhaustive(tier):
    keysets = [[[a]] for a in range(3)] + [[[a], [b]] for a in range(3) for b in range(3) if a != b]
    maxN = 3
    for keys in keysets:
        for s in (1, 2, 3):
            for N in range(1, maxN + 1):
                for draws in itertools.product(range(len(keys)), repeat=N):
                    for rs in itertools.product(range(N), repeat=s - 1):
                        yield mk(keys, [Fraction(1, 2)] + [Fraction(3, 4)] * (len(keys) - 1), [s], N, list(draws), list(rs))


def _dyadic(rng, lo=1, hi=16, den=None):
    den = den or rng.choice([1, 2, 4, 8])
    return Fraction(rng.randint(lo, hi), den)


# integers at which a float round trip (2**53), a fixed-width integer (2**31, 2**63, 2**64) or a decimal shortcut stops
# being exact; keys are arbitrary non-negative integers, so totals of this magnitude are legal
BIG_BASES = [2**31, 2**32, 2**53, 2**53 + 2**20, 10**16, 3 * 10**16, 10**17, 2**62, 2**63, 2**64, 10**19, 10**20, 2**70]
LARGE_SIZES = [7, 8, 9, 11, 16, 17, 31, 33, 64, 65]


def _bigint(rng):
    return max(0, rng.choice(BIG_BASES) * rng.choice([1, 1, 1, 2, 3, 5, 7]) + rng.randint(-40, 40))


def _random_sample(rng, big=False, huge=False, wide=False):
    """huge: some key entries are integers of 2**31 .. 2**73 (column totals beyond float / int64 exactness);
    wide: some motif sizes of 7..65 (many stubs to add for one topology)"""
    T = rng.randint(1, 4)
    sizes = [rng.choice([1, 2, 2, 3, 3, 4, 5, 6]) for _ in range(T)]
    if wide:
        for i in range(T):
            if i == 0 or rng.random() < 0.3:
                sizes[i] = rng.choice(LARGE_SIZES)
    nk = rng.randint(1, 6)
    keys = []
    hcols = [i for i in range(T) if rng.random() < 0.6] or [rng.randrange(T)]
    while len(keys) < nk:
        k = [rng.randint(0, 5) for _ in range(T)]
        if huge and (not keys or rng.random() < 0.5):
            for i in hcols:
                if rng.random() < 0.8:
                    k[i] = _bigint(rng)
        if k not in keys:
            keys.append(k)
    weights = [_dyadic(rng) for _ in keys]
    N = rng.randint(1, 40 if big else 12)
    if huge or wide:
        N = rng.randint(1, 6)
    draws = [rng.randrange(len(keys)) for _ in range(N)]
    rs = [rng.randrange(N) for _ in range(sum(sizes))]
    if rng.random() < 0.25:      # concentrate patches on one row: second patch of an already patched row
        j = rng.randrange(N)
        rs = [j if rng.random() < 0.7 else r for r in rs]
    c = mk(keys, weights, sizes, N, draws, rs)
    if rng.random() < 0.35:
        c["draws2"] = [rng.randrange(len(keys)) for _ in range(N)]
        c["rs2"] = [rng.randrange(N) for _ in range(sum(sizes))]
    return c


# every public way of configuring a loader is a construction path of its own (lessons 9, 27): constructor params, the
# motif_sizes / jdd property setters (on a fresh object and on one that was already sampled with another
# configuration), the factory entry point, and the empirical loader (constructor, empirical_jds setter + create_jdd,
# factory), whose distribution is derived from an observed sequence
PATHS = ["params", "setters", "setters-used", "factory-manual", "empirical", "empirical-setter", "factory-empirical"]


def _redraw(rng, c, N):
    nk = len(c["keys"])
    c["N"] = N
    c["draws"] = [rng.randrange(nk) for _ in range(N)]
    c["rs"] = [rng.randrange(N) for _ in range(sum(c["sizes"]))]
    if "draws2" in c:
        c["draws2"] = [rng.randrange(nk) for _ in range(N)]
        c["rs2"] = [rng.randrange(N) for _ in range(sum(c["sizes"]))]


def _with_path(rng, c, path=None):
    p = path or rng.choice(PATHS)
    if p == "params":
        return c
    c["path"] = p
    if "empirical" in p:
        nk = len(c["keys"])
        counts = [rng.randint(1, 4) for _ in range(nk)]
        obs = [i for i, n in enumerate(counts) for _ in range(n)]
        rng.shuffle(obs)
        order = list(dict.fromkeys(obs))           # the loader's dict is keyed in first-occurrence order
        ren = {old: new for new, old in enumerate(order)}
        c["keys"] = [c["keys"][i] for i in order]
        c["observed"] = [ren[i] for i in obs]
        n = len(obs)
        c["weights"] = [core.q_tree(Fraction(obs.count(i) / n)) for i in order]    # the float count / n the loader stores
        if rng.random() < 0.5 and n <= 40:
            _redraw(rng, c, n)                     # as many vertices as were observed (the repository's own use)
    return c


# EVERY loader class that feeds the sampler (lesson 45): the cover loader derives BOTH the distribution and the motif sizes
# from a clique cover.  The case carries the cover; keys / weights / sizes are what the loader's specification (C08) says
# about it: sizes = the occurring clique sizes ascending, row v / column j = number of cover cliques of size sizes[j]
# through v, keys in order of first occurrence over the vertices in id order, weights count / n.  compare() ties the
# loader to that derivation on every case (logged choices call, jdd_as_configured, sizes_kept).
COVER_PATHS = ["cover", "factory-cover", "cover-setter"]
COVER_MENUS = [[2, 4], [3, 5], [2, 3, 5], [2, 5], [1, 3], [2, 4, 6], [3, 6], [1, 4], [2, 4, 5], [2, 9], [3, 8, 10],   # gaps
               [2, 3], [2, 3, 4], [3], [2], [1, 2]]


def cover_spec(cover):
    """(sizes, keys, float weights) of the distribution the cover loader's specification derives from `cover`"""
    sizes = sorted({len(c) for c in cover})
    ids = sorted({v for c in cover for v in c})
    rows = {v: [0] * len(sizes) for v in ids}
    for c in cover:
        for v in c:
            rows[v][sizes.index(len(c))] += 1
    keys, counts = [], []
    for v in ids:
        if rows[v] in keys:
            counts[keys.index(rows[v])] += 1
        else:
            keys.append(rows[v])
            counts.append(1)
    return sizes, keys, [n / len(ids) for n in counts]


def _cover_for(rng):
    from harness.props import c08
    while True:
        menu = rng.choice(COVER_MENUS[:11] if rng.random() < 0.7 else COVER_MENUS)
        n = rng.randint(max(menu), max(menu) + 6)
        cover = [rng.sample(range(n), rng.choice(menu)) for _ in range(rng.randint(1, 6))]
        cover += [rng.sample(range(n), s) for s in menu if rng.random() < 0.8]       # most sizes of the menu do occur
        rng.shuffle(cover)
        cover = c08._compress(cover, rng.randint(0, 1))
        if c08.is_valid(cover):
            return cover


def _cover_case(rng, path=None):
    cover = _cover_for(rng)
    sizes, keys, wts = cover_spec(cover)
    N = rng.randint(1, 12)
    draws = [rng.randrange(len(keys)) for _ in range(N)]
    rs = [rng.randrange(N) for _ in range(sum(sizes))]
    c = mk(keys, [Fraction(w) for w in wts], sizes, N, draws, rs)
    c["path"] = path or rng.choice(COVER_PATHS)
    c["cover"] = cover
    if c["path"] == "cover-setter":
        c["cover0"] = _cover_for(rng)
    if rng.random() < 0.35:
        c["draws2"] = [rng.randrange(len(keys)) for _ in range(N)]
        c["rs2"] = [rng.randrange(N) for _ in range(sum(sizes))]
    if rng.random() < 0.4:
        c["keep"] = True
    return c


def _random_choices(rng):
    n = rng.randint(1, 7)
    mode = rng.randint(0, 2)
    if mode == 0:     # integer weights with power-of-two total: the interval boundaries are dyadic
        total = rng.choice([4, 8, 16])
        cuts = sorted(rng.randint(0, total) for _ in range(n - 1))
        ws = [Fraction(b - a) for a, b in zip([0] + cuts, cuts + [total])]
        r = Fraction(rng.randint(0, 63), 64)
        if rng.random() < 0.6:
            c = rng.choice(list(itertools.accumulate(ws)))
            if c < total:
                r = c / total
    elif mode == 1:
        ws = [_dyadic(rng, 0, 9) for _ in range(n)]
        r = Fraction(rng.randint(0, 255), 256)
    else:
        ws = [Fraction(rng.choice([0, 0, 1, 2, 3]), rng.choice([1, 2])) for _ in range(n)]
        r = Fraction(rng.randint(0, 15), 16)
    return {"kind": "choices", "weights": [core.q_tree(w) for w in ws], "r": core.q_tree(r)}


def generate(rng, tier):
    for k, c in enumerate(_exhaustive(tier)):
        if k % 3:
            c["path"] = ["setters", "factory-manual", "setters-used"][(k // 3) % 3]
        if k % 4 == 1:
            c["keep"] = True
        yield c
    n = 800 if tier == "quick" else 8000
    for _ in range(n):
        yield _keeping(rng, _with_path(rng, _random_sample(rng, big=(tier != "quick"))))
    # the sampler behind the COVER loader (sizes and distribution both derived from a clique cover; clique sizes with gaps)
    for i in range(n // 4):
        yield _cover_case(rng, COVER_PATHS[i % 3] if i < 30 else None)
    for i in range(n // 4):
        yield _keeping(rng, _with_path(rng, _random_sample(rng, huge=True, wide=(i % 4 == 0))))
    for _ in range(n // 8):
        yield _keeping(rng, _with_path(rng, _random_sample(rng, wide=True)))
    # malformed
    for _ in range(150 if tier == "quick" else 1000):
        c = _with_path(rng, _random_sample(rng), rng.choice(PATHS[:4]))
        k = rng.randint(0, 3)
        if k == 0 and len(c["sizes"]) > 0:
            c["sizes"] = c["sizes"][:rng.randint(0, len(c["sizes"]) - 1)]
        elif k == 1:
            c["sizes"][rng.randrange(len(c["sizes"]))] = 0
        elif k == 2:
            c["N"] = 0
            c["draws"] = []
            c.pop("draws2", None)
            c.pop("rs2", None)
        else:
            if len(c["sizes"]) > 1:
                kk = c["keys"][rng.randrange(len(c["keys"]))]
                kk.pop()
                if any(kk == o for o in c["keys"] if o is not kk):
                    kk.append(7)
        yield c
    for _ in range(400 if tier == "quick" else 4000):
        yield _random_choices(rng)


def _keeping(rng, c):
    """a share of the cases KEEP every sampled sequence and read it again after the later calls (a second sample on the
    same loader where the case has one, then a sample on a second loader of another width)"""
    if rng.random() < 0.4:
        c["keep"] = True
    return c


class _Cap:
    def __init__(self):
        self.n = 0

    def __call__(self, kind, args):
        self.n += 1
        if kind != "randrange" or self.n > 500:
            raise oracles.OracleProtocol(f"unscripted {kind}")
        return 0


class _Script(oracles.Script):
    """as oracles.Script, but a choices call asking for another k than scripted is answered anyway (padding with index 0 /
    truncating), so that a wrong k reaches the checker as a concrete observation instead of a protocol error.  The answers
    of choices and of randrange are two queues (a run that never calls choices still gets its randrange answers), and a
    random.shuffle is answered by a reversal and logged: a sampler that does NOT draw with random.choices (e.g. hands back a
    shuffled copy of an observed sequence) reaches the verified checker with the output it produced"""

    def __init__(self, answers=None, default=None):
        super().__init__(answers, default)
        self.q_choices = [a for k, a in self.answers if k == "choices"]
        self.q_rr = [a for k, a in self.answers if k == "randrange"]

    def take(self, kind, args):
        q = self.q_choices if kind == "choices" else self.q_rr if kind == "randrange" else None
        if q:
            self.pos += 1
            return q.pop(0)
        if kind == "choices":
            return []
        if q is not None and self.default is not None:
            return self.default(kind, args)
        raise oracles.OracleProtocol(f"unscripted {kind}")

    def shuffle(self, x):
        self.log.append(("shuffle", list(x), list(range(len(x) - 1, -1, -1))))
        x.reverse()

    def choices(self, population, weights=None, *, cum_weights=None, k=1):
        idxs = list(self.take("choices", (population, weights, k)))
        idxs = (idxs + [0] * k)[:k]
        self.log.append(("choices", list(population), None if weights is None else list(weights), k, idxs))
        return [population[i % len(population)] for i in idxs]


def _read_out(out):
    """what a returned sequence holds NOW (also used to re-observe a sequence kept from an earlier call)"""
    try:
        rows = [[int(x) for x in e] for e in out]
        tags = [1 if (type(e) is tuple and all(type(x) is int for x in e)) else 0 for e in out]
    except Exception:  # noqa: BLE001
        rows, tags = [[-1]], [0]
    return {"out_type": type(out).__name__, "out": rows, "tags": tags}


def _decoy_sample(T, N):
    """a sample drawn from a SECOND loader (other width, other sizes, other N) with the real random module (state
    restored): what a caller preparing two networks does before using the first sequence"""
    import random
    from gcmpy.joint_degree.joint_degree_loaders.joint_degree_manual import JointDegreeManual
    from gcmpy.names.joint_degree_names import JointDegreeNames as NM
    state = random.getstate()
    try:
        other = JointDegreeManual({NM.JDD: {(1,) * (T + 1): 0.5, (3,) * (T + 1): 0.25, (0,) * (T + 1): 0.25},
                                   NM.MOTIF_SIZES: list(range(2, T + 3))})
        return other, other.sample_jds_from_jdd(N + 3)
    finally:
        random.setstate(state)


def _one_call(loader, case, draws, rs, kept=None):
    from gcmpy.joint_degree.joint_degree_loaders.joint_degree_empirical import JointDegreeEmpirical
    from gcmpy.names.joint_degree_names import JointDegreeNames
    script = _Script([("choices", list(draws))] + [("randrange", r) for r in rs], default=_Cap())
    with oracles.scripted(script):
        out = loader.sample_jds_from_jdd(case["N"])
    calls = [e for e in script.log if e[0] == "choices"]
    rlog = [[e[1], e[2], e[3]] for e in script.log if e[0] == "randrange"]
    obs = {"n_choices_calls": len(calls), "other_random_calls": sorted({e[0] for e in script.log} - {"choices", "randrange"})}
    if calls:
        _, pop, wts, k, idxs = calls[0]
        obs["call"] = [[list(p) for p in pop], [core.q_tree(w) for w in (wts or [])], k, list(idxs)]
    else:
        obs["call"] = [[], [], 0, []]
    obs["rlog"] = rlog
    obs.update(_read_out(out))
    if kept is not None:
        kept.append(out)
    usable = "ok"
    try:
        emp = JointDegreeEmpirical({JointDegreeNames.MOTIF_SIZES: list(case["sizes"]), JointDegreeNames.JDS: out})
        if set(emp.jdd.keys()) != set(out) or (out and abs(sum(emp.jdd.values()) - 1.0) > 1e-9):
            usable = "empirical-law-wrong"
    except Exception as e:  # noqa: BLE001
        usable = type(e).__name__
    obs["usable"] = usable
    return obs


def _make_loader(case, jdd):
    """the loader, configured along the case's construction path"""
    import random
    from gcmpy.joint_degree.joint_degree_distribution import JointDegreeDistribution
    from gcmpy.joint_degree.joint_degree_loaders.joint_degree_empirical import JointDegreeEmpirical
    from gcmpy.joint_degree.joint_degree_loaders.joint_degree_manual import JointDegreeManual
    from gcmpy.joint_degree.joint_degree_type import JointDegreeType
    from gcmpy.names.joint_degree_names import JointDegreeNames as NM
    path = case.get("path", "params")
    sizes = list(case["sizes"])
    T = max(1, len(sizes))
    observed = [tuple(case["keys"][i]) for i in case.get("observed", [])]
    if path == "params":
        return JointDegreeManual({NM.JDD: jdd, NM.MOTIF_SIZES: sizes})
    if path == "factory-manual":
        return JointDegreeDistribution.load_joint_degree(
            {NM.JOINT_DEGREE_TYPE: JointDegreeType.MANUAL.value, NM.JDD: jdd, NM.MOTIF_SIZES: sizes})
    if path in ("setters", "setters-used"):
        # another configuration first (ascending sizes, another distribution); then the public property setters
        loader = JointDegreeManual({NM.JDD: {(1,) * T: 0.5, (0,) * T: 0.5}, NM.MOTIF_SIZES: list(range(1, T + 1))})
        if path == "setters-used":
            state = random.getstate()
            try:
                loader.sample_jds_from_jdd(3)
            finally:
                random.setstate(state)
        loader.motif_sizes = sizes
        loader.jdd = jdd
        return loader
    if path in COVER_PATHS:
        import copy
        from gcmpy.joint_degree.joint_degree_loaders.joint_degree_cover import JointDegreeCover
        cover = copy.deepcopy(case["cover"])
        if path == "cover":
            return JointDegreeCover({NM.COVER: cover})
        if path == "factory-cover":
            return JointDegreeDistribution.load_joint_degree({NM.JOINT_DEGREE_TYPE: JointDegreeType.COVER.value, NM.COVER: cover})
        # a loader built from another cover; the public cover setter, re-derivation, and the sizes of the new cover
        loader = JointDegreeCover({NM.COVER: copy.deepcopy(case["cover0"])})
        loader.cover = cover
        loader.create_jdd()
        loader.motif_sizes = sizes
        return loader
    if path == "empirical":
        return JointDegreeEmpirical({NM.MOTIF_SIZES: sizes, NM.JDS: observed})
    if path == "factory-empirical":
        return JointDegreeDistribution.load_joint_degree(
            {NM.JOINT_DEGREE_TYPE: JointDegreeType.EMPIRICAL.value, NM.MOTIF_SIZES: sizes, NM.JDS: observed})
    if path == "empirical-setter":
        loader = JointDegreeEmpirical({NM.MOTIF_SIZES: list(range(1, T + 1)), NM.JDS: [(1,) * T, (0,) * T, (1,) * T]})
        loader.empirical_jds = observed
        loader.create_jdd()
        loader.motif_sizes = sizes
        return loader
    raise ValueError(path)


def _impl_sample(case):
    jdd = {}
    for k, w in zip(case["keys"], case["weights"]):
        jdd[tuple(k)] = float(fr(w))
    loader = _make_loader(case, jdd)
    before = list(loader.jdd.items())
    kept = [] if case.get("keep") else None
    obs = _one_call(loader, case, case["draws"], case["rs"], kept)
    obs["sizes_kept"] = list(loader.motif_sizes) == list(case["sizes"])
    obs["jdd_as_configured"] = before == list(jdd.items())
    obs["jdd_unchanged"] = list(loader.jdd.items()) == before
    if "draws2" in case:        # a second call on the SAME loader object with other oracle answers
        obs["second"] = _one_call(loader, case, case["draws2"], case["rs2"], kept)
        obs["jdd_unchanged"] = obs["jdd_unchanged"] and list(loader.jdd.items()) == before
    if kept is not None:
        # the caller still holds every sampled sequence: after the later call(s) on the same loader and a sample drawn
        # from a second loader, each of them is read again (sampled sequences must not alias each other)
        decoy = _decoy_sample(max(1, len(case["sizes"])), case["N"])
        for o, out in zip([obs, obs.get("second")], kept):
            o["later"] = _read_out(out)
        del decoy
    return obs


def _impl_choices(case):
    import random
    ws = [float(fr(w)) for w in case["weights"]]
    r = float(fr(case["r"]))
    inst = random._inst
    inst.random = lambda: r
    try:
        res = random.choices(list(range(len(ws))), weights=ws, k=1)
    finally:
        del inst.random
    return {"index": res[0]}


def impl(case):
    return _impl_sample(case) if case["kind"] == "sample" else _impl_choices(case)


def model_calls(case, io):
    if case["kind"] == "choices":
        return [("c05_choices", [case["weights"], case["r"]])]
    calls = [("c05_run", [case["keys"], case["weights"], case["sizes"], case["N"], case["draws"], case["rs"]])]
    if "draws2" in case:
        calls.append(("c05_run", [case["keys"], case["weights"], case["sizes"], case["N"], case["draws2"], case["rs2"]]))
    return calls


def model_obs(case, raws):
    r = raws[0]
    if r[0] == -1:
        return ["!exc", ERR.get(r[1], str(r[1]))]
    if case["kind"] == "choices":
        return {"index": r[1]}
    mo = {"call": r[1], "drawn": r[2], "out": r[3], "log": r[4]}
    if len(raws) > 1 and raws[1][0] != -1:
        r2 = raws[1]
        mo["second"] = {"call": r2[1], "drawn": r2[2], "out": r2[3], "log": r2[4]}
    return mo


def compare(case, io, mo):
    if core.is_exc(io) or core.is_exc(mo):
        if core.is_exc(io) and core.is_exc(mo):
            return None if io[1] == mo[1] else f"exception class: impl {io[1]} model {mo[1]}"
        return f"impl {io if core.is_exc(io) else 'returned'} / model {mo if core.is_exc(mo) else 'returned'}"
    if case["kind"] == "choices":
        return None if io["index"] == mo["index"] else f"choices rule: CPython index {io['index']} model {mo['index']}"
    d = _cmp_one(case, io, mo, "")
    if d:
        return d
    if "second" in io and "second" in mo:
        d = _cmp_one(case, io["second"], mo["second"], "second call on the same loader: ")
        if d:
            return d
    if not io["jdd_unchanged"]:
        return "the loader's jdd was modified by sampling"
    if not io.get("jdd_as_configured", True):
        return "the loader's jdd is not the configured distribution (construction path %s)" % case.get("path", "params")
    if not io.get("sizes_kept", True):
        return "the loader's motif_sizes are not the configured vector (construction path %s)" % case.get("path", "params")
    return None


def _cmp_one(case, io, mo, pre):
    if io["n_choices_calls"] != 1:
        return pre + f"{io['n_choices_calls']} choices calls (expected 1)"
    if io.get("other_random_calls"):
        return pre + f"unexpected random calls: {io['other_random_calls']}"
    pop, wts, k, idxs = io["call"]
    mpop, mw, mN = mo["call"]
    if pop != mpop or [fr(w) for w in wts] != [fr(w) for w in mw] or k != mN:
        return pre + f"choices asked ({pop},{wts},{k}) model ({mpop},{mw},{mN})"
    if io["out"] != mo["out"]:
        return pre + f"returned sequence: impl {io['out']} model {mo['out']}"
    if [x[2] for x in io["rlog"]] != [row for _, row in mo["log"]]:
        return pre + f"randrange answers used: impl {io['rlog']} model log {mo['log']}"
    if any(x[0] != 0 or x[1] != case["N"] for x in io["rlog"]):
        return pre + f"randrange asked for a range other than (0,{case['N']}): {io['rlog']}"
    if not all(io["tags"]) or io["out_type"] != "list":
        return pre + f"type tags: {io['out_type']} of {io['tags']}"
    if io["usable"] != "ok":
        return pre + f"JointDegreeEmpirical rejects the result: {io['usable']}"
    lt = io.get("later")
    if lt is not None and (lt["out"] != io["out"] or lt["tags"] != io["tags"] or lt["out_type"] != io["out_type"]):
        return pre + f"the returned sequence changed after later sampling calls: was {io['out']}, now {lt['out']}"
    return None


def check_calls(case, io):
    if not is_valid(case) or core.is_exc(io):
        return []
    calls = [("c05_check", [case["keys"], case["weights"], case["sizes"], case["N"], io["call"], io["rlog"], io["out"]])]
    if "second" in io:
        i2 = io["second"]
        calls.append(("c05_check", [case["keys"], case["weights"], case["sizes"], case["N"], i2["call"], i2["rlog"], i2["out"]]))
    # kept sequences read again after the later calls: the same checker, the same logged call and randrange answers
    for o in _observations(io):
        if o.get("later") is not None:
            calls.append(("c05_check", [case["keys"], case["weights"], case["sizes"], case["N"], o["call"], o["rlog"],
                                        _enc_rows(o["later"]["out"])]))
    return calls


def _observations(io):
    return [io] + ([io["second"]] if "second" in io else [])


def _enc_rows(rows):
    return [list(r) for r in rows]


def check_verdict(case, io, raws):
    if not is_valid(case):
        return None
    if core.is_exc(io):
        if io[1] in ("OracleProtocol", "Timeout"):
            return None     # a protocol change is a correspondence failure, judged by compare/search
        return f"implementation raised {io[1]} on a valid input"
    if not raws or not isinstance(raws[0], list):
        return "checker produced no verdict"
    obs = [("", io, raws[0])]
    if "second" in io and len(raws) > 1:
        obs.append(("second call on the same loader: ", io["second"], raws[1]))
    n_first = len(obs)
    later = [o for o in _observations(io) if o.get("later") is not None]
    for k, o in enumerate(later):
        if n_first + k < len(raws):
            which = "first" if o is io else "second"
            obs.append((f"the sequence returned by the {which} call, read again after the later sampling calls (same loader / a "
                        f"second loader) -- it now holds {len(o['later']['out'])} entries: ",
                        dict(o, tags=o["later"]["tags"], usable="ok"), raws[n_first + k]))
    for pre, o, v in obs:
        if v[0] != 1:
            bad = [CLAUSES[i] for i, b in enumerate(v[1:]) if b != 1]
            return pre + "c05_check rejected: " + "; ".join(bad)
        if not all(o["tags"]):
            j = o["tags"].index(0)
            return pre + f"entry {j} of the result is not a tuple of ints (unhashable list)"
        if o["usable"] != "ok":
            return pre + f"the result is not usable as a joint degree sequence: JointDegreeEmpirical -> {o['usable']}"
    return None


def nontrivial_key(case, io):
    if not is_valid(case) or core.is_exc(io):
        return None
    return case if io["rlog"] else None


def shrink(case):
    if case["kind"] != "sample":
        return
    if "draws2" in case:
        c = {k: v for k, v in case.items() if k not in ("draws2", "rs2")}
        yield c
        c = dict(c)
        c["draws"], c["rs"] = case["draws2"], case["rs2"]
        yield c
        return
    N = case["N"]
    if N > 1:
        for i in range(N):
            c = dict(case)
            c["N"] = N - 1
            c["draws"] = case["draws"][:i] + case["draws"][i + 1:]
            c["rs"] = [min(r, N - 2) for r in case["rs"]]
            yield c
    T = len(case["sizes"])
    if T > 1 and all(len(k) == T for k in case["keys"]) and "cover" not in case:
        for i in range(T):
            keys = [k[:i] + k[i + 1:] for k in case["keys"]]
            if len({tuple(k) for k in keys}) == len(keys):
                c = dict(case)
                c["keys"] = keys
                c["sizes"] = case["sizes"][:i] + case["sizes"][i + 1:]
                yield c
    if any(r != 0 for r in case["rs"]):
        c = dict(case)
        c["rs"] = [0] * len(case["rs"])
        yield c


def describe(case, io):
    if case["kind"] == "choices":
        return {"choices weights": [str(fr(w)) for w in case["weights"]], "r": str(fr(case["r"])), "impl": io}
    d = {k: case[k] for k in ("keys", "sizes", "N", "draws")}
    d["construction_path"] = case.get("path", "params")
    if "cover" in case:
        d["cover"] = case["cover"]
    if case.get("keep"):
        d["kept_sequences_read_again_after_later_calls"] = True
    d["rs"] = case["rs"][:8]
    d["impl"] = io if core.is_exc(io) else {"out": io["out"][:8], "randrange": io["rlog"][:8]}
    return d


def histogram(cases):
    h = {"sample_valid": 0, "sample_malformed": 0, "choices_rule": 0, "size_one_topology": 0, "N=1": 0, "max_N": 0,
         "max_topologies": 0, "entries>=2**53": 0, "motif_size>=7": 0}
    for c in cases:
        if c["kind"] == "choices":
            h["choices_rule"] += 1
            continue
        k = "path_" + c.get("path", "params")
        h[k] = h.get(k, 0) + 1
        if c.get("path", "").find("empirical") >= 0 and c["N"] == len(c.get("observed", [])):
            h["empirical_N=observed"] = h.get("empirical_N=observed", 0) + 1
        if c["sizes"] != sorted(c["sizes"]):
            h["sizes_not_ascending"] = h.get("sizes_not_ascending", 0) + 1
        if is_valid(c):
            h["sample_valid"] += 1
        else:
            h["sample_malformed"] += 1
        if 1 in c["sizes"]:
            h["size_one_topology"] += 1
        if c["N"] == 1:
            h["N=1"] += 1
        if any(x >= 2**53 for k in c["keys"] for x in k):
            h["entries>=2**53"] += 1
        if any(x >= 7 for x in c["sizes"]):
            h["motif_size>=7"] += 1
        h["max_N"] = max(h["max_N"], c["N"])
        h["max_topologies"] = max(h["max_topologies"], len(c["sizes"]))
    return h
