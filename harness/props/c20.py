"""C20 — DrawSet vs the Gallina model (Model/DrawSet.v), every step compared exactly."""
import itertools
from fractions import Fraction

from harness import oracles

ID = "C20"
RULE = ("operation histories over a small integer universe (ops: add, remove, draw(i of n), contains, len, iter, sweep = one draw per "
        "RNG outcome class, driven through whichever random primitive the code calls); "
        "exhaustive for short histories, seeded random for long ones; after EVERY step the implementation's "
        "output, its _edges list (exactly) and its _edge_hashmap (as sorted pairs) are compared with the model; "
        "elements are small ints, run-time-built tuples or large ints (equal but not identical objects) in turn, or "
        "members of a pool of DISTINCT ELEMENTS WITH EQUAL HASHES (-1/-2, 0/2^61-1/-(2^61-1), 1/2^61, tuples and "
        "frozensets of those, instances of a user class with a two-valued __hash__): all short histories (length <= 3 "
        "quick / <= 4 thorough) over every window of three consecutive pool members, and half of the mode-tagged random "
        "histories; the ITERATION PROTOCOL is part of the history language (each such operation is observed as two or "
        "three plain iter / contains / len answers, every one judged by the checker and compared with the model): two "
        "iterators alive at once advanced in turn (zip), an iterator abandoned half-way + a fresh pass + the old one "
        "resumed, nested loops (outer pass and an inner pass), list(ds) twice, membership and len() inside a loop "
        "body; non-trivial = history containing a successful remove; distinct by full op list")
EXHAUSTIVE = {"quick": True, "thorough": True}
EXPLANATION = ("general theorems (all histories) in Props/C20.v; correspondence exhaustive over all histories of "
               "length <= 4 (quick) / <= 5 (thorough) on a 3-element universe (each followed by the iteration-protocol "
               "observations), all histories of length <= 3 / <= 4 on 3-element universes of hash-colliding distinct "
               "elements, plus random long histories")
ASSUMPTIONS = ["random.choice(seq) returns seq[i] for the i the oracle scripts (CPython)"]
TRUSTED = []
TECHNIQUE = ("Coq proof (invariant + refinement to a plain set, induction over histories) "
             "+ model/implementation correspondence")
LEVEL_TEXT = (
    "General theorems in coq/Props/C20.v: for every finite add/remove/draw/contains/len/iter history the model's "
    "outputs satisfy the plain-set specification, the list/dict invariant holds in every reachable state, every "
    "member can be drawn, the draw is a bijection between the indices below len and the members (each member is "
    "returned by exactly one index, the one its hashmap entry stores; len = cardinality: C20_draw_bijection, so a "
    "uniform index is a uniform member), removing a member and re-inserting it restores exactly the same members and "
    "len from any state (C20_remove_then_reinsert), removal of an absent element raises and leaves the state unchanged. The model is tied to "
    "gcmpy/tools/draw_set.py by an every-step exact comparison of outputs, _edges and _edge_hashmap "
    "(exhaustive short histories + random long ones), and the verified checker c20_check judges the "
    "implementation's own outputs.")
LEVEL_NOTE = ("Trusted: Coq kernel; extraction (ExtrOcamlBasic) + OCaml driver + Python harness for the "
              "correspondence; CPython random.choice indexing. No axioms (Print Assumptions: closed under the "
              "global context).")

OPS = ["add", "remove", "draw", "contains", "len", "iter", "-", "sweep", "two-live-iterators", "abandoned-iterator",
       "nested-iteration", "list-twice", "contains/len-inside-loop"]


def _all_ops(universe, maxdraw):
    ops = []
    for e in universe:
        ops += [[0, e], [1, e], [3, e]]
    for i in range(maxdraw):
        ops.append([2, i])
    ops += [[4, 0], [5, 0]]
    return ops


def corpus():
    return [
        {"ops": [[0, 5], [0, 7], [0, 9], [1, 9], [1, 5], [0, 5], [1, 7], [1, 5], [1, 5], [0, 7], [5, 0], [4, 0]]},
        {"ops": [[1, 3]]},
        {"ops": [[2, 0]]},
        {"ops": [[0, 1], [0, 2], [0, 3], [1, 1], [2, 0], [2, 1], [5, 0], [1, 2], [1, 3], [4, 0], [0, 1]]},
    ]


def generate(rng, tier):
    maxlen = 4 if tier == "quick" else 5
    allops = _all_ops([1, 2, 3], 2) if tier == "quick" else _all_ops([1, 2, 3], 3)
    # exhaustive short histories over add/remove of a 3-element universe + one observer at the end
    muts = [o for o in allops if o[0] in (0, 1)]
    obs = [o for o in allops if o[0] not in (0, 1)]
    # the iteration protocol, observed at the end of every short history: two live iterators, an abandoned and
    # resumed iterator around a fresh pass, nested loops, two full passes, membership / len inside a loop body
    proto = [[8, 0], [9, 1], [10, 0], [12, 1], [11, 0], [12, 3]]
    for n in range(1, maxlen + 1):
        for seq in itertools.product(muts, repeat=n):
            yield {"ops": [list(o) for o in seq] + [[5, 0], [4, 0], [7, 0]] + [list(o) for o in obs[:4]] + proto}
    # the same exhaustive short histories over universes of HASH-COLLIDING distinct elements: every window of three
    # consecutive pool members (each contains at least one colliding pair) for length <= 2, every second window beyond
    for n in range(1, maxlen):
        for off in range(0, len(_POOL), 1 if n <= 2 else 2):
            for seq in itertools.product(muts, repeat=n):
                yield {"ops": [list(o) for o in seq] + [[5, 0], [4, 0], [7, 0]] + [list(o) for o in obs[:4]]
                       + proto[:3], "mode": 3, "pool": off}
    nrand = 800 if tier == "quick" else 5000
    for i in range(nrand):
        u = rng.randint(1, 8)
        n = rng.randint(1, 40)
        ops = []
        for _ in range(n):
            k = rng.choices([0, 1, 2, 3, 4, 5, 7, 8, 9, 10, 11, 12], weights=[12, 10, 6, 4, 2, 2, 2, 1, 1, 1, 1, 1])[0]
            if k in (0, 1, 3, 12):
                ops.append([k, rng.randint(1, u)])
            elif k in (2, 9):
                ops.append([k, rng.randint(0, u)])
            else:
                ops.append([k, 0])
        c = {"ops": ops}
        if i % 2:
            # element type chosen explicitly; half of these use the pool of hash-colliding elements
            c["mode"] = rng.choice([0, 1, 2, 3, 3, 3])
            if c["mode"] == 3:
                c["pool"] = rng.randrange(len(_POOL))
        yield c


class _H(object):
    """a user-defined element type whose hash takes two values only: distinct elements with equal hashes whatever
    the interpreter's hash function is"""

    def __init__(self, v):
        self.v = v

    def __hash__(self):
        return self.v % 2

    def __eq__(self, other):
        return isinstance(other, _H) and other.v == self.v

    def __repr__(self):
        return f"_H({self.v})"


# DISTINCT ELEMENTS WITH EQUAL HASHES, neighbours in this list collide (CPython: hash(-1) == hash(-2) == -2,
# hash(n) == n mod 2**61-1 for ints, tuple / frozenset hashes are functions of the member hashes); every entry is a
# constructor: the element is BUILT AT RUN TIME on every use (equal but distinct objects)
_M61 = 2 ** 61 - 1
_POOL = [
    lambda: tuple([-1, 3]), lambda: tuple([-2, 3]),
    lambda: int("0"), lambda: int(str(_M61)),
    lambda: int("-1"), lambda: int("-2"),
    lambda: tuple([0, 1]), lambda: tuple([int(str(_M61)), 1]),
    lambda: int("1"), lambda: int(str(_M61 + 1)),
    lambda: _H(0), lambda: _H(2), lambda: _H(4),
    lambda: frozenset([-1, 7]), lambda: frozenset([-2, 7]),
    lambda: int(str(-_M61)), lambda: tuple([3, -2]), lambda: tuple([3, -1]),
]


def _el(a, mode, off=0):
    """the element for universe member a.  mode 0: the int itself (small ints are interned: identity == equality);
    mode 1: a sorted 2-tuple BUILT AT RUN TIME on every use (equal but distinct objects, as the rewiring code does with
    tuple(sorted(e))); mode 2: a large int (> 256, not interned) built at run time; mode 3: member (a - 1 + off) of
    the pool of hash-colliding distinct elements (ints, tuples, frozensets, instances of a user class)."""
    if mode == 1:
        return tuple([a, a + 1])
    if mode == 2:
        return int(str(1000 + a))
    if mode == 3:
        return _POOL[(a - 1 + off) % len(_POOL)]()
    return a


def _un(x, mode, off=0):
    if mode == 1:
        return x[0] if isinstance(x, tuple) and len(x) == 2 and x[1] == x[0] + 1 else -1
    if mode == 2:
        return x - 1000 if isinstance(x, int) and not isinstance(x, bool) else -1
    if mode == 3:
        for i, mk in enumerate(_POOL):
            p = mk()
            if type(p) is type(x) and p == x:
                return (i - off) % len(_POOL) + 1
        return -1
    return x


def _state(d, mode=0, off=0):
    return [[_un(x, mode, off) for x in d._edges],
            sorted([[_un(k, mode, off), v] for k, v in d._edge_hashmap.items()])]


def impl(case):
    from gcmpy.tools.draw_set import DrawSet
    d = DrawSet()
    trace = []
    mode = case.get("mode", len(case["ops"]) % 3)
    off = case.get("pool", 0)

    def _el(a, mode):                      # noqa: F811 - the pool offset of this case
        return _EL(a, mode, off)

    def _un(x, mode):                      # noqa: F811
        return _UN(x, mode, off)

    for k, a in case["ops"]:
        out = None
        more = []                          # further observations of the same operation (one model op each)
        try:
            if k == 0:
                d.add(_el(a, mode))
                out = [0]
            elif k == 1:
                d.remove(_el(a, mode))
                out = [0]
            elif k == 2:
                # draw "index a of n" through whichever random primitive the code uses
                n = len(d)
                if a >= n:
                    if n == 0:
                        with oracles.frac_scripted(oracles.FracScript([Fraction(1, 2)])):
                            d.draw()
                    out = [1]
                else:
                    with oracles.frac_scripted(oracles.FracScript([Fraction(2 * a + 1, 2 * n)])):
                        out = [2, _un(d.draw(), mode)]
            elif k == 7:
                # sweep: one draw per possible RNG outcome class; every member must be drawable
                n = len(d)
                seen = []
                for i in range(n):
                    with oracles.frac_scripted(oracles.FracScript([Fraction(2 * i + 1, 2 * n)])):
                        x = _un(d.draw(), mode)
                    if x not in seen:
                        seen.append(x)
                out = [5, seen]
            elif k == 3:
                out = [3, int(_el(a, mode) in d)]
            elif k == 4:
                out = [4, len(d)]
            elif k == 8:
                # TWO ITERATORS ALIVE AT ONCE (zip(d, d)), advanced in turn until both are exhausted
                it1, it2 = iter(d), iter(d)
                l1, l2, live, guard = [], [], [True, True], 4 * len(d) + 8
                while (live[0] or live[1]) and guard > 0:
                    guard -= 1
                    for j, (it, lst) in enumerate(((it1, l1), (it2, l2))):
                        if live[j]:
                            try:
                                lst.append(_un(next(it), mode))
                            except StopIteration:
                                live[j] = False
                out = [5, l1]
                more = [[5, l2]]
            elif k == 9:
                # AN ITERATOR ABANDONED HALF-WAY, A FRESH FULL PASS, then the old iterator is resumed
                it = iter(d)
                head = []
                for _ in range(a):
                    try:
                        head.append(_un(next(it), mode))
                    except StopIteration:
                        break
                fresh = [_un(x, mode) for x in d]
                rest = [_un(x, mode) for x in it]
                out = [5, fresh]
                more = [[5, head + rest]]
            elif k == 10:
                # NESTED LOOPS: the outer pass and the inner passes made inside its body
                outer, inners, guard = [], [], 4 * len(d) + 8
                for x in d:
                    outer.append(_un(x, mode))
                    inners.append([_un(y, mode) for y in d])
                    guard -= 1
                    if guard <= 0:
                        break
                # one inner pass is reported: the first one that differs from the outer pass if there is one
                inner = next((l for l in inners if l != outer), inners[-1] if inners else [_un(y, mode) for y in d])
                out = [5, outer]
                more = [[5, inner]]
            elif k == 11:
                # len(list(d)) twice
                l1 = [_un(x, mode) for x in list(d)]
                l2 = [_un(x, mode) for x in list(d)]
                out = [5, l1]
                more = [[5, l2], [4, len(d)]]
            elif k == 12:
                # MEMBERSHIP TESTS AND len() INSIDE THE BODY of a loop over the set
                visited, answers, lens, guard = [], [], [], 4 * len(d) + 8
                for x in d:
                    visited.append(_un(x, mode))
                    answers.append(int(_el(a, mode) in d))
                    lens.append(len(d))
                    guard -= 1
                    if guard <= 0:
                        break
                if not answers:
                    answers.append(int(_el(a, mode) in d))
                    lens.append(len(d))
                # one answer of each kind is reported: the first one that differs from the first answer, if any
                out = [5, visited]
                more = [[3, next((b for b in answers if b != answers[0]), answers[0])],
                        [4, next((n for n in lens if n != lens[0]), lens[0])]]
            else:
                out = [5, [_un(x, mode) for x in iter(d)]]
        except (KeyError, IndexError, ValueError):
            out = [1]
        st = _state(d, mode, off)
        trace.append([out, st])
        for o in more:
            trace.append([o, st])
    return trace


_EL, _UN = _el, _un


_EXPAND = {7: lambda a: [[5, 0]], 8: lambda a: [[5, 0], [5, 0]], 9: lambda a: [[5, 0], [5, 0]],
           10: lambda a: [[5, 0], [5, 0]], 11: lambda a: [[5, 0], [5, 0], [4, 0]],
           12: lambda a: [[5, 0], [3, a], [4, 0]]}


def _mops(case):
    """the model's operations: every observation of a harness operation is one plain operation of the model (an
    iteration started while another one is alive is still `iter`)"""
    out = []
    for k, a in case["ops"]:
        out += _EXPAND[k](a) if k in _EXPAND else [[k, a]]
    return out


def model_calls(case, impl_obs):
    return [("c20_run", _mops(case))]


def model_obs(case, raws):
    tr = raws[0]
    return [[o, [st[0], sorted(st[1])]] for o, st in tr]


def compare(case, impl_obs, model):
    if impl_obs == model:
        return None
    if isinstance(impl_obs, list) and impl_obs and impl_obs[0] == "!exc":
        return f"implementation raised {impl_obs[1]}"
    mops = _mops(case)
    for i, (a, b) in enumerate(zip(impl_obs, model)):
        if a != b:
            return f"observation {i} (model op {mops[i] if i < len(mops) else '?'}) of history {case['ops'][:12]}: " \
                   f"impl {a} model {b}"
    return "length mismatch"


def check_calls(case, impl_obs):
    if isinstance(impl_obs, list) and impl_obs and impl_obs[0] == "!exc":
        return []
    h = [[op, o, st[0]] for op, (o, st) in zip(_mops(case), impl_obs)]
    return [("c20_check", h)]


def check_verdict(case, impl_obs, raws):
    if isinstance(impl_obs, list) and impl_obs and impl_obs[0] == "!exc":
        return f"implementation raised {impl_obs[1]} on a history the property covers"
    return None if raws and raws[0] == 1 else "c20_check (plain-set specification) rejected the observed history"


def nontrivial_key(case, impl_obs):
    ok_remove = any(op[0] == 1 and o[0] == [0] for op, o in zip(_mops(case), impl_obs) if isinstance(o, list))
    return case["ops"] if ok_remove else None


def shrink(case):
    ops = case["ops"]
    # the element type of a case without an explicit mode depends on its length: pin it while shrinking
    keep = {"mode": case.get("mode", len(ops) % 3)}
    if "pool" in case:
        keep["pool"] = case["pool"]
    for i in range(len(ops)):
        yield dict(keep, ops=ops[:i] + ops[i + 1:])


def describe(case, impl_obs):
    mode, off = case.get("mode", len(case["ops"]) % 3), case.get("pool", 0)
    return {"ops(0=add,1=remove,2=draw,3=contains,4=len,5=iter,7=sweep,8=two live iterators,9=abandoned iterator + "
            "fresh pass,10=nested loops,11=list twice,12=contains/len inside a loop)": case["ops"][:12],
            "elements": {str(a): repr(_el(a, mode, off)) for a in sorted({o[1] for o in case["ops"]
                                                                         if o[0] in (0, 1, 3, 12)})[:10]},
            "final_state": impl_obs[-1][1] if impl_obs and isinstance(impl_obs[-1], list) else impl_obs}


def histogram(cases):
    h = {}
    for c in cases:
        for k, _ in c["ops"]:
            h[OPS[k]] = h.get(OPS[k], 0) + 1
    h["histories"] = len(cases)
    h["max_len"] = max(len(c["ops"]) for c in cases) if cases else 0
    return h


def search(rng, tier, seeds):
    batch = []
    for c in generate(rng, "thorough"):
        batch.append(c)
        if len(batch) == 400:
            yield batch
            batch = []
    if batch:
        yield batch
