"""C20 — DrawSet vs the Gallina model (Model/DrawSet.v), every step compared exactly."""
import itertools
from fractions import Fraction

from harness import oracles

ID = "C20"
RULE = ("operation histories over a small integer universe (ops: add, remove, draw(i of n), contains, len, iter, sweep = one draw per "
        "RNG outcome class, driven through whichever random primitive the code calls); "
        "exhaustive for short histories, seeded random for long ones; after EVERY step the implementation's "
        "output, its _edges list (exactly) and its _edge_hashmap (as sorted pairs) are compared with the model; "
        "elements are small ints, run-time-built tuples or large ints (equal but not identical objects) in turn; "
        "non-trivial = history containing a successful remove; distinct by full op list")
EXHAUSTIVE = {"quick": True, "thorough": True}
EXPLANATION = ("general theorems (all histories) in Props/C20.v; correspondence exhaustive over all histories of "
               "length <= 4 (quick) / <= 5 (thorough) on a 3-element universe plus random long histories")
ASSUMPTIONS = ["random.choice(seq) returns seq[i] for the i the oracle scripts (CPython)"]
TRUSTED = []
TECHNIQUE = ("Coq proof (invariant + refinement to a plain set, induction over histories) "
             "+ model/implementation correspondence")
LEVEL_TEXT = (
    "General theorems in coq/Props/C20.v: for every finite add/remove/draw/contains/len/iter history the model's "
    "outputs satisfy the plain-set specification, the list/dict invariant holds in every reachable state, every "
    "member can be drawn, removal of an absent element raises and leaves the state unchanged. The model is tied to "
    "gcmpy/tools/draw_set.py by an every-step exact comparison of outputs, _edges and _edge_hashmap "
    "(exhaustive short histories + random long ones), and the verified checker c20_check judges the "
    "implementation's own outputs.")
LEVEL_NOTE = ("Trusted: Coq kernel; extraction (ExtrOcamlBasic) + OCaml driver + Python harness for the "
              "correspondence; CPython random.choice indexing. No axioms (Print Assumptions: closed under the "
              "global context).")

OPS = ["add", "remove", "draw", "contains", "len", "iter", "-", "sweep"]


def _all_ops(universe, maxdraw):
    ops = []
    for e in universe:
        ops += [[0, e], [1, e], [3, e]]
    for i in range(maxdraw):
        ops.append([2, i])
    ops += [[4, 0], [5, 0]]
    return ops


def corpus():
    return [
        {"ops": [[0, 5], [0, 7], [0, 9], [1, 9], [1, 5], [0, 5], [1, 7], [1, 5], [1, 5], [0, 7], [5, 0], [4, 0]]},
        {"ops": [[1, 3]]},
        {"ops": [[2, 0]]},
        {"ops": [[0, 1], [0, 2], [0, 3], [1, 1], [2, 0], [2, 1], [5, 0], [1, 2], [1, 3], [4, 0], [0, 1]]},
    ]


def generate(rng, tier):
    maxlen = 4 if tier == "quick" else 5
    allops = _all_ops([1, 2, 3], 2) if tier == "quick" else _all_ops([1, 2, 3], 3)
    # exhaustive short histories over add/remove of a 3-element universe + one observer at the end
    muts = [o for o in allops if o[0] in (0, 1)]
    obs = [o for o in allops if o[0] not in (0, 1)]
    for n in range(1, maxlen + 1):
        for seq in itertools.product(muts, repeat=n):
            yield {"ops": [list(o) for o in seq] + [[5, 0], [4, 0], [7, 0]] + [list(o) for o in obs[:4]]}
    nrand = 800 if tier == "quick" else 5000
    for _ in range(nrand):
        u = rng.randint(1, 8)
        n = rng.randint(1, 40)
        ops = []
        for _ in range(n):
            k = rng.choices([0, 1, 2, 3, 4, 5, 7], weights=[6, 5, 3, 2, 1, 1, 1])[0]
            if k in (0, 1, 3):
                ops.append([k, rng.randint(1, u)])
            elif k == 2:
                ops.append([2, rng.randint(0, u)])
            else:
                ops.append([k, 0])
        yield {"ops": ops}


def _el(a, mode):
    """the element for universe member a.  mode 0: the int itself (small ints are interned: identity == equality);
    mode 1: a sorted 2-tuple BUILT AT RUN TIME on every use (equal but distinct objects, as the rewiring code does with
    tuple(sorted(e))); mode 2: a large int (> 256, not interned) built at run time."""
    if mode == 1:
        return tuple([a, a + 1])
    if mode == 2:
        return int(str(1000 + a))
    return a


def _un(x, mode):
    if mode == 1:
        return x[0] if isinstance(x, tuple) and len(x) == 2 and x[1] == x[0] + 1 else -1
    if mode == 2:
        return x - 1000 if isinstance(x, int) else -1
    return x


def _state(d, mode=0):
    return [[_un(x, mode) for x in d._edges], sorted([[_un(k, mode), v] for k, v in d._edge_hashmap.items()])]


def impl(case):
    from gcmpy.tools.draw_set import DrawSet
    d = DrawSet()
    trace = []
    mode = case.get("mode", len(case["ops"]) % 3)
    for k, a in case["ops"]:
        out = None
        try:
            if k == 0:
                d.add(_el(a, mode))
                out = [0]
            elif k == 1:
                d.remove(_el(a, mode))
                out = [0]
            elif k == 2:
                # draw "index a of n" through whichever random primitive the code uses
                n = len(d)
                if a >= n:
                    if n == 0:
                        with oracles.frac_scripted(oracles.FracScript([Fraction(1, 2)])):
                            d.draw()
                    out = [1]
                else:
                    with oracles.frac_scripted(oracles.FracScript([Fraction(2 * a + 1, 2 * n)])):
                        out = [2, _un(d.draw(), mode)]
            elif k == 7:
                # sweep: one draw per possible RNG outcome class; every member must be drawable
                n = len(d)
                seen = []
                for i in range(n):
                    with oracles.frac_scripted(oracles.FracScript([Fraction(2 * i + 1, 2 * n)])):
                        x = _un(d.draw(), mode)
                    if x not in seen:
                        seen.append(x)
                out = [5, seen]
            elif k == 3:
                out = [3, int(_el(a, mode) in d)]
            elif k == 4:
                out = [4, len(d)]
            else:
                out = [5, [_un(x, mode) for x in iter(d)]]
        except (KeyError, IndexError, ValueError):
            out = [1]
        trace.append([out, _state(d, mode)])
    return trace


def _mops(case):
    return [[5, 0] if k == 7 else [k, a] for k, a in case["ops"]]


def model_calls(case, impl_obs):
    return [("c20_run", _mops(case))]


def model_obs(case, raws):
    tr = raws[0]
    return [[o, [st[0], sorted(st[1])]] for o, st in tr]


def compare(case, impl_obs, model):
    if impl_obs == model:
        return None
    if isinstance(impl_obs, list) and impl_obs and impl_obs[0] == "!exc":
        return f"implementation raised {impl_obs[1]}"
    for i, (a, b) in enumerate(zip(impl_obs, model)):
        if a != b:
            return f"step {i} op {case['ops'][i]}: impl {a} model {b}"
    return "length mismatch"


def check_calls(case, impl_obs):
    if isinstance(impl_obs, list) and impl_obs and impl_obs[0] == "!exc":
        return []
    h = [[op, o, st[0]] for op, (o, st) in zip(_mops(case), impl_obs)]
    return [("c20_check", h)]


def check_verdict(case, impl_obs, raws):
    if isinstance(impl_obs, list) and impl_obs and impl_obs[0] == "!exc":
        return f"implementation raised {impl_obs[1]} on a history the property covers"
    return None if raws and raws[0] == 1 else "c20_check (plain-set specification) rejected the observed history"


def nontrivial_key(case, impl_obs):
    ok_remove = any(op[0] == 1 and o[0] == [0] for op, o in zip(case["ops"], impl_obs) if isinstance(o, list))
    return case["ops"] if ok_remove else None


def shrink(case):
    ops = case["ops"]
    for i in range(len(ops)):
        yield {"ops": ops[:i] + ops[i + 1:]}


def describe(case, impl_obs):
    return {"ops(0=add,1=remove,2=draw,3=contains,4=len,5=iter)": case["ops"][:12],
            "final_state": impl_obs[-1][1] if impl_obs and isinstance(impl_obs[-1], list) else impl_obs}


def histogram(cases):
    h = {}
    for c in cases:
        for k, _ in c["ops"]:
            h[OPS[k]] = h.get(OPS[k], 0) + 1
    h["histories"] = len(cases)
    h["max_len"] = max(len(c["ops"]) for c in cases) if cases else 0
    return h


def search(rng, tier, seeds):
    batch = []
    for c in generate(rng, "thorough"):
        batch.append(c)
        if len(batch) == 400:
            yield batch
            batch = []
    if batch:
        yield batch
